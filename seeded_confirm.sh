#!/bin/bash
# usage: seeded_confirm.sh <worktree> <property> <name>
# Confirms a seeded change in its scratch worktree (suite passes with it, demo fails with / passes without),
# stores it under /verif/seeded/<name>/, runs the property's quick check against /repo with the patch applied,
# reverts /repo and removes the worktree.
set -u
WT=$1; PID=$2; NAME=$3
OUT=/verif/seeded/$NAME
mkdir -p $OUT
cd $WT || exit 2
git diff -- src > $OUT/patch.diff
cp tests/seeded_demo.rs $OUT/demo.rs 2>/dev/null
cp SEEDED.md $OUT/SEEDED.md 2>/dev/null
export CARGO_NET_OFFLINE=true
# the demo would be part of --workspace tests: move it aside for the suite run
mv tests/seeded_demo.rs /tmp/seeded_demo_aside.rs
FAILED_NAMES=$(cargo test --workspace --no-fail-fast --offline 2>&1 | grep -E "^test .* FAILED" | grep -v "^test result" | grep -v "test_write_include" | tr '\n' ';')
OTHER_FAILED=$(echo -n "$FAILED_NAMES" | tr -cd ';' | wc -c)
mv /tmp/seeded_demo_aside.rs tests/seeded_demo.rs
cargo test --offline --test seeded_demo >/tmp/demo_with.log 2>&1; WITH=$?
git checkout -q -- src
cargo test --offline --test seeded_demo >/tmp/demo_without.log 2>&1; WITHOUT=$?
git apply $OUT/patch.diff
echo "suite failures outside demo (with change): $OTHER_FAILED ; demo rc with=$WITH without=$WITHOUT"
# run the check against /repo with the patch
cd /repo && git apply $OUT/patch.diff || { echo "PATCH DOES NOT APPLY"; exit 3; }
cd /verif && ./check $PID quick > $OUT/check_output.txt 2>&1; RC=$?
git -C /repo checkout -- .
tail -5 $OUT/check_output.txt
python3 - <<PY
import json
json.dump({"property":"$PID","name":"$NAME","suite_failures_outside_demo_with_change":$OTHER_FAILED,
 "failed_tests_with_change":"$FAILED_NAMES (test_write_include is flaky in the pinned baseline and ignored)","demo_rc_with_change":$WITH,"demo_rc_without_change":$WITHOUT,"check_rc_with_patch":$RC,
 "detected": $RC==1,
 "ran":["cargo test --workspace --no-fail-fast --offline (in the scratch worktree, with the change)",
        "cargo test --offline --test seeded_demo (with the change, then with src stashed)",
        "git -C /repo apply patch.diff; ./check $PID quick; git -C /repo checkout -- ."],
 "needs":"see SEEDED.md"}, open("$OUT/meta.json","w"), indent=1)
PY
echo "check rc=$RC"
# evidence must describe the unchanged tree
cd /verif && ./check $PID quick > /dev/null 2>&1
git -C /repo worktree remove --force $WT
