//! Extracts the minicbor derive schema of every type that derives Encode/Decode.
use serde_json::json;
use syn::{Attribute, Fields, Item, Meta};

pub struct FieldS {
    pub name: String,
    pub idx: Option<u64>,
    pub skip: bool,
    pub enc_with: Option<String>,
    pub dec_with: Option<String>,
    pub ty: String,
}

fn derives_cbor(attrs: &[Attribute]) -> bool {
    attrs.iter().any(|a| {
        a.path().is_ident("derive") && {
            let mut found = false;
            let _ = a.parse_nested_meta(|m| {
                if m.path.is_ident("Encode") || m.path.is_ident("Decode") {
                    found = true;
                }
                Ok(())
            });
            found
        }
    })
}

/// (index, skip, encode_with, decode_with, transparent) from `#[n(k)]` / `#[cbor(...)]`
fn cbor_attrs(attrs: &[Attribute]) -> Result<(Option<u64>, bool, Option<String>, Option<String>, bool), String> {
    let mut idx = None;
    let mut skip = false;
    let mut enc = None;
    let mut dec = None;
    let mut transparent = false;
    for a in attrs {
        if a.path().is_ident("n") || a.path().is_ident("b") {
            let lit: syn::LitInt = a.parse_args().map_err(|e| format!("index attribute: {}", e))?;
            idx = Some(lit.base10_parse::<u64>().map_err(|e| e.to_string())?);
        } else if a.path().is_ident("cbor") {
            if let Meta::List(_) = &a.meta {
                a.parse_nested_meta(|m| {
                    if m.path.is_ident("n") || m.path.is_ident("b") {
                        let content;
                        syn::parenthesized!(content in m.input);
                        let lit: syn::LitInt = content.parse()?;
                        idx = Some(lit.base10_parse::<u64>()?);
                    } else if m.path.is_ident("skip") {
                        skip = true;
                    } else if m.path.is_ident("transparent") {
                        transparent = true;
                    } else if m.path.is_ident("encode_with") {
                        let v: syn::LitStr = m.value()?.parse()?;
                        enc = Some(v.value());
                    } else if m.path.is_ident("decode_with") {
                        let v: syn::LitStr = m.value()?.parse()?;
                        dec = Some(v.value());
                    } else if m.input.peek(syn::Token![=]) {
                        let _: syn::Expr = m.value()?.parse()?;
                    } else if m.input.peek(syn::token::Paren) {
                        let content;
                        syn::parenthesized!(content in m.input);
                        let _: proc_macro2::TokenStream = content.parse()?;
                    }
                    Ok(())
                })
                .map_err(|e| format!("cbor attribute: {}", e))?;
            }
        }
    }
    Ok((idx, skip, enc, dec, transparent))
}

fn fields_of(fields: &Fields) -> Result<Vec<FieldS>, String> {
    let mut out = vec![];
    for (i, f) in fields.iter().enumerate() {
        let (idx, skip, enc_with, dec_with, _) = cbor_attrs(&f.attrs)?;
        let ty = &f.ty;
        out.push(FieldS {
            name: f.ident.as_ref().map(|x| x.to_string()).unwrap_or_else(|| format!("_{}", i)),
            idx,
            skip,
            enc_with,
            dec_with,
            ty: quote::quote!(#ty).to_string().replace(' ', ""),
        });
    }
    Ok(out)
}

fn lean_str(s: &str) -> String {
    format!("\"{}\"", s.replace('\\', "\\\\").replace('"', "\\\""))
}
fn lean_opt_nat(o: Option<u64>) -> String {
    match o {
        Some(n) => format!("(some {})", n),
        None => "none".into(),
    }
}
fn lean_opt_str(o: &Option<String>) -> String {
    match o {
        Some(s) => format!("(some {})", lean_str(s)),
        None => "none".into(),
    }
}
fn lean_fields(fs: &[FieldS]) -> String {
    let items: Vec<String> = fs
        .iter()
        .map(|f| format!("⟨{}, {}, {}, {}, {}, {}⟩", lean_str(&f.name), lean_opt_nat(f.idx), f.skip, lean_opt_str(&f.enc_with), lean_opt_str(&f.dec_with), lean_str(&f.ty)))
        .collect();
    format!("[{}]", items.join(",\n      "))
}

pub fn generate(parsed: &[(String, String, syn::File)]) -> Result<(String, serde_json::Value), String> {
    let mut types: Vec<String> = vec![];
    let mut info = vec![];
    for (file, _, ast) in parsed {
        for item in &ast.items {
            match item {
                Item::Struct(s) if derives_cbor(&s.attrs) => {
                    let (_, _, _, _, transparent) = cbor_attrs(&s.attrs)?;
                    let fs = fields_of(&s.fields)?;
                    info.push(json!({"type": s.ident.to_string(), "file": file, "kind": "struct", "fields": fs.len()}));
                    types.push(format!("  ⟨{}, {}, {},\n     {},\n     []⟩", lean_str(&s.ident.to_string()), lean_str(file), transparent, lean_fields(&fs)));
                }
                Item::Enum(e) if derives_cbor(&e.attrs) => {
                    let (_, _, _, _, transparent) = cbor_attrs(&e.attrs)?;
                    let mut vs = vec![];
                    for v in &e.variants {
                        let (idx, _, _, _, _) = cbor_attrs(&v.attrs)?;
                        let fs = fields_of(&v.fields)?;
                        vs.push(format!("⟨{}, {}, {}⟩", lean_str(&v.ident.to_string()), lean_opt_nat(idx), lean_fields(&fs)));
                    }
                    info.push(json!({"type": e.ident.to_string(), "file": file, "kind": "enum", "variants": vs.len()}));
                    types.push(format!("  ⟨{}, {}, {},\n     [],\n     [{}]⟩", lean_str(&e.ident.to_string()), lean_str(file), transparent, vs.join(",\n      ")));
                }
                _ => {}
            }
        }
    }
    if types.is_empty() {
        return Err("no type deriving minicbor Encode/Decode found".into());
    }
    let lean = format!(
        "/-\n  GENERATED by /verif/translate from /repo/src on every run - do not edit.\n  The minicbor derive schema of every type that derives Encode/Decode.\n-/\nimport StamModel.CborModel\nnamespace Stam.Gen\nopen Stam.Cbor\n\ndef cborSchema : List TypeS := [\n{}\n]\n\nend Stam.Gen\n",
        types.join(",\n")
    );
    Ok((lean, json!({"types": info})))
}
