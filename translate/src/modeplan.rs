//! `AnnotationStore::protect_text` (src/textvalidation.rs): the decision `let (do_checksum, do_text) = match mode { … }`
//! is translated to a Lean function over the mirror type `TV.Mode` of `StamModel/Validation.lean`.
//!
//! Supported: arms `TextValidationMode::V => (bool, bool)` and `TextValidationMode::V => { let textlen = …; if textlen <cmp> N { (b, b) } else { (b, b) } }`
//! (the fold that computes `textlen` is the model's `annLen`, a parameter here).
use quote::ToTokens;
use syn::{BinOp, Expr, Pat, Stmt};

fn pair(e: &Expr) -> Result<String, String> {
    match e {
        Expr::Tuple(t) if t.elems.len() == 2 => {
            let b = |x: &Expr| match x { Expr::Lit(l) => match &l.lit { syn::Lit::Bool(b) => Ok(b.value.to_string()), o => Err(format!("literal {}", o.to_token_stream())) }, o => Err(format!("expected a boolean literal, found `{}`", o.to_token_stream())) };
            Ok(format!("({}, {})", b(&t.elems[0])?, b(&t.elems[1])?))
        }
        Expr::Block(b) if b.block.stmts.len() == 1 => match &b.block.stmts[0] { Stmt::Expr(e, None) => pair(e), o => Err(format!("statement `{}`", o.to_token_stream())) },
        o => Err(format!("expected a pair of booleans, found `{}`", o.to_token_stream())),
    }
}

fn find_match<'a>(stmts: &'a [Stmt]) -> Option<&'a syn::ExprMatch> {
    for s in stmts {
        match s {
            Stmt::Local(l) => { if let Some(init) = &l.init { if let Expr::Match(m) = &*init.expr { if m.expr.to_token_stream().to_string() == "mode" { return Some(m); } } } }
            Stmt::Expr(Expr::ForLoop(f), _) => { if let Some(m) = find_match(&f.body.stmts) { return Some(m); } }
            _ => {}
        }
    }
    None
}

pub fn generate(parsed: &[(String, String, syn::File)]) -> Result<(String, serde_json::Value), String> {
    let (_, _, ast) = parsed.iter().find(|(n, _, _)| n == "textvalidation.rs").ok_or("textvalidation.rs not found")?;
    for item in &ast.items {
        if let syn::Item::Impl(im) = item {
            for ii in &im.items {
                if let syn::ImplItem::Fn(f) = ii {
                    if f.sig.ident != "protect_text" { continue; }
                    let m = find_match(&f.block.stmts).ok_or("protect_text: `match mode` not found")?;
                    let mut arms = vec![];
                    for arm in &m.arms {
                        let v = match &arm.pat { Pat::Path(p) => p.path.segments.last().map(|s| s.ident.to_string()).unwrap_or_default(), o => return Err(format!("protect_text: arm pattern `{}`", o.to_token_stream())) };
                        let lv = match v.as_str() { "Checksum" => "checksum", "Text" => "text", "Both" => "both", "Auto" => "auto", o => return Err(format!("protect_text: unknown mode {}", o)) };
                        let rhs = match &*arm.body {
                            Expr::Tuple(_) => pair(&arm.body)?,
                            Expr::Block(b) => {
                                // { let textlen = <fold>; if textlen <cmp> N { pair } else { pair } }
                                let stmts = &b.block.stmts;
                                if stmts.len() != 2 { return Err(format!("protect_text: arm {} has {} statements", v, stmts.len())); }
                                match &stmts[0] { Stmt::Local(l) if l.pat.to_token_stream().to_string() == "textlen" => {}, o => return Err(format!("protect_text: expected `let textlen = …`, found `{}`", o.to_token_stream())) }
                                match &stmts[1] {
                                    Stmt::Expr(Expr::If(i), None) => {
                                        let (op, n) = match &*i.cond { Expr::Binary(bin) if bin.left.to_token_stream().to_string() == "textlen" => {
                                            let n = match &*bin.right { Expr::Lit(l) => match &l.lit { syn::Lit::Int(i) => i.base10_digits().to_string(), o => return Err(format!("literal {}", o.to_token_stream())) }, o => return Err(format!("threshold `{}`", o.to_token_stream())) };
                                            let op = match bin.op { BinOp::Lt(_) => "<", BinOp::Le(_) => "≤", BinOp::Gt(_) => ">", BinOp::Ge(_) => "≥", _ => return Err(format!("comparison `{}`", bin.op.to_token_stream())) };
                                            (op, n)
                                        } o => return Err(format!("protect_text: condition `{}`", o.to_token_stream())) };
                                        let t = pair(&Expr::Block(syn::ExprBlock { attrs: vec![], label: None, block: i.then_branch.clone() }))?;
                                        let e = match &i.else_branch { Some((_, e)) => pair(e)?, None => return Err("protect_text: if without else".into()) };
                                        format!("if textlen {} {} then {} else {}", op, n, t, e)
                                    }
                                    o => return Err(format!("protect_text: expected an if, found `{}`", o.to_token_stream())),
                                }
                            }
                            o => return Err(format!("protect_text: arm body `{}`", o.to_token_stream())),
                        };
                        arms.push(format!("  | .{}, {} => {}", lv, if rhs.starts_with("if") { "textlen" } else { "_" }, rhs));
                    }
                    let lean = format!(
"import StamModel.Validation
/-
  GENERATED by /verif/translate from /repo/src/textvalidation.rs (`AnnotationStore::protect_text`) — do not edit.
  The decision which validation information is recorded: (do_checksum, do_text) per mode and length of the selected text.
-/
namespace Stam.Gen

def modePlan : TV.Mode → Nat → Bool × Bool
{}

end Stam.Gen
", arms.join("\n"));
                    return Ok((lean, serde_json::json!({ "mode_arms": arms.len() })));
                }
            }
        }
    }
    Err("protect_text not found".into())
}
