//! stam-rust -> Lean translator. Re-reads /repo/src on every run and regenerates
//! `StamModel/Gen/*.lean`, so that the theorems importing them are re-checked against what the
//! source says now. Two generators:
//!   * cbor:    the CBOR schema table (every #[n(k)], #[cbor(skip)], encode_with/decode_with of
//!              every type deriving minicbor Encode/Decode)
//!   * kernels: pure arithmetic/boolean kernels (see kernels.rs)
mod cbor;
mod dvtest;
mod jsontags;
mod kernels;
mod modeplan;

use std::path::{Path, PathBuf};

fn rs_files(dir: &Path, out: &mut Vec<PathBuf>) {
    let mut entries: Vec<_> = std::fs::read_dir(dir).expect("source dir").filter_map(|e| e.ok()).map(|e| e.path()).collect();
    entries.sort();
    for p in entries {
        if p.is_dir() {
            rs_files(&p, out);
        } else if p.extension().map(|e| e == "rs").unwrap_or(false) {
            out.push(p);
        }
    }
}

fn main() {
    let args: Vec<String> = std::env::args().collect();
    if args.len() != 3 {
        eprintln!("usage: stamtranslate <repo src dir> <output dir for generated Lean>");
        std::process::exit(2);
    }
    let src = Path::new(&args[1]);
    let out = Path::new(&args[2]);
    std::fs::create_dir_all(out).expect("output dir");
    let mut files = vec![];
    rs_files(src, &mut files);
    let mut parsed = vec![];
    for f in &files {
        let text = std::fs::read_to_string(f).expect("read source");
        match syn::parse_file(&text) {
            Ok(ast) => parsed.push((f.strip_prefix(src).unwrap().to_string_lossy().to_string(), text, ast)),
            Err(e) => {
                eprintln!("TRANSLATE-ERROR cannot parse {}: {}", f.display(), e);
                std::process::exit(1);
            }
        }
    }
    let mut manifest = serde_json::Map::new();
    let mut errors: Vec<String> = vec![];
    let mut failed: Vec<&str> = vec![];
    match cbor::generate(&parsed) {
        Ok((lean, info)) => {
            std::fs::write(out.join("CborSchema.lean"), lean).expect("write");
            manifest.insert("cbor".into(), info);
        }
        Err(e) => { failed.push("cbor"); errors.push(e) }
    }
    match jsontags::generate(&parsed) {
        Ok((lean, info)) => {
            std::fs::write(out.join("JsonTags.lean"), lean).expect("write");
            manifest.insert("jsontags".into(), info);
        }
        Err(e) => { failed.push("jsontags"); errors.push(e) }
    }
    match kernels::generate(&parsed) {
        Ok((lean, lean_cursor, info)) => {
            std::fs::write(out.join("Kernels.lean"), lean).expect("write");
            std::fs::write(out.join("CursorKernels.lean"), lean_cursor).expect("write");
            manifest.insert("kernels".into(), info);
        }
        Err(e) => { failed.push("kernels"); errors.push(e) }
    }
    match dvtest::generate(&parsed) {
        Ok((lean, info)) => {
            std::fs::write(out.join("DvTest.lean"), lean).expect("write");
            manifest.insert("dvtest".into(), info);
        }
        Err(e) => { failed.push("dvtest"); errors.push(e) }
    }
    match modeplan::generate(&parsed) {
        Ok((lean, info)) => {
            std::fs::write(out.join("ModePlan.lean"), lean).expect("write");
            manifest.insert("modeplan".into(), info);
        }
        Err(e) => { failed.push("modeplan"); errors.push(e) }
    }
    manifest.insert("failed".into(), serde_json::json!(failed));
    std::fs::write(out.join("gen_manifest.json"), serde_json::to_string_pretty(&serde_json::Value::Object(manifest)).unwrap()).expect("write manifest");
    if !errors.is_empty() {
        for e in errors {
            eprintln!("TRANSLATE-ERROR {}", e);
        }
        std::process::exit(1);
    }
}
