//! Pure kernels: the arms of `impl TestTextSelection for TextSelection :: test` (src/textselection.rs) are translated
//! to a Lean definition over the mirror types of `StamModel/Rel.lean` (`Op`, `TSel`, `Res`).
//!
//! Supported subset (anything else is an error naming the construct):
//!   patterns   `TextSelectionOperator::V { negate: false, all: true, limit: Some(x), allow_whitespace, .. }`, `|`
//!   expressions comparisons, `&&`, `||`, `!`, `-`, parentheses, `self.begin/end`, `reftextsel.begin/end`, `*x`, locals,
//!              integer and boolean literals, `if / else if / else`, a block `{ let x = e; e }`,
//!              `self == reftextsel` (rendered as equality of the (begin, end) pair: the mirror type has no handle),
//!              the intrinsic `if let Ok(gap) = resource.text_by_offset(&Offset::simple(a, b)) { gap.chars().all(|c| c.is_whitespace()) } else { false }`
//!              (rendered as `r.gapWs a b`).
//! Arms that recurse (`self.test(&operator.toggle_negate(), ..)`) or are `unreachable!` are not translated: the
//! generated function answers `none` for them and lists the operators the recursive arm names.
//!
//! For every subtraction `x - y` the path condition under which it is evaluated (left operands of `&&`, enclosing
//! `if` conditions, negated for `else`) is emitted as a theorem `… → y ≤ x` proved by `omega`: a dropped guard breaks
//! a generated obligation.
use quote::ToTokens;
use syn::{BinOp, Expr, Pat, Stmt, UnOp};

const VARIANTS: [(&str, &str, usize); 12] = [
    ("Equals", "equals", 2), ("Overlaps", "overlaps", 2), ("Embeds", "embeds", 2), ("Embedded", "embedded", 3),
    ("Before", "before", 3), ("After", "after", 3), ("Precedes", "precedes", 3), ("Succeeds", "succeeds", 3),
    ("SameBegin", "samebegin", 2), ("SameEnd", "sameend", 2), ("InSet", "inset", 2), ("SameRange", "samerange", 2),
];

fn field_pos(name: &str) -> Option<usize> {
    match name { "all" => Some(0), "negate" => Some(1), "limit" | "allow_whitespace" => Some(2), _ => None }
}

struct Ctx { obligations: Vec<(String, String, String)>, binders: Vec<String> }

fn pat_to_lean(p: &Pat, binders: &mut Vec<String>) -> Result<Vec<String>, String> {
    match p {
        Pat::Or(o) => { let mut v = vec![]; for c in &o.cases { v.extend(pat_to_lean(c, binders)?); } Ok(v) }
        Pat::Struct(s) => {
            let vname = s.path.segments.last().map(|x| x.ident.to_string()).unwrap_or_default();
            let (_, lname, arity) = VARIANTS.iter().find(|(r, _, _)| *r == vname).ok_or(format!("unknown operator variant {}", vname))?;
            let mut slots: Vec<String> = vec!["_".to_string(); *arity];
            for f in &s.fields {
                let fname = match &f.member { syn::Member::Named(i) => i.to_string(), _ => return Err("tuple field in operator pattern".into()) };
                let pos = field_pos(&fname).ok_or(format!("unknown operator field {}", fname))?;
                if pos >= *arity { return Err(format!("field {} not in variant {}", fname, vname)); }
                slots[pos] = match &*f.pat {
                    Pat::Lit(l) => match &l.lit { syn::Lit::Bool(b) => b.value.to_string(), other => return Err(format!("literal {} in pattern", other.to_token_stream())) },
                    Pat::Ident(i) => { let n = i.ident.to_string(); if !binders.contains(&n) { binders.push(n.clone()); } n }
                    Pat::TupleStruct(ts) if ts.path.is_ident("Some") && ts.elems.len() == 1 => match &ts.elems[0] {
                        Pat::Ident(i) => { let n = i.ident.to_string(); if !binders.contains(&n) { binders.push(n.clone()); } format!("(some {})", n) }
                        other => return Err(format!("pattern inside Some: {}", other.to_token_stream())),
                    },
                    Pat::Wild(_) => "_".to_string(),
                    other => return Err(format!("unsupported field pattern {}", other.to_token_stream())),
                };
            }
            Ok(vec![format!(".{} {}", lname, slots.join(" "))])
        }
        other => Err(format!("unsupported arm pattern {}", other.to_token_stream())),
    }
}

/// numeric / boolean term
fn term(e: &Expr, path: &Vec<String>, cx: &mut Ctx) -> Result<String, String> {
    match e {
        Expr::Paren(p) => Ok(format!("({})", term(&p.expr, path, cx)?)),
        Expr::Field(f) => {
            let base = f.base.to_token_stream().to_string();
            let member = match &f.member { syn::Member::Named(i) => i.to_string(), _ => return Err("tuple field".into()) };
            let b = match base.as_str() { "self" => "a", "reftextsel" => "c", other => return Err(format!("field access on {}", other)) };
            match member.as_str() { "begin" => Ok(format!("{}.b", b)), "end" => Ok(format!("{}.e", b)), m => Err(format!("field {}", m)) }
        }
        Expr::Unary(u) => match u.op {
            UnOp::Deref(_) => term(&u.expr, path, cx),
            UnOp::Not(_) => Ok(format!("(!{})", term(&u.expr, path, cx)?)),
            _ => Err("unary minus".into()),
        },
        Expr::Path(p) => Ok(p.path.segments.last().map(|s| s.ident.to_string()).unwrap_or_default()),
        Expr::Lit(l) => match &l.lit { syn::Lit::Int(i) => Ok(i.base10_digits().to_string()), syn::Lit::Bool(b) => Ok(b.value.to_string()), o => Err(format!("literal {}", o.to_token_stream())) },
        Expr::Binary(b) => {
            let l = term(&b.left, path, cx)?;
            match b.op {
                BinOp::And(_) => { let mut p2 = path.clone(); p2.push(prop(&b.left)?); let r = term(&b.right, &p2, cx)?; Ok(format!("({} && {})", l, r)) }
                BinOp::Or(_) => { let mut p2 = path.clone(); p2.push(format!("¬ ({})", prop(&b.left)?)); let r = term(&b.right, &p2, cx)?; Ok(format!("({} || {})", l, r)) }
                BinOp::Sub(_) => {
                    let r = term(&b.right, path, cx)?;
                    cx.obligations.push((path.join(" → "), r.clone(), l.clone()));
                    Ok(format!("({} - {})", l, r))
                }
                BinOp::Eq(_) => {
                    let r = term(&b.right, path, cx)?;
                    if l == "self" && r == "reftextsel" { Ok("decide (a = c)".to_string()) } else { Ok(format!("decide ({} = {})", l, r)) }
                }
                BinOp::Ge(_) => Ok(format!("decide ({} ≥ {})", l, term(&b.right, path, cx)?)),
                BinOp::Gt(_) => Ok(format!("decide ({} > {})", l, term(&b.right, path, cx)?)),
                BinOp::Le(_) => Ok(format!("decide ({} ≤ {})", l, term(&b.right, path, cx)?)),
                BinOp::Lt(_) => Ok(format!("decide ({} < {})", l, term(&b.right, path, cx)?)),
                _ => Err(format!("operator {}", b.op.to_token_stream())),
            }
        }
        Expr::If(i) => {
            // the whitespace intrinsic
            if let Expr::Let(l) = &*i.cond {
                let src = l.expr.to_token_stream().to_string().replace(' ', "");
                let pre = "resource.text_by_offset(&Offset::simple(";
                if l.pat.to_token_stream().to_string().replace(' ', "") == "Ok(gap)" && src.starts_with(pre) && src.ends_with("))") {
                    let then = i.then_branch.to_token_stream().to_string().replace(' ', "");
                    let els = i.else_branch.as_ref().map(|e| e.1.to_token_stream().to_string().replace(' ', "")).unwrap_or_default();
                    if then == "{gap.chars().all(|c|c.is_whitespace())}" && els == "{false}" {
                        // arguments of Offset::simple
                        if let Expr::MethodCall(mc) = &*l.expr { if let Some(Expr::Reference(r)) = mc.args.first() { if let Expr::Call(c) = &*r.expr { if c.args.len() == 2 {
                            let x = term(&c.args[0], path, cx)?; let y = term(&c.args[1], path, cx)?;
                            return Ok(format!("r.gapWs {} {}", atom(&x), atom(&y)));
                        } } } }
                    }
                }
                return Err(format!("unsupported `if let`: {}", i.cond.to_token_stream()));
            }
            let c = term(&i.cond, path, cx)?;
            let mut pt = path.clone(); pt.push(prop(&i.cond)?);
            let t = block(&i.then_branch, &pt, cx)?;
            let mut pe = path.clone(); pe.push(format!("¬ ({})", prop(&i.cond)?));
            let e = match &i.else_branch { Some((_, e)) => match &**e { Expr::Block(b) => block(&b.block, &pe, cx)?, other => term(other, &pe, cx)? }, None => return Err("if without else".into()) };
            Ok(format!("(if {} then {} else {})", c, t, e))
        }
        Expr::Block(b) => block(&b.block, path, cx),
        Expr::MethodCall(mc) if mc.args.is_empty() => {
            let recv = mc.receiver.to_token_stream().to_string();
            match (recv.as_str(), mc.method.to_string().as_str()) {
                ("self", "begin") => Ok("b".into()),
                ("self", "end") => Ok("e".into()),
                ("self", "textlen") => Ok("len".into()),
                (v, "unsigned_abs") if !v.contains(' ') => Ok(format!("{}.natAbs", v)),
                _ => Err(format!("unsupported method call `{}`", mc.to_token_stream())),
            }
        }
        Expr::Call(c) => {
            let f = c.func.to_token_stream().to_string();
            if f == "Ok" && c.args.len() == 1 { return Ok(format!("Out.ok {}", atom(&term(&c.args[0], path, cx)?))); }
            if f == "Err" && c.args.len() == 1 {
                if let Expr::Call(inner) = &c.args[0] {
                    let name = inner.func.to_token_stream().to_string().replace(' ', "");
                    if let Some(v) = name.strip_prefix("StamError::") { return Ok(format!("Out.err \"{}\"", v)); }
                }
            }
            Err(format!("unsupported call `{}`", c.to_token_stream()))
        }
        other => Err(format!("unsupported expression `{}`", other.to_token_stream())),
    }
}

fn atom(s: &str) -> String { if s.contains(' ') && !s.starts_with('(') { format!("({})", s) } else { s.to_string() } }

fn block(b: &syn::Block, path: &Vec<String>, cx: &mut Ctx) -> Result<String, String> {
    let mut lets: Vec<(String, String)> = vec![];
    let mut path = path.clone();
    for (k, st) in b.stmts.iter().enumerate() {
        match st {
            Stmt::Local(l) => {
                let name = match &l.pat { Pat::Ident(i) => i.ident.to_string(), o => return Err(format!("let pattern {}", o.to_token_stream())) };
                let init = l.init.as_ref().ok_or("let without initialiser")?;
                let v = term(&init.expr, &path, cx)?;
                path.push(format!("{} = {}", name, strip_decide(&v)));
                cx.binders.push(format!("let:{}", name));
                lets.push((name, v));
            }
            Stmt::Expr(e, None) if k == b.stmts.len() - 1 => {
                let body = term(e, &path, cx)?;
                let mut out = body;
                for (n, v) in lets.iter().rev() { out = format!("(let {} := {}; {})", n, v, out); }
                return Ok(out);
            }
            other => return Err(format!("unsupported statement `{}`", other.to_token_stream())),
        }
    }
    Err("empty block".into())
}

fn strip_decide(s: &str) -> String { s.to_string() }

/// the same expression as a proposition (for path conditions)
fn prop(e: &Expr) -> Result<String, String> {
    let mut cx = Ctx { obligations: vec![], binders: vec![] };
    match e {
        Expr::Paren(p) => Ok(format!("({})", prop(&p.expr)?)),
        Expr::Unary(u) if matches!(u.op, UnOp::Not(_)) => Ok(format!("¬ ({})", prop(&u.expr)?)),
        Expr::Binary(b) => {
            match b.op {
                BinOp::And(_) => Ok(format!("({} ∧ {})", prop(&b.left)?, prop(&b.right)?)),
                BinOp::Or(_) => Ok(format!("({} ∨ {})", prop(&b.left)?, prop(&b.right)?)),
                BinOp::Eq(_) => Ok(format!("{} = {}", term(&b.left, &vec![], &mut cx)?, term(&b.right, &vec![], &mut cx)?)),
                BinOp::Ge(_) => Ok(format!("{} ≥ {}", term(&b.left, &vec![], &mut cx)?, term(&b.right, &vec![], &mut cx)?)),
                BinOp::Gt(_) => Ok(format!("{} > {}", term(&b.left, &vec![], &mut cx)?, term(&b.right, &vec![], &mut cx)?)),
                BinOp::Le(_) => Ok(format!("{} ≤ {}", term(&b.left, &vec![], &mut cx)?, term(&b.right, &vec![], &mut cx)?)),
                BinOp::Lt(_) => Ok(format!("{} < {}", term(&b.left, &vec![], &mut cx)?, term(&b.right, &vec![], &mut cx)?)),
                _ => Err(format!("operator {} in a condition", b.op.to_token_stream())),
            }
        }
        Expr::Path(p) => Ok(format!("{} = true", p.path.segments.last().map(|s| s.ident.to_string()).unwrap_or_default())),
        other => Err(format!("unsupported condition `{}`", other.to_token_stream())),
    }
}

pub fn generate(parsed: &[(String, String, syn::File)]) -> Result<(String, String, serde_json::Value), String> {
    // locate impl TestTextSelection for TextSelection :: test
    let mut found: Option<(&str, &syn::ImplItemFn)> = None;
    for (file, _, ast) in parsed {
        for item in &ast.items {
            if let syn::Item::Impl(im) = item {
                let tr = im.trait_.as_ref().and_then(|t| t.1.segments.last()).map(|s| s.ident.to_string());
                let ty = im.self_ty.to_token_stream().to_string();
                if tr.as_deref() == Some("TestTextSelection") && ty == "TextSelection" {
                    for ii in &im.items { if let syn::ImplItem::Fn(f) = ii { if f.sig.ident == "test" { found = Some((file.as_str(), f)); } } }
                }
            }
        }
    }
    let (file, f) = found.ok_or("kernels: `impl TestTextSelection for TextSelection :: test` not found")?;
    let m = f.block.stmts.iter().rev().find_map(|s| match s { Stmt::Expr(Expr::Match(m), _) => Some(m), _ => None }).ok_or("kernels: test() does not end in a match")?;
    if m.expr.to_token_stream().to_string() != "operator" { return Err("kernels: test() does not match on `operator`".into()); }
    let mut arms_out: Vec<String> = vec![];
    let mut obligations: Vec<String> = vec![];
    let mut recursive_ops: Vec<String> = vec![];
    let mut n_translated = 0;
    let mut n_obl = 0;
    for arm in &m.arms {
        if arm.guard.is_some() { return Err("kernels: match guard in test()".into()); }
        let body_src = arm.body.to_token_stream().to_string();
        if matches!(arm.pat, Pat::Wild(_)) {
            if !body_src.starts_with("unreachable !") { return Err(format!("kernels: catch-all arm of test() is `{}`", body_src)); }
            continue;
        }
        let mut binders = vec![];
        let pats = pat_to_lean(&arm.pat, &mut binders).map_err(|e| format!("kernels: test(): {}", e))?;
        if body_src.replace(' ', "").contains("self.test(&operator.toggle_negate(),reftextsel,resource)") {
            if body_src.replace(' ', "") != "{!self.test(&operator.toggle_negate(),reftextsel,resource)}" { return Err(format!("kernels: unexpected recursive arm `{}`", body_src)); }
            for p in &pats { if !p.contains(" true") { return Err(format!("kernels: the recursive arm names a non-negated operator: {}", p)); } recursive_ops.push(p.split_whitespace().next().unwrap_or("").trim_start_matches('.').to_string()); }
            continue;
        }
        let mut cx = Ctx { obligations: vec![], binders: binders.clone() };
        let body = match &*arm.body { Expr::Block(b) => block(&b.block, &vec![], &mut cx), other => term(other, &vec![], &mut cx) }.map_err(|e| format!("kernels: test(), arm {}: {}", pats.join(" | "), e))?;
        arms_out.push(format!("  | {} => some ({})", pats.join(" | "), body));
        n_translated += 1;
        for (cond, small, big) in cx.obligations {
            n_obl += 1;
            let lets: Vec<String> = cx.binders.iter().filter_map(|b| b.strip_prefix("let:").map(|s| s.to_string())).collect();
            let mut vars: Vec<String> = binders.iter().filter(|b| *b != "allow_whitespace").cloned().collect();
            vars.extend(lets);
            let bind = if vars.is_empty() { String::new() } else { format!(" ({} : Nat)", vars.join(" ")) };
            let wsbind = if binders.iter().any(|b| b == "allow_whitespace") { " (allow_whitespace : Bool)" } else { "" };
            let hyp = if cond.is_empty() { String::new() } else { format!("{} → ", cond) };
            obligations.push(format!("theorem relPos_sub_safe_{} (a c : TSel){}{} : {}{} ≤ {} := by\n  intros; omega", n_obl, bind, wsbind, hyp, small, big));
        }
    }
    // ---- Cursor resolution: TextSelection::beginaligned_cursor and Text::beginaligned_cursor (default method)
    let mut cursor_defs: Vec<String> = vec![];
    let mut cursor_obl: Vec<String> = vec![];
    let mut cursor_info = vec![];
    for (what, lean_name, params, wf) in [("TextSelection", "beginAlignedSel", "(b e : Nat)", "(hwf : b ≤ e)"), ("Text", "beginAlignedText", "(len : Nat)", "")] {
        let mut f: Option<(&str, syn::Block)> = None;
        for (file, _, ast) in parsed {
            for item in &ast.items {
                match item {
                    syn::Item::Impl(im) if what == "TextSelection" && im.trait_.is_none() && im.self_ty.to_token_stream().to_string() == "TextSelection" => {
                        for ii in &im.items { if let syn::ImplItem::Fn(g) = ii { if g.sig.ident == "beginaligned_cursor" { f = Some((file.as_str(), g.block.clone())); } } }
                    }
                    syn::Item::Trait(tr) if what == "Text" && tr.ident == "Text" => {
                        for ti in &tr.items { if let syn::TraitItem::Fn(g) = ti { if g.sig.ident == "beginaligned_cursor" { if let Some(b) = &g.default { f = Some((file.as_str(), b.clone())); } } } }
                    }
                    _ => {}
                }
            }
        }
        let (file2, body) = f.ok_or(format!("kernels: {}::beginaligned_cursor not found", what))?;
        let mut cx = Ctx { obligations: vec![], binders: vec![] };
        let mut lets: Vec<(String, String)> = vec![];
        let mut path: Vec<String> = vec![];
        let mut arms2: Vec<String> = vec![];
        for st in &body.stmts {
            match st {
                Stmt::Local(l) => {
                    let name = match &l.pat { Pat::Ident(i) => i.ident.to_string(), o => return Err(format!("kernels: {}::beginaligned_cursor: let pattern {}", what, o.to_token_stream())) };
                    let v = term(&l.init.as_ref().ok_or("let without initialiser")?.expr, &path, &mut cx).map_err(|e| format!("kernels: {}::beginaligned_cursor: {}", what, e))?;
                    path.push(format!("{} = {}", name, v));
                    lets.push((name, v));
                }
                Stmt::Expr(Expr::Match(m2), _) => {
                    if m2.expr.to_token_stream().to_string().replace(' ', "") != "*cursor" { return Err(format!("kernels: {}::beginaligned_cursor does not match on *cursor", what)); }
                    for arm in &m2.arms {
                        let (ctor, var) = match &arm.pat {
                            Pat::TupleStruct(ts) if ts.elems.len() == 1 => {
                                let v = match &ts.elems[0] { Pat::Ident(i) => i.ident.to_string(), o => return Err(format!("kernels: cursor pattern {}", o.to_token_stream())) };
                                match ts.path.segments.last().map(|x| x.ident.to_string()).as_deref() { Some("BeginAligned") => (".b", v), Some("EndAligned") => (".e", v), o => return Err(format!("kernels: cursor variant {:?}", o)) }
                            }
                            o => return Err(format!("kernels: cursor arm pattern {}", o.to_token_stream())),
                        };
                        let before = cx.obligations.len();
                        let bodyl = match &*arm.body { Expr::Block(bk) => block(&bk.block, &path, &mut cx), other => term(other, &path, &mut cx) }.map_err(|e| format!("kernels: {}::beginaligned_cursor: {}", what, e))?;
                        let mut out = bodyl;
                        for (n, v) in lets.iter().rev() { out = format!("(let {} := {}; {})", n, v, out); }
                        arms2.push(format!("  | {} {} => {}", ctor, var, out));
                        let ty = if ctor == ".b" { "Nat" } else { "Int" };
                        for k in before..cx.obligations.len() {
                            let (cond, small, big) = cx.obligations[k].clone();
                            n_obl += 1;
                            let letb: String = lets.iter().map(|(n, _)| format!(" ({} : Nat)", n)).collect();
                            let hyp = if cond.is_empty() { String::new() } else { format!("{} → ", cond) };
                            cursor_obl.push(format!("theorem {}_sub_safe_{} {} {} ({} : {}){} : {}{} ≤ {} := by\n  intros; omega", lean_name, n_obl, params, wf, var, ty, letb, hyp, small, big));
                        }
                    }
                }
                other => return Err(format!("kernels: {}::beginaligned_cursor: unsupported statement `{}`", what, other.to_token_stream())),
            }
        }
        // the subtraction in the `let` (evaluated before the match)
        for (cond, small, big) in cx.obligations.iter().filter(|(c, _, _)| c.is_empty()) {
            let _ = cond;
            n_obl += 1;
            cursor_obl.push(format!("theorem {}_sub_safe_{} {} {} : {} ≤ {} := by\n  omega", lean_name, n_obl, params, wf, small, big));
        }
        cursor_defs.push(format!("/-- `{}::beginaligned_cursor` ({}) -/\ndef {} {} : Cursor → Out Nat\n{}", what, file2, lean_name, params, arms2.join("\n")));
        cursor_info.push(serde_json::json!({"item": format!("{}::beginaligned_cursor", what), "source": file2}));
    }
    let mut rec_sorted = recursive_ops.clone(); rec_sorted.sort(); rec_sorted.dedup();
    let lean = format!(
"import StamModel.Rel
/- GENERATED by /verif/translate from {file} (`impl TestTextSelection for TextSelection :: test`). Do not edit. -/
namespace Stam.Gen

/-- the non-recursive arms of `TextSelection::test`, in source order; `none` where the source recurses through
`toggle_negate` or is `unreachable!` -/
def relPos (op : Op) (a c : TSel) (r : Res) : Option Bool :=
  match op with
{arms}
  | _ => none

/-- the operators the recursive arm (`!self.test(&operator.toggle_negate(), …)`) names, all with `negate: true` -/
def negatedArm : List String := [{rec}]

/-! every subtraction is evaluated only where it cannot underflow -/
{obl}

end Stam.Gen
", file = file, arms = arms_out.join("\n"), rec = rec_sorted.iter().map(|s| format!("\"{}\"", s)).collect::<Vec<_>>().join(", "), obl = obligations.join("\n\n"));
    let lean_cursor = format!(
"import StamModel.Offset
/- GENERATED by /verif/translate from `TextSelection::beginaligned_cursor` (textselection.rs) and `Text::beginaligned_cursor` (text.rs). Do not edit. -/
namespace Stam.Gen

{cursors}

/-! every subtraction is evaluated only where it cannot underflow (`hwf`: a text selection's begin is not past its end) -/
{obl}

end Stam.Gen
", cursors = cursor_defs.join("\n\n"), obl = cursor_obl.join("\n\n"));
    Ok((lean, lean_cursor, serde_json::json!({"source": file, "item": "impl TestTextSelection for TextSelection :: test", "arms_translated": n_translated, "subtraction_obligations": n_obl, "negated_operators": rec_sorted, "cursor_kernels": cursor_info})))
}
