//! Pure kernels (placeholder: filled in below)
pub fn generate(_parsed: &[(String, String, syn::File)]) -> Result<(String, serde_json::Value), String> {
    Ok(("/- GENERATED: no kernels yet -/\n".to_string(), serde_json::json!({})))
}
