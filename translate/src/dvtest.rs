//! `DataValue::test` (src/datavalue.rs): every arm of its `match (self, operator)` is translated to an arm of a Lean
//! function over the mirror types of `StamModel/DataValue.lean` (`DV`, `DOp`).
//!
//! Supported subset (anything else is an error naming the construct):
//!   patterns    `_`, a binding, `Self::Null`, `Self::Bool(true|false)`, `Self::V(x)`, `DataOperator::V`, `DataOperator::V(x)`
//!   bodies      `true`/`false`; comparisons `==`, `>`, `>=`, `<`, `<=` between bindings (derefs, `&x.as_str()` dropped);
//!               `match s.to_lowercase().as_str() { "w1" | "w2" … => B, _ => B }` (the word list is taken from the source);
//!               `if let Ok(x) = s.parse::<isize>() { e } else { e }` (`parseIsize`), `parse::<f64>` (`parseQuarter`),
//!               `DateTime::parse_from_rfc3339(s)` (the parameter `pd`);
//!               `cmp_float_int(f, n).is_some_and(Ordering::is_gt|is_ge|is_lt|is_le)` (float against integer: `f ⋈ 4 * n` on quarters);
//!               `v.iter().any(|e| e.test(&DataOperator::V(arg)))` (`dvAnyElem`), `!value.test(operator)`,
//!               `operators.iter().all(|o| value.test(o))` / `.any(…)` (`dvAll` / `dvAny`).
use quote::ToTokens;
use syn::{BinOp, Expr, Pat, UnOp};

const VALUES: [(&str, &str); 7] = [("Null", "null"), ("String", "str"), ("Bool", "bool"), ("Int", "int"), ("Float", "flt"), ("Datetime", "dt"), ("List", "list")];
const OPS: [(&str, &str); 27] = [
    ("Any", "any"), ("Null", "null"), ("True", "tru"), ("False", "fls"), ("Equals", "eq"),
    ("EqualsInt", "eqi"), ("GreaterThan", "gt"), ("GreaterThanOrEqual", "ge"), ("LessThan", "lt"), ("LessThanOrEqual", "le"),
    ("EqualsFloat", "eqf"), ("GreaterThanFloat", "gtf"), ("GreaterThanOrEqualFloat", "gef"), ("LessThanFloat", "ltf"), ("LessThanOrEqualFloat", "lef"),
    ("HasElement", "has"), ("HasElementInt", "hasi"), ("HasElementFloat", "hasf"),
    ("ExactDatetime", "dte"), ("AfterDatetime", "dta"), ("BeforeDatetime", "dtb"), ("AtOrAfterDatetime", "dtae"), ("AtOrBeforeDatetime", "dtbe"),
    ("Not", "not"), ("And", "and"), ("Or", "or"), ("Unused", "unused"),
];

fn last_seg(p: &syn::Path) -> String { p.segments.last().map(|s| s.ident.to_string()).unwrap_or_default() }
fn first_seg(p: &syn::Path) -> String { p.segments.first().map(|s| s.ident.to_string()).unwrap_or_default() }

fn pat(p: &Pat, value_side: bool) -> Result<String, String> {
    let table: &[(&str, &str)] = if value_side { &VALUES } else { &OPS };
    let ctor = |path: &syn::Path| -> Result<String, String> {
        let head = first_seg(path);
        if value_side && head != "Self" && head != "DataValue" { return Err(format!("value pattern `{}`", path.to_token_stream())); }
        if !value_side && head != "DataOperator" { return Err(format!("operator pattern `{}`", path.to_token_stream())); }
        let v = last_seg(path);
        table.iter().find(|(r, _)| *r == v).map(|(_, l)| format!(".{}", l)).ok_or(format!("unknown variant {}", v))
    };
    match p {
        Pat::Wild(_) => Ok("_".into()),
        Pat::Ident(i) => Ok(i.ident.to_string()),
        Pat::Path(pp) => ctor(&pp.path),
        Pat::TupleStruct(ts) if ts.elems.len() == 1 => {
            let arg = match &ts.elems[0] {
                Pat::Ident(i) => i.ident.to_string(),
                Pat::Lit(l) => match &l.lit { syn::Lit::Bool(b) => b.value.to_string(), o => return Err(format!("literal {} in a pattern", o.to_token_stream())) },
                Pat::Wild(_) => "_".into(),
                o => return Err(format!("pattern argument `{}`", o.to_token_stream())),
            };
            Ok(format!("{} {}", ctor(&ts.path)?, arg))
        }
        o => Err(format!("unsupported pattern `{}`", o.to_token_stream())),
    }
}

/// a binding, with `*x`, `&x`, `x.as_str()`, `x.clone()` dropped
fn name(e: &Expr) -> Result<String, String> {
    match e {
        Expr::Path(p) if p.path.segments.len() == 1 => Ok(last_seg(&p.path)),
        Expr::Unary(u) if matches!(u.op, UnOp::Deref(_)) => name(&u.expr),
        Expr::Reference(r) => name(&r.expr),
        Expr::Paren(p) => name(&p.expr),
        Expr::MethodCall(mc) if mc.args.is_empty() && matches!(mc.method.to_string().as_str(), "as_str" | "clone") => name(&mc.receiver),
        o => Err(format!("expected a binding, found `{}`", o.to_token_stream())),
    }
}

fn closure_body<'a>(e: &'a Expr) -> Result<(String, &'a Expr), String> {
    if let Expr::Closure(c) = e {
        if c.inputs.len() == 1 { if let Pat::Ident(i) = &c.inputs[0] { return Ok((i.ident.to_string(), &c.body)); } }
    }
    Err(format!("expected a one-argument closure, found `{}`", e.to_token_stream()))
}

/// `recv.test(arg)` -> (recv, arg)
fn test_call(e: &Expr) -> Result<(String, &Expr), String> {
    if let Expr::MethodCall(mc) = e { if mc.method == "test" && mc.args.len() == 1 { return Ok((name(&mc.receiver)?, &mc.args[0])); } }
    Err(format!("expected a call of test(), found `{}`", e.to_token_stream()))
}

fn block_expr(b: &syn::Block) -> Result<&Expr, String> {
    if b.stmts.len() == 1 { if let syn::Stmt::Expr(e, None) = &b.stmts[0] { return Ok(e); } }
    Err(format!("expected a block with one expression, found `{}`", b.to_token_stream()))
}

fn body(e: &Expr) -> Result<String, String> {
    match e {
        Expr::Lit(l) => match &l.lit { syn::Lit::Bool(b) => Ok(b.value.to_string()), o => Err(format!("literal {}", o.to_token_stream())) },
        Expr::Paren(p) => body(&p.expr),
        Expr::Block(b) => body(block_expr(&b.block)?),
        Expr::Binary(b) => {
            let (l, r) = (name(&b.left)?, name(&b.right)?);
            match b.op {
                BinOp::Eq(_) => Ok(format!("{} == {}", l, r)),
                BinOp::Gt(_) => Ok(format!("decide ({} > {})", l, r)),
                BinOp::Ge(_) => Ok(format!("decide ({} ≥ {})", l, r)),
                BinOp::Lt(_) => Ok(format!("decide ({} < {})", l, r)),
                BinOp::Le(_) => Ok(format!("decide ({} ≤ {})", l, r)),
                _ => Err(format!("operator {}", b.op.to_token_stream())),
            }
        }
        Expr::Unary(u) if matches!(u.op, UnOp::Not(_)) => {
            let (recv, arg) = test_call(&u.expr)?;
            Ok(format!("!dvTest pd {} {}", recv, name(arg)?))
        }
        // match s.to_lowercase().as_str() { "w" | … => B, _ => B }
        Expr::Match(m) => {
            let scrut = m.expr.to_token_stream().to_string().replace(' ', "");
            let s = scrut.strip_suffix(".to_lowercase().as_str()").ok_or(format!("unsupported match on `{}`", scrut))?;
            if m.arms.len() != 2 { return Err("word match with other than two arms".into()); }
            let mut words = vec![];
            let mut collect = |p: &Pat| -> Result<(), String> {
                match p { Pat::Lit(l) => match &l.lit { syn::Lit::Str(s) => { words.push(s.value()); Ok(()) } o => Err(format!("literal {}", o.to_token_stream())) }, o => Err(format!("word pattern `{}`", o.to_token_stream())) }
            };
            match &m.arms[0].pat { Pat::Or(o) => { for c in &o.cases { collect(c)?; } } p => collect(p)? }
            if !matches!(m.arms[1].pat, Pat::Wild(_)) { return Err("second arm of a word match must be `_`".into()); }
            Ok(format!("(if [{}].contains {}.toLower then {} else {})", words.iter().map(|w| format!("{:?}", w)).collect::<Vec<_>>().join(", "), s, body(&m.arms[0].body)?, body(&m.arms[1].body)?))
        }
        // if let Ok(x) = <parse>(s) { e } else { e }
        Expr::If(i) => {
            if let Expr::Let(l) = &*i.cond {
                let binder = match &*l.pat { Pat::TupleStruct(ts) if last_seg(&ts.path) == "Ok" && ts.elems.len() == 1 => match &ts.elems[0] { Pat::Ident(i) => i.ident.to_string(), o => return Err(format!("pattern `{}`", o.to_token_stream())) }, o => return Err(format!("`if let` pattern `{}`", o.to_token_stream())) };
                let src = l.expr.to_token_stream().to_string().replace(' ', "");
                let parser = if let Some(s) = src.strip_suffix(".parse::<isize>()") { format!("parseIsize {}", s) }
                    else if let Some(s) = src.strip_suffix(".parse::<f64>()") { format!("parseQuarter {}", s) }
                    else if let Some(s) = src.strip_prefix("DateTime::parse_from_rfc3339(").and_then(|x| x.strip_suffix(")")) { format!("pd {}", s) }
                    else { return Err(format!("unsupported parse `{}`", src)) };
                let then = body(block_expr(&i.then_branch)?)?;
                let els = match &i.else_branch { Some((_, e)) => body(e)?, None => return Err("if let without else".into()) };
                return Ok(format!("(match {} with | some {} => {} | none => {})", parser, binder, then, els));
            }
            Err(format!("unsupported `if`: {}", i.cond.to_token_stream()))
        }
        // cmp_float_int(f, n).is_some_and(Ordering::is_gt|is_ge|is_lt|is_le): the float `f` (the model's floats are
        // quarters, never NaN) against the integer `n`
        Expr::MethodCall(mc) if mc.method == "is_some_and" && mc.args.len() == 1 => {
            let (f, n) = match &*mc.receiver {
                Expr::Call(c) if c.func.to_token_stream().to_string() == "cmp_float_int" && c.args.len() == 2 => (name(&c.args[0])?, name(&c.args[1])?),
                o => return Err(format!("expected cmp_float_int(f, n), found `{}`", o.to_token_stream())),
            };
            let which = mc.args[0].to_token_stream().to_string().replace(' ', "");
            let rel = match which.as_str() { "Ordering::is_gt" => ">", "Ordering::is_ge" => "≥", "Ordering::is_lt" => "<", "Ordering::is_le" => "≤", o => return Err(format!("unsupported ordering test `{}`", o)) };
            Ok(format!("decide ({} {} 4 * {})", f, rel, n))
        }
        // v.iter().any(|e| e.test(&DataOperator::V(arg)))  /  operators.iter().all|any(|o| value.test(o))
        Expr::MethodCall(mc) if matches!(mc.method.to_string().as_str(), "any" | "all") && mc.args.len() == 1 => {
            let coll = match &*mc.receiver { Expr::MethodCall(it) if it.method == "iter" && it.args.is_empty() => name(&it.receiver)?, o => return Err(format!("expected `.iter()`, found `{}`", o.to_token_stream())) };
            let (cv, cb) = closure_body(&mc.args[0])?;
            let (recv, arg) = test_call(cb)?;
            if recv == cv {
                // the element is tested with a fixed operator
                if mc.method != "any" { return Err("`all` over the elements of a list".into()); }
                let arg = match arg { Expr::Reference(r) => &*r.expr, o => o };
                if let Expr::Call(c) = arg {
                    if let Expr::Path(p) = &*c.func {
                        if first_seg(&p.path) == "DataOperator" && c.args.len() == 1 {
                            let v = last_seg(&p.path);
                            let l = OPS.iter().find(|(r, _)| *r == v).map(|(_, l)| *l).ok_or(format!("unknown operator {}", v))?;
                            return Ok(format!("dvAnyElem pd {} (.{} {})", coll, l, name(&c.args[0])?));
                        }
                    }
                }
                Err(format!("unsupported element test `{}`", arg.to_token_stream()))
            } else {
                if name(arg)? != cv { return Err(format!("closure does not pass its argument to test(): `{}`", cb.to_token_stream())); }
                Ok(format!("{} pd {} {}", if mc.method == "all" { "dvAll" } else { "dvAny" }, recv, coll))
            }
        }
        o => Err(format!("unsupported body `{}`", o.to_token_stream())),
    }
}

pub fn generate(parsed: &[(String, String, syn::File)]) -> Result<(String, serde_json::Value), String> {
    let (_, _, ast) = parsed.iter().find(|(n, _, _)| n == "datavalue.rs").ok_or("datavalue.rs not found")?;
    let mut arms_out: Vec<String> = vec![];
    let mut found = false;
    for item in &ast.items {
        if let syn::Item::Impl(im) = item {
            if im.trait_.is_some() || im.self_ty.to_token_stream().to_string() != "DataValue" { continue; }
            for ii in &im.items {
                if let syn::ImplItem::Fn(f) = ii {
                    if f.sig.ident != "test" { continue; }
                    found = true;
                    let m = match block_expr(&f.block)? { Expr::Match(m) => m, o => return Err(format!("DataValue::test: expected a match, found `{}`", o.to_token_stream().to_string().chars().take(60).collect::<String>())) };
                    let scrut = m.expr.to_token_stream().to_string().replace(' ', "");
                    if scrut != "(self,operator)" { return Err(format!("DataValue::test matches on `{}`", scrut)); }
                    for arm in &m.arms {
                        if arm.guard.is_some() { return Err("DataValue::test: guarded arm".into()); }
                        let lhs = match &arm.pat {
                            Pat::Tuple(t) if t.elems.len() == 2 => format!("{}, {}", pat(&t.elems[0], true)?, pat(&t.elems[1], false)?),
                            Pat::Wild(_) => "_, _".to_string(),
                            o => return Err(format!("DataValue::test: arm pattern `{}`", o.to_token_stream())),
                        };
                        let rhs = body(&arm.body).map_err(|e| format!("DataValue::test, arm `{}`: {}", arm.pat.to_token_stream(), e))?;
                        arms_out.push(format!("  | {} => {}", lhs, rhs));
                    }
                }
            }
        }
    }
    if !found { return Err("DataValue::test not found".into()); }
    let n = arms_out.len();
    let lean = format!(
"import StamModel.DataValue
/-
  GENERATED by /verif/translate from /repo/src/datavalue.rs (`DataValue::test`) — do not edit.
  One arm per arm of the source's `match (self, operator)`, in source order. `pd` stands for
  `DateTime::parse_from_rfc3339` (strings are compared with datetimes through it).
-/
namespace Stam.Gen

mutual
def dvTest (pd : String → Option Int) : DV → DOp → Bool
{}
termination_by v o => sizeOf v + sizeOf o
def dvAll (pd : String → Option Int) : DV → List DOp → Bool
  | _, [] => true
  | v, o :: os => dvTest pd v o && dvAll pd v os
termination_by v os => sizeOf v + sizeOf os
def dvAny (pd : String → Option Int) : DV → List DOp → Bool
  | _, [] => false
  | v, o :: os => dvTest pd v o || dvAny pd v os
termination_by v os => sizeOf v + sizeOf os
def dvAnyElem (pd : String → Option Int) : List DV → DOp → Bool
  | [], _ => false
  | e :: es, o => dvTest pd e o || dvAnyElem pd es o
termination_by es o => sizeOf es + sizeOf o
end

def dvTestArms : Nat := {}

end Stam.Gen
", arms_out.join("\n"), n);
    Ok((lean, serde_json::json!({ "datavalue_test_arms": n })))
}
