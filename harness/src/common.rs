//! Shared infrastructure: PRNG, model driver pipe, report.
use serde_json::{json, Value};
use std::collections::{BTreeMap, BTreeSet};
use std::io::Write;
use std::process::{Command, Stdio};

/// SplitMix64: every random choice in the harness derives from one of these.
#[derive(Clone)]
pub struct Rng(pub u64);
impl Rng {
    pub fn new(seed: u64) -> Self {
        Rng(seed ^ 0x9E37_79B9_7F4A_7C15)
    }
    pub fn next(&mut self) -> u64 {
        self.0 = self.0.wrapping_add(0x9E37_79B9_7F4A_7C15);
        let mut z = self.0;
        z = (z ^ (z >> 30)).wrapping_mul(0xBF58_476D_1CE4_E5B9);
        z = (z ^ (z >> 27)).wrapping_mul(0x94D0_49BB_1331_11EB);
        z ^ (z >> 31)
    }
    pub fn below(&mut self, n: usize) -> usize {
        if n == 0 {
            0
        } else {
            (self.next() % n as u64) as usize
        }
    }
    pub fn range(&mut self, lo: i64, hi: i64) -> i64 {
        lo + (self.next() % ((hi - lo + 1) as u64)) as i64
    }
    pub fn chance(&mut self, pct: usize) -> bool {
        self.below(100) < pct
    }
    pub fn pick<'a, T>(&mut self, xs: &'a [T]) -> &'a T {
        &xs[self.below(xs.len())]
    }
}

/// store configuration variant used by every family when it builds a store (C12: tuning knobs)
#[derive(Clone, Copy, Debug)]
pub struct CfgVariant {
    pub milestone: usize,
    pub shrink: bool,
}
static CFG: std::sync::Mutex<Option<CfgVariant>> = std::sync::Mutex::new(None);
pub fn set_cfg(v: Option<CfgVariant>) {
    *CFG.lock().unwrap() = v;
}
pub fn cfg_variant() -> Option<CfgVariant> {
    *CFG.lock().unwrap()
}
/// a fresh store under the current configuration variant (library default when none is set)
pub fn new_store() -> stam::AnnotationStore {
    match cfg_variant() {
        None => stam::AnnotationStore::default(),
        Some(v) => stam::AnnotationStore::new(
            stam::Config::default().with_milestone_interval(v.milestone).with_shrink_to_fit(v.shrink),
        ),
    }
}

pub struct Opts {
    pub tier: String,
    pub seed: u64,
    pub driver: String,
    pub replay: Option<String>,
    pub property: Option<String>,
}
impl Opts {
    pub fn thorough(&self) -> bool {
        self.tier == "thorough"
    }
}

#[derive(Clone, Debug)]
pub struct Failure {
    /// "oracle" (implementation vs independent oracle), "model" (implementation vs Lean model), "panic"
    pub kind: String,
    /// short class of the failure, used to match known findings
    pub signature: String,
    /// the case: protocol lines / human-readable description sufficient to replay
    pub case: Vec<String>,
    pub expected: String,
    pub got: String,
}

/// One pending model comparison: protocol lines (the last line's answer is compared)
pub struct ModelCase {
    pub lines: Vec<String>,
    /// implementation's canonical answers, one per line
    pub impl_out: Vec<String>,
    pub sig_hint: String,
    /// lines that are not sent to the model but belong to the replay of a disagreement
    pub context: Vec<String>,
}

pub struct Report {
    pub family: String,
    pub evaluations: u64,
    pub distinct: BTreeSet<u64>,
    pub rule: String,
    pub hist: BTreeMap<String, u64>,
    pub samples: Vec<Value>,
    pub failures: Vec<Failure>,
    pub model_cases: Vec<ModelCase>,
    pub model_lines: u64,
    pub exhaustive: bool,
    pub extra: BTreeMap<String, Value>,
    /// hash over every implementation answer, in order (compared across configuration variants)
    pub digest: u64,
}

pub fn fnv(s: &str) -> u64 {
    let mut h: u64 = 0xcbf29ce484222325;
    for b in s.bytes() {
        h ^= b as u64;
        h = h.wrapping_mul(0x100000001b3);
    }
    h
}

impl Report {
    pub fn new(family: &str, rule: &str) -> Self {
        Report {
            family: family.into(),
            evaluations: 0,
            distinct: BTreeSet::new(),
            rule: rule.into(),
            hist: BTreeMap::new(),
            samples: vec![],
            failures: vec![],
            model_cases: vec![],
            model_lines: 0,
            exhaustive: false,
            extra: BTreeMap::new(),
            digest: 0xcbf29ce484222325,
        }
    }
    pub fn count(&mut self, key: &str) {
        *self.hist.entry(key.to_string()).or_insert(0) += 1;
    }
    /// record one evaluated case; `nontrivial_key` (if any) is hashed into the distinct set
    pub fn case(&mut self, nontrivial_key: Option<&str>) {
        self.evaluations += 1;
        if let Some(k) = nontrivial_key {
            self.distinct.insert(fnv(k));
        }
    }
    pub fn sample(&mut self, v: Value) {
        if self.samples.len() < 8 {
            self.samples.push(v);
        }
    }
    pub fn fail(&mut self, kind: &str, signature: &str, case: Vec<String>, expected: &str, got: &str) {
        // keep at most 3 examples per signature (the shortest ones)
        let same: Vec<usize> = self
            .failures
            .iter()
            .enumerate()
            .filter(|(_, f)| f.signature == signature && f.kind == kind)
            .map(|(i, _)| i)
            .collect();
        let size: usize = case.iter().map(|l| l.len()).sum();
        if same.len() >= 3 {
            // replace the largest if this one is smaller
            let (imax, smax) = same
                .iter()
                .map(|&i| (i, self.failures[i].case.iter().map(|l| l.len()).sum::<usize>()))
                .max_by_key(|x| x.1)
                .unwrap();
            if size < smax {
                self.failures[imax] = Failure {
                    kind: kind.into(),
                    signature: signature.into(),
                    case,
                    expected: expected.into(),
                    got: got.into(),
                };
            }
            *self.hist.entry(format!("fail:{}:{}", kind, signature)).or_insert(0) += 1;
            return;
        }
        *self.hist.entry(format!("fail:{}:{}", kind, signature)).or_insert(0) += 1;
        self.failures.push(Failure {
            kind: kind.into(),
            signature: signature.into(),
            case,
            expected: expected.into(),
            got: got.into(),
        });
    }
    pub fn model_case(&mut self, lines: Vec<String>, impl_out: Vec<String>, sig_hint: &str) {
        assert_eq!(lines.len(), impl_out.len());
        self.model_lines += lines.len() as u64;
        for o in &impl_out {
            self.digest = (self.digest ^ fnv(o)).wrapping_mul(0x100000001b3);
        }
        self.model_cases.push(ModelCase {
            lines,
            impl_out,
            sig_hint: sig_hint.into(),
            context: vec![],
        });
    }
    pub fn model_case_ctx(&mut self, context: Vec<String>, lines: Vec<String>, impl_out: Vec<String>, sig_hint: &str) {
        self.model_case(lines, impl_out, sig_hint);
        self.model_cases.last_mut().unwrap().context = context;
    }

    /// pipe every pending model case through the Lean driver and diff
    pub fn run_model(&mut self, driver: &str) {
        if self.model_cases.is_empty() {
            return;
        }
        let mut input = String::new();
        for mc in &self.model_cases {
            input.push_str("reset\n");
            for l in &mc.lines {
                input.push_str(l);
                input.push('\n');
            }
        }
        if let Ok(path) = std::env::var("VERIF_DUMP_MODEL_INPUT") {
            // debugging aid: the lines sent to the driver and what the implementation answered
            let _ = std::fs::write(&path, &input);
            let _ = std::fs::write(format!("{}.impl", path), self.model_cases.iter().flat_map(|mc| std::iter::once("ok".to_string()).chain(mc.impl_out.iter().cloned())).collect::<Vec<_>>().join("\n"));
        }
        let mut child = Command::new(driver)
            .stdin(Stdio::piped())
            .stdout(Stdio::piped())
            .spawn()
            .unwrap_or_else(|e| panic!("cannot start model driver {}: {}", driver, e));
        let mut stdin = child.stdin.take().unwrap();
        let writer = std::thread::spawn(move || {
            let _ = stdin.write_all(input.as_bytes());
        });
        let out = child.wait_with_output().expect("driver output");
        writer.join().ok();
        let text = String::from_utf8_lossy(&out.stdout).to_string();
        let mut it = text.lines();
        let cases = std::mem::take(&mut self.model_cases);
        let mut driver_short = false;
        for mc in &cases {
            let _ = it.next(); // answer to reset
            let mut model_out = vec![];
            for _ in &mc.lines {
                match it.next() {
                    Some(l) => model_out.push(l.to_string()),
                    None => {
                        driver_short = true;
                        model_out.push("<no-answer>".into())
                    }
                }
            }
            for (i, (m, im)) in model_out.iter().zip(mc.impl_out.iter()).enumerate() {
                // the model says (from the input alone) that it does not cover this line: nothing to compare
                if m == "skip-unmodelled" { self.count("model:input-not-covered"); continue; }
                if m != im {
                    let mut case: Vec<String> = mc.context.clone();
                    case.extend(mc.lines[..=i].iter().cloned());
                    self.fail("model", &mc.sig_hint, case, m, im);
                    break;
                }
            }
        }
        if driver_short {
            self.count("driver-short-output");
        }
    }

    pub fn to_json(&self) -> Value {
        json!({
            "family": self.family,
            "evaluations": self.evaluations,
            "distinct_nontrivial": self.distinct.len(),
            "rule": self.rule,
            "histogram": self.hist,
            "samples": self.samples,
            "model_lines_compared": self.model_lines,
            "exhaustive": self.exhaustive,
            "digest": format!("{:016x}", self.digest),
            "extra": self.extra,
            "failures": self.failures.iter().map(|f| json!({
                "kind": f.kind, "signature": f.signature, "case": f.case,
                "expected": f.expected, "got": f.got})).collect::<Vec<_>>(),
        })
    }
}

thread_local! { pub static IN_GUARD: std::cell::Cell<u32> = std::cell::Cell::new(0); }
thread_local! { pub static LAST_PANIC_LOC: std::cell::RefCell<String> = std::cell::RefCell::new(String::new()); }
/// source location (file:line, path shortened) of the last panic caught by `guarded`
pub fn last_panic_loc() -> String { LAST_PANIC_LOC.with(|l| l.borrow().clone()) }
/// panics of the library under test (inside `guarded`) are silent; the harness's own panics are printed
pub fn install_panic_hook() {
    std::panic::set_hook(Box::new(|info| {
        if IN_GUARD.with(|g| g.get()) == 0 {
            eprintln!("HARNESS PANIC: {}", info);
        } else if let Some(l) = info.location() {
            let f = l.file();
            let f = f.rsplit("/src/").next().unwrap_or(f);
            LAST_PANIC_LOC.with(|x| *x.borrow_mut() = format!("{}:{}", f, l.line()));
        }
    }));
}
/// run `f` catching panics; the panic message is returned as Err
pub fn guarded<T>(f: impl FnOnce() -> T + std::panic::UnwindSafe) -> Result<T, String> {
    IN_GUARD.with(|g| g.set(g.get() + 1));
    let r = std::panic::catch_unwind(f);
    IN_GUARD.with(|g| g.set(g.get() - 1));
    match r {
        Ok(v) => Ok(v),
        Err(e) => {
            let msg = if let Some(s) = e.downcast_ref::<&str>() {
                s.to_string()
            } else if let Some(s) = e.downcast_ref::<String>() {
                s.clone()
            } else {
                "panic".to_string()
            };
            Err(msg)
        }
    }
}

pub fn hex(s: &str) -> String {
    if s.is_empty() {
        return "-".into();
    }
    s.bytes().map(|b| format!("{:02x}", b)).collect()
}
