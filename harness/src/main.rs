//! stam-rust verification harness: drives the real library, independent oracles and the Lean
//! model driver on the same generated cases. One sub-command ("family") per model group.
mod common;
mod fam;
use common::*;

fn main() {
    let args: Vec<String> = std::env::args().collect();
    if args.len() < 2 {
        eprintln!("usage: stamharness <family> [--tier quick|thorough] [--seed N] [--driver PATH] [--out FILE] [--replay FILE]");
        std::process::exit(2);
    }
    let family = args[1].clone();
    if family == "untrusted-worker" { fam::untrusted::worker(&args[2], &args[3], args[4].parse().unwrap_or(0)); return; }
    if family == "csvsample" { fam::untrusted::csv_sample(&args[2]); return; }
    if family == "debugload" { fam::untrusted::debug_load(&args[2]); return; }
    if family == "qdebug" { install_panic_hook(); fam::query::debug(&args[2]); return; }
    if family == "qlrefusals" { install_panic_hook(); fam::stamql::refusal_histogram(1, 3000); return; }
    let mut opts = Opts {
        tier: std::env::var("VERIF_TIER").unwrap_or_else(|_| "quick".into()),
        seed: std::env::var("VERIF_SEED").ok().and_then(|s| s.parse().ok()).unwrap_or(1),
        driver: "/verif/lean/.lake/build/bin/stamdriver".into(),
        replay: None,
        property: None,
    };
    let mut out: Option<String> = None;
    let mut i = 2;
    while i < args.len() {
        match args[i].as_str() {
            "--tier" => { opts.tier = args[i + 1].clone(); i += 1; }
            "--seed" => { opts.seed = args[i + 1].parse().expect("seed"); i += 1; }
            "--driver" => { opts.driver = args[i + 1].clone(); i += 1; }
            "--out" => { out = Some(args[i + 1].clone()); i += 1; }
            "--replay" => { opts.replay = Some(args[i + 1].clone()); i += 1; }
            "--property" => { opts.property = Some(args[i + 1].clone()); i += 1; }
            other => { eprintln!("unknown argument {}", other); std::process::exit(2); }
        }
        i += 1;
    }
    if let Some(path) = &opts.replay {
        replay(path, &opts);
        return;
    }
    // panics of the library under test are caught per case; keep the default hook quiet
    install_panic_hook();
    let mut report = match fam::run(&family, &opts) {
        Some(r) => r,
        None => { eprintln!("unknown family {}", family); std::process::exit(2); }
    };
    report.run_model(&opts.driver);
    let js = serde_json::to_string_pretty(&report.to_json()).unwrap();
    match out {
        Some(p) => std::fs::write(p, js).expect("write report"),
        None => println!("{}", js),
    }
}

/// Re-run the `case` lines of a replay file on the implementation and on the model, print both.
fn replay(path: &str, opts: &Opts) {
    install_panic_hook();
    let v: serde_json::Value = serde_json::from_str(&std::fs::read_to_string(path).expect("replay file")).expect("json");
    let lines: Vec<String> = v["case"].as_array().map(|a| a.iter().filter_map(|x| x.as_str().map(|s| s.to_string())).collect()).unwrap_or_default();
    println!("replaying {} ({} lines): property={} signature={}", path, lines.len(), v["property"], v["signature"]);
    let mut rep = Report::new("replay", "");
    let mut proto = vec![];
    let mut outs = vec![];
    if lines.iter().any(|l| l.starts_with("ut format=")) {
        fam::untrusted::replay(&lines);
    } else if lines.iter().any(|l| l.starts_with("ccfg")) {
        fam::concurrent::replay(&lines);
    } else if lines.iter().any(|l| l.starts_with("wa seed=")) {
        fam::webanno::replay(&lines);
    } else if lines.iter().any(|l| l.starts_with("tpcfg")) {
        // C16: the scenario is rebuilt from its description
        if let Some((line, answer)) = fam::transpose::replay(&lines) {
            proto.push(line);
            outs.push(answer);
        }
    } else if lines.iter().any(|l| l.starts_with("tvcfg")) {
        // C18: the whole scenario (script, protection, save, edit, reload) is re-run
        if let Some((line, answer)) = fam::validation::replay(&lines) {
            proto.push(line);
            outs.push(answer);
        } else {
            println!("  the scenario did not reach the model comparison (see ORACLE lines above)");
        }
    } else if lines.iter().any(|l| l.starts_with("query: ") || l.starts_with("iterator: ")) {
        // C08: the script builds the store, then the queries (separated by "vs") are run on it
        let script: Vec<String> = lines.iter().filter(|l| l.starts_with("st ")).cloned().collect();
        let mut text = script.join("\n");
        text.push_str("\n--\n");
        for l in lines.iter().filter(|l| l.starts_with("query: ")) {
            for part in l["query: ".len()..].split("   vs   ") { let part = part.trim(); if part.starts_with("SELECT") || part.starts_with("ADD") || part.starts_with("DELETE") { text.push_str(part); text.push('\n'); } }
        }
        let tmp = std::env::temp_dir().join(format!("stam-verif-replay-{}.txt", std::process::id()));
        std::fs::write(&tmp, text).expect("write");
        fam::query::debug(tmp.to_str().unwrap());
        let _ = std::fs::remove_file(&tmp);
        for l in lines.iter().filter(|l| l.starts_with("iterator: ")) { println!("  {} (re-run the query family with the same seed to re-evaluate the filter)", l); }
        for l in lines.iter().filter(|l| l.starts_with("sq ")) { proto.push(l.clone()); outs.push(v["got"].as_str().unwrap_or("").to_string()); }
    } else if lines.iter().any(|l| l.starts_with("st ")) {
        // stateful family: the whole script runs on one store
        let script: Vec<String> = lines.iter().filter(|l| l.starts_with("st ")).cloned().collect();
        let outs2 = fam::store::exec_script(&script);
        proto = script;
        outs = outs2;
    } else {
    for l in &lines {
        match fam::exec_line(l) {
            Some(o) => { proto.push(l.clone()); outs.push(o); }
            None => println!("  context: {}", l),
        }
    }
    }
    rep.model_case(proto.clone(), outs.clone(), "replay");
    rep.run_model(&opts.driver);
    for (l, o) in proto.iter().zip(outs.iter()) {
        println!("  {}\n    implementation: {}", l, o);
    }
    if rep.failures.is_empty() {
        println!("model agrees with the implementation on every line");
    } else {
        for f in &rep.failures {
            println!("MODEL DISAGREES at {:?}: model={} implementation={}", f.case.last(), f.expected, f.got);
        }
    }
    println!("recorded expectation: {} ; recorded observation: {}", v["expected"], v["got"]);
}
