//! C08, second part: the clauses of the property that need structured queries.
//!
//!  * a query given as STAMQL text and the same query built programmatically (`Query::new().with_constraint(..)`)
//!    give the same rows;
//!  * the iterator API (`store.annotations().filter_*`, `find_data(..).annotations()`, `resource.annotations()` ...)
//!    gives the same set as the query;
//!  * a query with sub-queries (one or two levels, OPTIONAL or not) gives the rows of nested iteration: for every
//!    row of the outer query, the rows of the inner query evaluated with the outer variable bound
//!    (`Query::bind_from_result`), in that order; an OPTIONAL inner query without results leaves the outer row alone;
//!    where the bound item has a public identifier the constant form of the constraint (`ANNOTATION "id"` for
//!    `ANNOTATION ?x`) gives the same set;
//!  * the shape of that nested iteration (which rows, in which order, for which OPTIONAL flags) is also sent to the
//!    Lean model of the `QueryIter` state machine (`sq` lines);
//!  * ADD and DELETE queries leave the store in the state the equivalent direct calls (`annotate`, `remove`,
//!    `remove_key`, `remove_data`) leave it in.
use crate::common::*;
use crate::fam::query::{as_set, row_item, vocab, Vocab};
use crate::fam::store::{observe, Exec};
use stam::*;
use std::collections::BTreeSet;

#[derive(Clone, Debug, PartialEq)]
pub enum C {
    Id(String),
    KeyValue { set: String, key: String, val: String, meta: bool },
    Key { set: String, key: String, meta: bool },
    Resource(String, bool),
    DataSet(String, bool),
    Text(String, bool),
    Annotation(String, bool, bool),
    Value(String),
    Limit(isize, isize),
    Union(Vec<C>),
    AnnVar(String, bool, bool),
    ResVar(String, bool),
    SetVar(String, bool),
    DataVar(String, bool),
    KeyVar(String, bool),
    KeyValVar(String, String, bool),
    TextVar(String),
    Rel(String, &'static str),
}

fn q(s: &str) -> String { format!("\"{}\"", s) }
fn m(meta: bool) -> &'static str { if meta { "AS METADATA " } else { "" } }

impl C {
    pub fn text(&self) -> String {
        match self {
            C::Id(x) => format!("ID {}", q(x)),
            C::KeyValue { set, key, val, meta } => format!("DATA {}{} {} = {}", m(*meta), q(set), q(key), q(val)),
            C::Key { set, key, meta } => format!("DATA {}{} {}", m(*meta), q(set), q(key)),
            C::Resource(r, meta) => format!("RESOURCE {}{}", m(*meta), q(r)),
            C::DataSet(s, meta) => format!("DATASET {}{}", m(*meta), q(s)),
            C::Text(w, nocase) => format!("TEXT {}{}", if *nocase { "AS NOCASE " } else { "" }, q(w)),
            C::Annotation(a, meta, rec) => format!("ANNOTATION {}{}{}", if *meta { "AS TARGET " } else { "" }, if *rec { "RECURSIVE " } else { "" }, q(a)),
            C::Value(v) => format!("VALUE = {}", q(v)),
            C::Limit(b, e) => format!("LIMIT {} {}", b, e),
            C::Union(cs) => format!("[ {} ]", cs.iter().map(|c| c.text()).collect::<Vec<_>>().join(" OR ")),
            C::AnnVar(v, meta, rec) => format!("ANNOTATION {}{}?{}", if *meta { "AS TARGET " } else { "" }, if *rec { "RECURSIVE " } else { "" }, v),
            C::ResVar(v, meta) => format!("RESOURCE {}?{}", m(*meta), v),
            C::SetVar(v, meta) => format!("DATASET {}?{}", m(*meta), v),
            C::DataVar(v, meta) => format!("DATA {}?{}", m(*meta), v),
            C::KeyVar(v, meta) => format!("KEY {}?{}", m(*meta), v),
            C::KeyValVar(v, val, meta) => format!("DATA {}?{} = {}", m(*meta), v, q(val)),
            C::TextVar(v) => format!("TEXT ?{}", v),
            C::Rel(v, op) => format!("RELATION ?{} {}", v, op),
        }
    }
    /// the same constraint as a `Constraint` value, built without the parser
    pub fn build<'a>(&'a self) -> Constraint<'a> {
        let ql = |meta: bool| if meta { SelectionQualifier::Metadata } else { SelectionQualifier::Normal };
        let dp = |rec: bool| if rec { AnnotationDepth::Max } else { AnnotationDepth::One };
        match self {
            C::Id(x) => Constraint::Id(x),
            C::KeyValue { set, key, val, meta } => Constraint::KeyValue { set, key, operator: DataOperator::Equals(val.as_str().into()), qualifier: ql(*meta) },
            C::Key { set, key, meta } => Constraint::DataKey { set, key, qualifier: ql(*meta) },
            C::Resource(r, meta) => Constraint::TextResource(r, ql(*meta), None),
            C::DataSet(s, meta) => Constraint::DataSet(s, ql(*meta)),
            C::Text(w, nocase) => Constraint::Text(w, if *nocase { TextMode::CaseInsensitive } else { TextMode::Exact }),
            C::Annotation(a, meta, rec) => Constraint::Annotation(a, ql(*meta), dp(*rec), None),
            C::Value(v) => Constraint::Value(DataOperator::Equals(v.as_str().into()), SelectionQualifier::Normal),
            C::Limit(b, e) => Constraint::Limit { begin: *b, end: *e },
            C::Union(cs) => Constraint::Union(cs.iter().map(|c| c.build()).collect()),
            C::AnnVar(v, meta, rec) => Constraint::AnnotationVariable(v, ql(*meta), dp(*rec), None),
            C::ResVar(v, meta) => Constraint::ResourceVariable(v, ql(*meta), None),
            C::SetVar(v, meta) => Constraint::DataSetVariable(v, ql(*meta)),
            C::DataVar(v, meta) => Constraint::DataVariable(v, ql(*meta)),
            C::KeyVar(v, meta) => Constraint::KeyVariable(v, ql(*meta)),
            C::KeyValVar(v, val, meta) => Constraint::KeyValueVariable(v, DataOperator::Equals(val.as_str().into()), ql(*meta)),
            C::TextVar(v) => Constraint::TextVariable(v),
            C::Rel(v, op) => Constraint::TextRelation { var: v, operator: rel_op(op) },
        }
    }
    pub fn kw(&self) -> String { self.text().split(|c| c == '"' || c == '?').next().unwrap_or("?").trim().replace(' ', "-") }
}

fn rel_op(op: &str) -> TextSelectionOperator {
    match op {
        "EQUALS" => TextSelectionOperator::equals(),
        "EMBEDS" => TextSelectionOperator::embeds(),
        "EMBEDDED" => TextSelectionOperator::embedded(),
        "OVERLAPS" => TextSelectionOperator::overlaps(),
        "PRECEDES" => TextSelectionOperator::precedes(),
        "SUCCEEDS" => TextSelectionOperator::succeeds(),
        "SAMEBEGIN" => TextSelectionOperator::samebegin(),
        "SAMEEND" => TextSelectionOperator::sameend(),
        "BEFORE" => TextSelectionOperator::before(),
        _ => TextSelectionOperator::after(),
    }
}
const REL_OPS: [&str; 10] = ["EQUALS", "EMBEDS", "EMBEDDED", "OVERLAPS", "PRECEDES", "SUCCEEDS", "SAMEBEGIN", "SAMEEND", "BEFORE", "AFTER"];

fn rtype_of(t: &str) -> Type {
    match t { "ANNOTATION" => Type::Annotation, "DATA" => Type::AnnotationData, "KEY" => Type::DataKey, "TEXT" => Type::TextSelection, "RESOURCE" => Type::TextResource, _ => Type::AnnotationDataSet }
}

#[derive(Clone, Debug)]
pub struct QSpec { pub rtype: &'static str, pub var: String, pub optional: bool, pub cons: Vec<C>, pub sub: Option<Box<QSpec>> }

impl QSpec {
    pub fn flat_text(&self) -> String {
        format!("SELECT {}{} ?{}{}", if self.optional { "OPTIONAL " } else { "" }, self.rtype, self.var,
            if self.cons.is_empty() { ";".to_string() } else { format!(" WHERE {};", self.cons.iter().map(|c| c.text()).collect::<Vec<_>>().join("; ")) })
    }
    pub fn text(&self) -> String {
        match &self.sub { None => self.flat_text(), Some(s) => format!("{} {{ {} }}", self.flat_text(), s.text()) }
    }
    pub fn build<'a>(&'a self) -> Query<'a> {
        let mut qy = Query::new(QueryType::Select, Some(rtype_of(self.rtype)), Some(self.var.as_str()));
        if self.optional { qy = qy.with_qualifier(QueryQualifier::Optional); }
        for c in &self.cons { qy = qy.with_constraint(c.build()); }
        if let Some(s) = &self.sub { qy = qy.with_subquery(s.build()); }
        qy
    }
    fn depth(&self) -> usize { 1 + self.sub.as_ref().map(|s| s.depth()).unwrap_or(0) }
}

/// a constant constraint applicable to `rtype`, from the store's vocabulary
pub fn gen_c(rng: &mut Rng, v: &Vocab, rtype: &str) -> Option<C> {
    let pick = |rng: &mut Rng, xs: &Vec<String>| -> Option<String> { if xs.is_empty() { None } else { Some(xs[rng.below(xs.len())].clone()) } };
    let kv = |rng: &mut Rng| v.data.get(rng.below(v.data.len().max(1))).cloned();
    let ky = |rng: &mut Rng| v.keys.get(rng.below(v.keys.len().max(1))).cloned();
    Some(match (rtype, rng.below(12)) {
        ("ANNOTATION", 0) | ("DATA", 0) | ("TEXT", 0) => { let (set, key, val) = kv(rng)?; C::KeyValue { set, key, val, meta: false } }
        ("ANNOTATION", 1) | ("DATA", 1) | ("TEXT", 1) => { let (set, key) = ky(rng)?; C::Key { set, key, meta: false } }
        ("ANNOTATION", 2) | ("TEXT", 2) => C::Resource(pick(rng, &v.res)?, false),
        ("ANNOTATION", 3) | ("DATA", 3) | ("KEY", 3) => C::DataSet(pick(rng, &v.sets)?, false),
        ("ANNOTATION", 4) | ("TEXT", 4) => C::Text(pick(rng, &v.words)?, rng.chance(20)),
        ("ANNOTATION", 5) | ("TEXT", 5) | ("DATA", 5) | ("KEY", 5) => C::Annotation(pick(rng, &v.anns)?, false, rng.chance(25)),
        ("ANNOTATION", 6) | ("DATA", 6) => C::Annotation(pick(rng, &v.anns)?, true, rng.chance(25)),
        ("ANNOTATION", 7) => C::Id(pick(rng, &v.anns)?),
        ("RESOURCE", 7) => C::Id(pick(rng, &v.res)?),
        ("DATASET", 7) => C::Id(pick(rng, &v.sets)?),
        ("DATA", 8) | ("ANNOTATION", 8) | ("TEXT", 8) => { let (_, _, val) = kv(rng)?; C::Value(val) }
        ("ANNOTATION", 9) => C::Resource(pick(rng, &v.res)?, true),
        ("RESOURCE", 0) | ("DATASET", 0) => { let (set, key) = ky(rng)?; C::Key { set, key, meta: true } }
        ("RESOURCE", 1) => { let (set, key, val) = kv(rng)?; C::KeyValue { set, key, val, meta: true } }
        ("RESOURCE", 2) => { let (set, key) = ky(rng)?; C::Key { set, key, meta: false } }
        ("RESOURCE", 3) => { let (set, key, val) = kv(rng)?; C::KeyValue { set, key, val, meta: false } }
        _ => return None,
    })
}

/// a constraint for an inner query of type `t2` that refers to the outer variable `x` of type `t1`
fn gen_link(rng: &mut Rng, v: &Vocab, t1: &str, t2: &str, x: &str) -> Option<C> {
    let x = x.to_string();
    let r = rng.below(4);
    Some(match (t1, t2) {
        ("ANNOTATION", "ANNOTATION") => C::AnnVar(x, r % 2 == 1, r >= 2),
        ("RESOURCE", "ANNOTATION") => C::ResVar(x, r == 0),
        ("DATASET", "ANNOTATION") => C::SetVar(x, false),
        ("DATA", "ANNOTATION") => C::DataVar(x, false),
        ("KEY", "ANNOTATION") => if r < 2 { let (_, _, val) = v.data.get(rng.below(v.data.len().max(1)))?.clone(); C::KeyValVar(x, val, false) } else { C::KeyVar(x, false) },
        ("TEXT", "ANNOTATION") => if r == 0 { C::TextVar(x) } else { C::Rel(x, REL_OPS[rng.below(REL_OPS.len())]) },
        ("ANNOTATION", "DATA") => C::AnnVar(x, r == 0, false),
        ("DATASET", "DATA") => C::SetVar(x, false),
        ("KEY", "DATA") => if r == 0 { let (_, _, val) = v.data.get(rng.below(v.data.len().max(1)))?.clone(); C::KeyValVar(x, val, false) } else { C::KeyVar(x, false) },
        ("TEXT", "DATA") => C::TextVar(x),
        ("ANNOTATION", "KEY") => C::AnnVar(x, false, false),
        ("DATASET", "KEY") => C::SetVar(x, false),
        ("DATA", "KEY") => C::DataVar(x, false),
        ("ANNOTATION", "TEXT") => C::AnnVar(x, false, false),
        ("RESOURCE", "TEXT") => C::ResVar(x, false),
        ("KEY", "TEXT") => C::KeyVar(x, false),
        ("DATA", "TEXT") => C::DataVar(x, false),
        ("TEXT", "TEXT") => C::Rel(x, REL_OPS[rng.below(REL_OPS.len())]),
        ("KEY", "RESOURCE") => C::KeyVar(x, r % 2 == 0),
        ("DATA", "RESOURCE") => C::DataVar(x, r % 2 == 0),
        ("KEY", "DATASET") => C::KeyVar(x, false),
        ("DATA", "DATASET") => C::DataVar(x, false),
        _ => return None,
    })
}

/// the constant form of a link, when the bound item has a public identifier
fn constant_form(link: &C, item: &QueryResultItem) -> Option<C> {
    Some(match (link, item) {
        (C::AnnVar(_, meta, rec), QueryResultItem::Annotation(a)) => C::Annotation(a.id()?.to_string(), *meta, *rec),
        (C::ResVar(_, meta), QueryResultItem::TextResource(r)) => C::Resource(r.id()?.to_string(), *meta),
        (C::SetVar(_, meta), QueryResultItem::AnnotationDataSet(s)) => C::DataSet(s.id()?.to_string(), *meta),
        (C::KeyVar(_, meta), QueryResultItem::DataKey(k)) => C::Key { set: k.set().id()?.to_string(), key: k.id()?.to_string(), meta: *meta },
        (C::KeyValVar(_, val, meta), QueryResultItem::DataKey(k)) => C::KeyValue { set: k.set().id()?.to_string(), key: k.id()?.to_string(), val: val.clone(), meta: *meta },
        _ => return None,
    })
}

type Rows = Vec<Vec<String>>;

fn collect_rows<'s>(store: &'s AnnotationStore, query: Query<'s>) -> Result<Vec<QueryResultItems<'s>>, String> {
    let _ = stam::verif_hooks::verif_take_query_error();
    let it = store.query(query).map_err(|e| format!("{}", e))?;
    let rows: Vec<QueryResultItems<'s>> = it.collect();
    match stam::verif_hooks::verif_take_query_error() { Some(e) => Err(e), None => Ok(rows) }
}

fn strip(mut r: Vec<String>) -> Vec<String> { while r.last().map(|x| x == "none").unwrap_or(false) { r.pop(); } r }

/// the rows of the whole query as the library evaluates it (text or built)
fn run_spec(store: &AnnotationStore, spec: &QSpec, built: bool) -> Result<Rows, String> {
    let text = spec.text();
    match guarded(std::panic::AssertUnwindSafe(|| -> Result<Rows, String> {
        let query = if built { spec.build() } else { Query::try_from(text.as_str()).map_err(|e| format!("{}", e))? };
        let rows = collect_rows(store, query)?;
        Ok(rows.iter().map(|r| strip(r.iter().map(row_item).collect())).collect())
    })) { Ok(r) => r, Err(msg) => Err(format!("PANIC {} @{}", msg.chars().take(80).collect::<String>(), last_panic_loc())) }
}

/// nested iteration, level by level, each level a query without sub-queries run with the outer variables bound;
/// also returns the shape of the iteration as a tree (for the Lean model): `x[ children ]`
fn nested<'s>(store: &'s AnnotationStore, spec: &'s QSpec, bound: &Vec<(String, QueryResultItem<'s>)>, tree: &mut String, consts: &mut Vec<(C, C, String, QueryResultItem<'s>, &'static str)>) -> Result<Rows, String> {
    let mut query = Query::new(QueryType::Select, Some(rtype_of(spec.rtype)), Some(spec.var.as_str()));
    for c in &spec.cons { query = query.with_constraint(c.build()); }
    for (n, it) in bound { query.bind_from_result(n.clone(), it); }
    let rows = collect_rows(store, query)?;
    let mut out: Rows = vec![];
    for (i, r) in rows.iter().enumerate() {
        let item = match r.iter().next() { Some(x) => x.clone(), None => continue };
        if i > 0 { tree.push(','); }
        tree.push_str(&row_item(&item));
        // remember (variable constraint, its constant form) pairs for the cross-check
        for (n, it) in bound.iter().rev().take(1) { for c in &spec.cons { if let Some(k) = constant_form(c, it) { if consts.len() < 4 { consts.push((c.clone(), k, n.clone(), it.clone(), spec.rtype)); } } } }
        match &spec.sub {
            None => out.push(vec![row_item(&item)]),
            Some(sub) => {
                let mut b2 = bound.clone();
                b2.push((spec.var.clone(), item.clone()));
                tree.push('[');
                let inner = nested(store, sub, &b2, tree, consts)?;
                tree.push(']');
                if inner.is_empty() { if sub.optional { out.push(vec![row_item(&item)]); } }
                else { for ir in inner { let mut row = vec![row_item(&item)]; row.extend(ir); out.push(row); } }
            }
        }
    }
    Ok(out)
}

/// the rows agree up to and including a row in which an OPTIONAL level came up empty (a short row); what follows differs
fn lost_after_empty_optional(got: &Rows, want: &Rows, depth: usize) -> bool {
    let k = got.iter().zip(want.iter()).take_while(|(a, b)| a == b).count();
    k >= 1 && want[k - 1].len() < depth
}

fn opt_flags(spec: &QSpec) -> String { let mut s = String::new(); let mut cur = Some(spec); while let Some(c) = cur { s.push(if c.optional { '1' } else { '0' }); cur = c.sub.as_deref(); } s }

const TYPES: [&str; 6] = ["ANNOTATION", "DATA", "KEY", "TEXT", "RESOURCE", "DATASET"];

fn gen_outer(rng: &mut Rng, v: &Vocab, var: &str) -> Option<QSpec> {
    for _ in 0..8 {
        let rtype = *rng.pick(&TYPES);
        if let Some(c) = gen_c(rng, v, rtype) { return Some(QSpec { rtype, var: var.to_string(), optional: false, cons: vec![c], sub: None }); }
    }
    None
}

fn gen_inner(rng: &mut Rng, v: &Vocab, outer: &QSpec, var: &str) -> Option<QSpec> {
    for _ in 0..12 {
        let rtype = *rng.pick(&TYPES);
        if let Some(link) = gen_link(rng, v, outer.rtype, rtype, &outer.var) {
            let mut cons = vec![link];
            if rng.chance(40) { if let Some(c) = gen_c(rng, v, rtype) { if !matches!(c, C::Id(_)) { if rng.chance(50) { cons.push(c) } else { cons.insert(0, c) } } } }
            return Some(QSpec { rtype, var: var.to_string(), optional: rng.chance(40), cons, sub: None });
        }
    }
    None
}

pub fn check_store2(rep: &mut Report, script: &[String], rng: &mut Rng) {
    let mut ex = Exec::new();
    for l in script { ex.exec(l); }
    let store = &ex.store;
    let v = vocab(store);
    let ctx = |qs: &str| -> Vec<String> { let mut c = script.to_vec(); c.push(format!("query: {}", qs)); c };

    // ---- text vs built vs iterator API, single-level queries
    for _ in 0..10 {
        let rtype = *rng.pick(&TYPES);
        let mut cons: Vec<C> = vec![];
        for _ in 0..(1 + rng.below(2)) { if let Some(c) = gen_c(rng, &v, rtype) { if !cons.contains(&c) && !(matches!(c, C::Id(_)) && !cons.is_empty()) { cons.push(c); } } }
        if cons.is_empty() { continue; }
        if rng.chance(25) && cons.len() >= 2 { cons = vec![C::Union(cons)]; }
        else if rng.chance(20) && !matches!(cons[0], C::Id(_)) { let u = C::Union(vec![cons[0].clone(), cons[cons.len() - 1].clone()]); cons.push(u); }
        if rng.chance(30) { cons.push(if rng.chance(50) { let n = rng.range(-3, 3) as isize; if n >= 0 { C::Limit(0, n) } else { C::Limit(n, 0) } } else { C::Limit(rng.range(-3, 3) as isize, rng.range(-3, 3) as isize) }); }
        let spec = QSpec { rtype, var: "x".into(), optional: false, cons, sub: None };
        let text = spec.text();
        let (rt, rb) = (run_spec(store, &spec, false), run_spec(store, &spec, true));
        rep.count(&format!("query2:text-vs-built:{}", rtype));
        rep.case(Some(&format!("{}|{}", script.join("|"), text)));
        let sig = format!("{}/{}", rtype, spec.cons.iter().map(|c| c.kw()).collect::<Vec<_>>().join("+"));
        match (&rt, &rb) {
            (Ok(a), Ok(b)) => if a != b { rep.fail("oracle", &format!("C08/text-vs-built/{}", sig), ctx(&text), &format!("text: {:?}", a), &format!("built: {:?}", b)); },
            (Err(e), _) | (_, Err(e)) if e.starts_with("PANIC") => rep.fail("panic", &format!("C08/query-panics/{}", sig), ctx(&text), "rows or an error", e),
            (Err(_), Err(_)) => rep.count("query2:refused-both"),
            (a, b) => rep.fail("oracle", &format!("C08/text-vs-built/acceptance/{}", sig), ctx(&text), &format!("text: {:?}", a.as_ref().map(|r| r.len())), &format!("built: {:?}", b.as_ref().map(|r| r.len()))),
        }
        // single constraint: the iterator API
        if spec.cons.len() == 1 {
            if let (Ok(rows), Some(via)) = (&rt, iterator_api(store, rtype, &spec.cons[0])) {
                rep.count(&format!("query2:iterator:{}:{}", rtype, spec.cons[0].kw()));
                let got: BTreeSet<String> = rows.iter().map(|r| r.join("+")).collect();
                for (how, set) in via {
                    if set != got { rep.fail("oracle", &format!("C08/iterator-vs-query/{}/{}/{}", rtype, spec.cons[0].kw(), how), ctx(&text), &format!("query: {:?}", got), &format!("{}: {:?}", how, set)); }
                }
            }
        }
    }

    // ---- RELATION on an annotation variable: the annotations whose text stands in the relation to ANY of the bound
    // annotation's text selections (also when it has several: complex targets), wherever the constraint is written
    {
        let mut anns: Vec<ResultItem<Annotation>> = store.annotations().filter(|a| a.textselections().count() >= 1).collect();
        anns.sort_by_key(|a| std::cmp::Reverse(a.textselections().count()));
        anns.truncate(3);
        let extra: Option<String> = v.data.first().map(|(set, key, _)| format!("DATA {} {}", q(set), q(key)));
        for a in &anns {
            for _ in 0..2 {
                let op = REL_OPS[rng.below(REL_OPS.len())];
                let run = |text: &str| -> Result<BTreeSet<usize>, String> {
                    match guarded(std::panic::AssertUnwindSafe(|| -> Result<BTreeSet<usize>, String> {
                        let qy = Query::try_from(text).map_err(|e| format!("{}", e))?.with_annotationvar("x", a);
                        Ok(collect_rows(store, qy)?.iter().filter_map(|r| r.iter().next().and_then(|x| if let QueryResultItem::Annotation(y) = x { Some(y.handle().as_usize()) } else { None })).collect())
                    })) { Ok(r) => r, Err(m) => Err(format!("PANIC {} @{}", m.chars().take(80).collect::<String>(), last_panic_loc())) }
                };
                let want: Result<BTreeSet<usize>, String> = guarded(std::panic::AssertUnwindSafe(|| { let mut s = BTreeSet::new(); for ts in a.textselections() { for y in ts.related_text(rel_op(op)).annotations() { s.insert(y.handle().as_usize()); } } s })).map_err(|m| format!("PANIC {}", m));
                let t1 = format!("SELECT ANNOTATION ?y WHERE RELATION ?x {};", op);
                let r1 = run(&t1);
                rep.count(&format!("query2:relation-on-annotation-variable:{}:{}", op, if a.textselections().count() > 1 { "several-selections" } else { "one-selection" }));
                rep.case(Some(&format!("{}|{}|x=A{}", script.join("|"), t1, a.handle().as_usize())));
                let c = |t: &str| ctx(&format!("{}   with ?x = annotation #{} ({} text selections)", t, a.handle().as_usize(), a.textselections().count()));
                match (&r1, &want) {
                    (Ok(g), Ok(w)) => if g != w { rep.fail("oracle", &format!("C08/relation-on-annotation-variable/{}", op), c(&t1), &format!("annotations related to any of its text selections: {:?}", w), &format!("{:?}", g)); },
                    (Err(e), _) if e.starts_with("PANIC") => rep.fail("panic", &format!("C08/query-panics/relation-on-annotation-variable/{}", op), c(&t1), "rows or an error", e),
                    _ => {}
                }
                if let Some(ex) = &extra {
                    let (t2, t3) = (format!("SELECT ANNOTATION ?y WHERE RELATION ?x {}; {};", op, ex), format!("SELECT ANNOTATION ?y WHERE {}; RELATION ?x {};", ex, op));
                    let (r2, r3) = (run(&t2), run(&t3));
                    match (&r2, &r3) {
                        (Ok(g2), Ok(g3)) => if g2 != g3 { rep.fail("oracle", &format!("C08/order-of-constraints/relation-on-annotation-variable/{}", op), c(&t3), &format!("relation first: {:?}", g2), &format!("relation second: {:?}", g3)); },
                        (Err(e), _) | (_, Err(e)) if e.starts_with("PANIC") => rep.fail("panic", &format!("C08/query-panics/relation-on-annotation-variable/{}", op), c(&t3), "rows or an error", e),
                        _ => {}
                    }
                }
            }
        }
    }

    // ---- sub-queries: nested iteration
    for _ in 0..8 {
        let mut outer = match gen_outer(rng, &v, "x") { Some(o) => o, None => continue };
        let mut inner = match gen_inner(rng, &v, &outer, "y") { Some(i) => i, None => continue };
        // the property does not say what OPTIONAL means for a level that has a non-optional level under it: below an
        // OPTIONAL level every level is OPTIONAL
        // the third level refers to the variable of the second level or (one time in three) to that of the top-level query
        if rng.chance(35) { let to_top = rng.chance(33); if let Some(mut third) = gen_inner(rng, &v, if to_top { &outer } else { &inner }, "z") { third.optional = inner.optional || rng.chance(40); inner.sub = Some(Box::new(third)); } }
        outer.sub = Some(Box::new(inner));
        let text = outer.text();
        let sig = { let mut s = vec![]; let mut cur = Some(&outer); while let Some(c) = cur { s.push(format!("{}{}", if c.optional { "opt-" } else { "" }, c.rtype)); cur = c.sub.as_deref(); } s.join(">") };
        let linkkw = { let mut s = vec![]; let mut cur = outer.sub.as_deref(); while let Some(c) = cur { s.push(c.cons.iter().filter(|c| c.text().contains('?')).map(|c| c.kw()).collect::<Vec<_>>().join("+")); cur = c.sub.as_deref(); } s.join(">") };
        rep.count(&format!("query2:subquery:depth{}", outer.depth()));
        rep.case(Some(&format!("{}|{}", script.join("|"), text)));
        let whole = run_spec(store, &outer, false);
        let mut tree = String::new();
        let mut consts = vec![];
        let want = match guarded(std::panic::AssertUnwindSafe(|| nested(store, &outer, &vec![], &mut tree, &mut consts))) { Ok(r) => r, Err(msg) => Err(format!("PANIC {} @{}", msg.chars().take(80).collect::<String>(), last_panic_loc())) };
        match (&whole, &want) {
            (Ok(a), Ok(b)) => {
                if a != b && lost_after_empty_optional(a, b, outer.depth()) {
                    rep.fail("oracle", "C08/subquery-not-nested-iteration/rows-after-an-empty-OPTIONAL-are-lost", ctx(&text), &format!("nested iteration: {:?}", b), &format!("query: {:?}", a));
                } else if a != b {
                    let kind = if as_set(&a.iter().map(|r| r.join("+")).collect::<Vec<_>>()) == as_set(&b.iter().map(|r| r.join("+")).collect::<Vec<_>>()) { "order-or-multiplicity" } else { "rows" };
                    rep.fail("oracle", &format!("C08/subquery-not-nested-iteration/{}/{}/{}", kind, sig, linkkw), ctx(&text), &format!("nested iteration: {:?}", b), &format!("query: {:?}", a));
                }
                if !b.is_empty() { rep.count("query2:subquery:nonempty"); }
                // the shape of the iteration, through the model of the QueryIter state machine
                // (a third level that refers to the top-level variable while some level is OPTIONAL is left out: once the
                // known OPTIONAL defect has left `querypath` too long, that level is initialised straight on top of the
                // first one, an iterator the forest does not contain)
                let third_refs_top = outer.sub.as_ref().and_then(|s2| s2.sub.as_ref()).map(|t| t.cons.iter().any(|c| c.text().contains("?x"))).unwrap_or(false);
                if tree.len() < 3000 && !tree.is_empty() && !(third_refs_top && opt_flags(&outer).contains('1')) {
                    let line = format!("sq {} {}", opt_flags(&outer), tree);
                    rep.model_case_ctx(ctx(&text), vec![line], vec![a.iter().map(|r| r.join("+")).collect::<Vec<_>>().join(" ")], "subquery");
                }
            }
            (Err(e), _) | (_, Err(e)) if e.starts_with("PANIC") => rep.fail("panic", &format!("C08/query-panics/subquery/{}/{}", sig, linkkw), ctx(&text), "rows or an error", e),
            (Err(_), Err(_)) => rep.count(&format!("query2:subquery-refused:{}", linkkw)),
            // the whole query never reaches the level that is refused because the known OPTIONAL defect ended it early
            (Ok(a), Err(_)) if a.last().map(|r| r.len() < outer.depth()).unwrap_or(false) && opt_flags(&outer).contains('1') => rep.count("query2:subquery:refusing-level-not-reached-after-empty-OPTIONAL"),
            (Ok(a), Err(e)) => if !a.is_empty() { rep.fail("oracle", &format!("C08/subquery-acceptance/{}/{}", sig, linkkw), ctx(&text), &format!("refused level by level: {}", e), &format!("query: {} rows", a.len())) },
            (Err(e), Ok(b)) if b.iter().any(|r| r.len() < outer.depth()) && (e.contains("VariableNotFound") || e.contains("not found")) => rep.fail("oracle", "C08/subquery-not-nested-iteration/rows-after-an-empty-OPTIONAL-are-lost", ctx(&text), &format!("nested iteration: {:?}", b), &format!("query: {}", e)),
            (Err(e), Ok(b)) => if !b.is_empty() { rep.fail("oracle", &format!("C08/subquery-acceptance/{}/{}", sig, linkkw), ctx(&text), &format!("nested iteration: {} rows", b.len()), &format!("refused: {}", e)) },
        }
        // a constraint on a variable means what the constraint on the item it is bound to means
        // (directed: a key variable with a value, for the keys of the store, on annotations and on data)
        if rng.chance(35) {
            for _ in 0..2 {
                if let (Some((set, key)), Some((_, _, val))) = (v.keys.get(rng.below(v.keys.len().max(1))).cloned(), v.data.get(rng.below(v.data.len().max(1))).cloned()) {
                    if let Some(k) = store.key(set.as_str(), key.as_str()) {
                        consts.push((C::KeyValVar("k".into(), val.clone(), false), C::KeyValue { set, key, val, meta: false }, "k".into(), QueryResultItem::DataKey(k), if rng.chance(75) { "ANNOTATION" } else { "DATA" }));
                    }
                }
            }
        }
        for (cv, ck, name, item, host_rtype) in consts {
            struct Host { rtype: &'static str, cons: Vec<C> }
            let host = Some(Host { rtype: host_rtype, cons: { let mut cur = Some(&outer); let mut found = vec![]; while let Some(c) = cur { if c.cons.contains(&cv) { found = c.cons.clone(); } cur = c.sub.as_deref(); } found } });
            if let Some(h) = host {
                let as_var = { let mut qy = Query::new(QueryType::Select, Some(rtype_of(h.rtype)), Some("r")).with_constraint(cv.build()); qy.bind_from_result(name.clone(), &item); guarded(std::panic::AssertUnwindSafe(|| collect_rows(store, qy))) };
                let kspec = QSpec { rtype: h.rtype, var: "r".into(), optional: false, cons: vec![ck.clone()], sub: None };
                let as_const = run_spec(store, &kspec, false);
                rep.count(&format!("query2:variable-vs-constant:{}:{}", h.rtype, cv.kw()));
                if let (Ok(Ok(a)), Ok(b)) = (&as_var, &as_const) {
                    let sa: BTreeSet<String> = a.iter().map(|r| r.iter().map(row_item).collect::<Vec<_>>().join("+")).collect();
                    let sb: BTreeSet<String> = b.iter().map(|r| r.join("+")).collect();
                    if sa != sb { rep.fail("oracle", &format!("C08/variable-vs-constant/{}/{}", h.rtype, cv.kw()), ctx(&format!("SELECT {} ?r WHERE {};   with ?{} = {}   vs   {}", h.rtype, cv.text(), name, row_item(&item), kspec.text())), &format!("constant: {:?}", sb), &format!("variable: {:?}", sa)); }
                }
                // and wherever it is written: next to another constraint, before it and after it (the first constraint
                // chooses the source, the others filter: two code paths per constraint)
                let partner = h.cons.iter().find(|c| **c != cv && constant_form(c, &item).is_none() && !matches!(c, C::AnnVar(..) | C::ResVar(..) | C::SetVar(..) | C::DataVar(..) | C::KeyVar(..) | C::KeyValVar(..) | C::TextVar(..) | C::Rel(..))).cloned()
                    .or_else(|| (0..6).find_map(|_| gen_c(rng, &v, h.rtype).filter(|c| !matches!(c, C::Id(_) | C::Limit(..)))));
                if let Some(p) = partner {
                    for first in [true, false] {
                        let (lv, lk) = if first { (vec![cv.clone(), p.clone()], vec![ck.clone(), p.clone()]) } else { (vec![p.clone(), cv.clone()], vec![p.clone(), ck.clone()]) };
                        let as_var = { let mut qy = Query::new(QueryType::Select, Some(rtype_of(h.rtype)), Some("r")); for c in &lv { qy = qy.with_constraint(c.build()); } qy.bind_from_result(name.clone(), &item); guarded(std::panic::AssertUnwindSafe(|| collect_rows(store, qy))) };
                        let kspec = QSpec { rtype: h.rtype, var: "r".into(), optional: false, cons: lk, sub: None };
                        let as_const = run_spec(store, &kspec, false);
                        rep.count(&format!("query2:variable-vs-constant-beside-another:{}:{}:{}", h.rtype, cv.kw(), if first { "first" } else { "second" }));
                        if let (Ok(Ok(a)), Ok(b)) = (&as_var, &as_const) {
                            let sa: BTreeSet<String> = a.iter().map(|r| r.iter().map(row_item).collect::<Vec<_>>().join("+")).collect();
                            let sb: BTreeSet<String> = b.iter().map(|r| r.join("+")).collect();
                            if sa != sb { rep.fail("oracle", &format!("C08/variable-vs-constant/{}/{}/{}", h.rtype, cv.kw(), if first { "written-first" } else { "written-second" }), ctx(&format!("SELECT {} ?r WHERE {};   with ?{} = {}   vs   {}", h.rtype, lv.iter().map(|c| c.text()).collect::<Vec<_>>().join("; "), name, row_item(&item), kspec.text())), &format!("constant: {:?}", sb), &format!("variable: {:?}", sa)); }
                        }
                    }
                }
            }
        }
    }
}

/// the same selection through the iterator API: (name of the expression, set of rows)
fn iterator_api(store: &AnnotationStore, rtype: &str, c: &C) -> Option<Vec<(&'static str, BTreeSet<String>)>> {
    let a = |it: &mut dyn Iterator<Item = ResultItem<Annotation>>| -> BTreeSet<String> { it.map(|x| format!("A{}", x.handle().as_usize())).collect() };
    let d = |it: &mut dyn Iterator<Item = ResultItem<AnnotationData>>| -> BTreeSet<String> { it.map(|x| format!("D{}.{}", x.set().handle().as_usize(), x.handle().as_usize())).collect() };
    let r = guarded(std::panic::AssertUnwindSafe(|| -> Option<Vec<(&'static str, BTreeSet<String>)>> {
        Some(match (rtype, c) {
            ("ANNOTATION", C::KeyValue { set, key, val, meta: false }) => {
                let k = store.key(set.as_str(), key.as_str())?;
                vec![("annotations().filter_key_value()", a(&mut store.annotations().filter_key_value(&k, DataOperator::Equals(val.as_str().into())))),
                     ("find_data().annotations()", a(&mut store.find_data(set.as_str(), key.as_str(), DataOperator::Equals(val.as_str().into())).annotations()))]
            }
            ("ANNOTATION", C::Key { set, key, meta: false }) => {
                let k = store.key(set.as_str(), key.as_str())?;
                vec![("annotations().filter_key()", a(&mut store.annotations().filter_key(&k))), ("key.annotations()", a(&mut k.annotations()))]
            }
            ("ANNOTATION", C::DataSet(s, false)) => { let ds = store.dataset(s.as_str())?; vec![("annotations().filter_set()", a(&mut store.annotations().filter_set(&ds)))] }
            ("ANNOTATION", C::Value(val)) => vec![("annotations().filter_value()", a(&mut store.annotations().filter_value(DataOperator::Equals(val.as_str().into()))))],
            ("ANNOTATION", C::Resource(rid, true)) => { let res = store.resource(rid.as_str())?; vec![("resource.annotations_as_metadata()", a(&mut res.annotations_as_metadata())), ("annotations().filter_resource_as_metadata()", a(&mut store.annotations().filter_resource_as_metadata(&res)))] }
            ("ANNOTATION", C::Annotation(aid, false, rec)) => { let an = store.annotation(aid.as_str())?; vec![("annotation.annotations_in_targets()", a(&mut an.annotations_in_targets(if *rec { AnnotationDepth::Max } else { AnnotationDepth::One })))] }
            ("ANNOTATION", C::Annotation(aid, true, false)) => { let an = store.annotation(aid.as_str())?; vec![("annotation.annotations()", a(&mut an.annotations()))] }
            ("ANNOTATION", C::Id(aid)) => vec![("store.annotation()", a(&mut store.annotation(aid.as_str()).into_iter()))],
            ("DATA", C::KeyValue { set, key, val, meta: false }) => vec![("find_data()", d(&mut store.find_data(set.as_str(), key.as_str(), DataOperator::Equals(val.as_str().into()))))],
            ("DATA", C::Key { set, key, meta: false }) => { let k = store.key(set.as_str(), key.as_str())?; vec![("key.data()", d(&mut k.data())), ("find_data(Any)", d(&mut store.find_data(set.as_str(), key.as_str(), DataOperator::Any)))] }
            ("DATA", C::DataSet(s, false)) => { let ds = store.dataset(s.as_str())?; vec![("dataset.data()", d(&mut ds.data()))] }
            ("DATA", C::Annotation(aid, false, _)) => { let an = store.annotation(aid.as_str())?; vec![("annotation.data()", d(&mut an.data()))] }
            ("DATA", C::Value(val)) => vec![("data().filter_value()", d(&mut store.data().filter_value(DataOperator::Equals(val.as_str().into()))))],
            ("KEY", C::DataSet(s, false)) => { let ds = store.dataset(s.as_str())?; vec![("dataset.keys()", ds.keys().map(|k| format!("K{}.{}", k.set().handle().as_usize(), k.handle().as_usize())).collect())] }
            ("KEY", C::Annotation(aid, false, _)) => { let an = store.annotation(aid.as_str())?; vec![("annotation.keys()", an.keys().map(|k| format!("K{}.{}", k.set().handle().as_usize(), k.handle().as_usize())).collect())] }
            ("TEXT", C::Annotation(aid, false, false)) => { let an = store.annotation(aid.as_str())?; vec![("annotation.textselections()", an.textselections().map(|t| format!("T{}:{}-{}", t.resource().handle().as_usize(), t.begin(), t.end())).collect())] }
            ("TEXT", C::Text(w, false)) => vec![("store.find_text()", store.find_text(w.as_str()).map(|t| format!("T{}:{}-{}", t.resource().handle().as_usize(), t.begin(), t.end())).collect())],
            ("RESOURCE", C::Id(rid)) => vec![("store.resource()", store.resource(rid.as_str()).into_iter().map(|x| format!("R{}", x.handle().as_usize())).collect())],
            ("DATASET", C::Id(sid)) => vec![("store.dataset()", store.dataset(sid.as_str()).into_iter().map(|x| format!("S{}", x.handle().as_usize())).collect())],
            _ => return None,
        })
    }));
    r.ok().flatten()
}

// ---------------------------------------------------------------------------------------------
// ADD / DELETE
// ---------------------------------------------------------------------------------------------

pub fn run_mut(store: &mut AnnotationStore, text: &str) -> Result<usize, String> {
    match guarded(std::panic::AssertUnwindSafe(|| -> Result<usize, String> {
        let query = Query::try_from(text).map_err(|e| format!("{}", e))?;
        let _ = stam::verif_hooks::verif_take_query_error();
        let it = store.query_mut(query).map_err(|e| format!("{}", e))?;
        let n = it.count();
        match stam::verif_hooks::verif_take_query_error() { Some(e) => Err(e), None => Ok(n) }
    })) { Ok(r) => r, Err(msg) => Err(format!("PANIC {} @{}", msg.chars().take(80).collect::<String>(), last_panic_loc())) }
}

/// STAMQL text has DELETE for annotations only; the other result types are reached with a built query
fn run_mut_built(store: &mut AnnotationStore, sel: &QSpec) -> Result<usize, String> {
    match guarded(std::panic::AssertUnwindSafe(|| -> Result<usize, String> {
        let query = Query::new(QueryType::Delete, Some(rtype_of(sel.rtype)), Some(sel.var.as_str())).with_subquery(sel.build());
        let _ = stam::verif_hooks::verif_take_query_error();
        let it = store.query_mut(query).map_err(|e| format!("{}", e))?;
        let n = it.count();
        match stam::verif_hooks::verif_take_query_error() { Some(e) => Err(e), None => Ok(n) }
    })) { Ok(r) => r, Err(msg) => Err(format!("PANIC {} @{}", msg.chars().take(80).collect::<String>(), last_panic_loc())) }
}

#[derive(Clone, Debug)]
enum Item { A(usize), R(usize), S(usize), D(usize, usize), K(usize, usize), T(usize, usize, usize), None }

fn item_of(it: &QueryResultItem) -> Item {
    match it {
        QueryResultItem::Annotation(a) => Item::A(a.handle().as_usize()),
        QueryResultItem::TextResource(r) => Item::R(r.handle().as_usize()),
        QueryResultItem::AnnotationDataSet(s) => Item::S(s.handle().as_usize()),
        QueryResultItem::AnnotationData(d) => Item::D(d.set().handle().as_usize(), d.handle().as_usize()),
        QueryResultItem::DataKey(k) => Item::K(k.set().handle().as_usize(), k.handle().as_usize()),
        QueryResultItem::TextSelection(t) => Item::T(t.resource().handle().as_usize(), t.begin(), t.end()),
        _ => Item::None,
    }
}

fn selector_of(it: &Item) -> Option<SelectorBuilder<'static>> {
    Some(match it {
        Item::A(h) => SelectorBuilder::AnnotationSelector(BuildItem::Handle(AnnotationHandle::new(*h)), None),
        Item::R(h) => SelectorBuilder::ResourceSelector(BuildItem::Handle(TextResourceHandle::new(*h))),
        Item::S(h) => SelectorBuilder::DataSetSelector(BuildItem::Handle(AnnotationDataSetHandle::new(*h))),
        Item::D(s, h) => SelectorBuilder::AnnotationDataSelector(BuildItem::Handle(AnnotationDataSetHandle::new(*s)), BuildItem::Handle(AnnotationDataHandle::new(*h))),
        Item::K(s, h) => SelectorBuilder::DataKeySelector(BuildItem::Handle(AnnotationDataSetHandle::new(*s)), BuildItem::Handle(DataKeyHandle::new(*h))),
        Item::T(r, b, e) => SelectorBuilder::TextSelector(BuildItem::Handle(TextResourceHandle::new(*r)), Offset::simple(*b, *e)),
        Item::None => return None,
    })
}

pub fn check_mut(rep: &mut Report, script: &[String], rng: &mut Rng) {
    let mut ex0 = Exec::new();
    for l in script { ex0.exec(l); }
    let v = vocab(&ex0.store);
    let ctx = |qs: &str| -> Vec<String> { let mut c = script.to_vec(); c.push(format!("query: {}", qs)); c };
    for round in 0..4 {
        let mut sel = match gen_outer(rng, &v, "x") { Some(o) => o, None => continue };
        let delete = round % 2 == 1;
        if delete { if sel.rtype == "TEXT" { continue; } }
        // the rows the selection gives on the unchanged store
        let rows: Vec<Vec<Item>> = {
            let text = sel.text();
            let r = guarded(std::panic::AssertUnwindSafe(|| -> Result<Vec<Vec<Item>>, String> {
                let query = Query::try_from(text.as_str()).map_err(|e| format!("{}", e))?;
                Ok(collect_rows(&ex0.store, query)?.iter().map(|r| r.iter().map(item_of).collect()).collect())
            }));
            match r { Ok(Ok(rows)) => rows, _ => continue }
        };
        let (mut via_query, mut direct) = (Exec::new(), Exec::new());
        for l in script { via_query.exec(l); direct.exec(l); }
        if delete {
            let text = format!("DELETE {} ?x {{ {} }}", sel.rtype, sel.text());
            rep.count(&format!("query2:delete:{}", sel.rtype));
            rep.case(Some(&format!("{}|{}", script.join("|"), text)));
            let r1 = if sel.rtype == "ANNOTATION" { run_mut(&mut via_query.store, &text) } else { run_mut_built(&mut via_query.store, &sel) };
            let r2: Result<(), String> = match guarded(std::panic::AssertUnwindSafe(|| -> Result<(), StamError> {
                for row in &rows { match row.first() {
                    // (the same item may be in several rows: it is removed once)
                    Some(Item::R(h)) => if direct.store.resource(TextResourceHandle::new(*h)).is_some() { direct.store.remove(TextResourceHandle::new(*h))? },
                    // (an earlier removal may have taken this one along: annotations on a removed annotation go with it)
                    Some(Item::A(h)) => if direct.store.annotation(AnnotationHandle::new(*h)).is_some() { direct.store.remove(AnnotationHandle::new(*h))? },
                    Some(Item::S(h)) => if direct.store.dataset(AnnotationDataSetHandle::new(*h)).is_some() { direct.store.remove(AnnotationDataSetHandle::new(*h))? },
                    Some(Item::K(s, h)) => if direct.store.dataset(AnnotationDataSetHandle::new(*s)).and_then(|ds| ds.key(DataKeyHandle::new(*h))).is_some() { direct.store.remove_key(AnnotationDataSetHandle::new(*s), DataKeyHandle::new(*h), true)? },
                    Some(Item::D(s, h)) => if direct.store.dataset(AnnotationDataSetHandle::new(*s)).and_then(|ds| ds.annotationdata(AnnotationDataHandle::new(*h))).is_some() { direct.store.remove_data(AnnotationDataSetHandle::new(*s), AnnotationDataHandle::new(*h), true)? },
                    _ => {}
                } }
                Ok(())
            })) { Ok(Ok(())) => Ok(()), Ok(Err(e)) => Err(format!("{}", e)), Err(p) => Err(format!("PANIC {}", p)) };
            compare_mut(rep, "delete", sel.rtype, &ctx(&text), r1.map(|_| ()), r2, &via_query.store, &direct.store);
        } else {
            // ADD ANNOTATION: data and one target per row (optionally a second target from a nested sub-query)
            let (set, key, val) = match v.data.first() { Some(x) => x.clone(), None => ("newset".to_string(), "newkey".to_string(), "newval".to_string()) };
            let val = if rng.chance(50) { val } else { format!("added{}", rng.below(5)) };
            // the value as written in the query and the value the direct call is given: a string between quotes, or (one time
            // in three) an unquoted literal of another type
            let (val_txt, val_dv): (String, DataValue) = match rng.below(9) {
                0 => ("5".into(), DataValue::Int(5)),
                1 => ("-12".into(), DataValue::Int(-12)),
                2 => ("2.5".into(), DataValue::Float(2.5)),
                3 => (if rng.chance(50) { "true".into() } else { "false".into() }, DataValue::Bool(rng.chance(50))),
                _ => (q(&val), DataValue::String(val.clone())),
            };
            let (val_txt, val_dv) = if let DataValue::Bool(_) = val_dv { let b = rng.chance(50); ((if b { "true" } else { "false" }).to_string(), DataValue::Bool(b)) } else { (val_txt, val_dv) };
            let with_id = rng.chance(30);
            let two = rng.chance(30) && matches!(sel.rtype, "ANNOTATION" | "TEXT" | "RESOURCE");
            let kind = *rng.pick(&["", "COMPOSITE ; ", "MULTI ; ", "DIRECTIONAL ; "]);
            let mut rows2 = rows.clone();
            if two {
                if let Some(inner) = gen_inner(rng, &v, &sel, "y") {
                    let mut inner = inner; inner.optional = false;
                    sel.sub = Some(Box::new(inner));
                    let text = sel.text();
                    match guarded(std::panic::AssertUnwindSafe(|| -> Result<Vec<Vec<Item>>, String> {
                        let query = Query::try_from(text.as_str()).map_err(|e| format!("{}", e))?;
                        Ok(collect_rows(&ex0.store, query)?.iter().map(|r| r.iter().map(item_of).collect()).collect())
                    })) { Ok(Ok(r)) => rows2 = r, _ => continue }
                }
            }
            let two = sel.sub.is_some();
            // TARGET ?x OFFSET b e: the part of ?x's text the offset selects (relative to ?x, end-aligned cursors counted from ?x's end)
            let offset_txt: Option<&str> = if !two && matches!(sel.rtype, "TEXT" | "ANNOTATION" | "RESOURCE") && rng.chance(45) { Some(*rng.pick(&["0 1", "1 -1", "-2 -0", "0 -0", "1", "-1", "0 99", "2 1", "-3 -1"])) } else { None };
            let offset: Option<Offset> = offset_txt.map(|t| { let mut it = t.split(' '); let c1 = Cursor::try_from(it.next().unwrap()).unwrap(); let c2 = it.next().map(|x| Cursor::try_from(x).unwrap()).unwrap_or(Cursor::EndAligned(0)); Offset::new(c1, c2) });
            let text = format!("ADD ANNOTATION ?n WITH {}DATA {} {} {}; TARGET ?x{}; {}{}{{ {} }}", if with_id { "ID \"added-by-query\"; " } else { "" }, q(&set), q(&key), val_txt, offset_txt.map(|t| format!(" OFFSET {}", t)).unwrap_or_default(), if two { "TARGET ?y; " } else { "" }, if two { kind } else { "" }, sel.text());
            rep.count(&format!("query2:add:{}{}{}", sel.rtype, if two { ":two-targets" } else { "" }, if offset.is_some() { ":offset" } else { "" }));
            rep.case(Some(&format!("{}|{}", script.join("|"), text)));
            let r1 = run_mut(&mut via_query.store, &text);
            let r2: Result<(), String> = match guarded(std::panic::AssertUnwindSafe(|| -> Result<(), StamError> {
                let mut builders = vec![];
                for row in &rows2 {
                    let mut sels: Vec<SelectorBuilder> = row.iter().filter_map(selector_of).collect();
                    if let (Some(off), Some(item)) = (&offset, row.first()) {
                        sels = vec![match item {
                            Item::A(h) => SelectorBuilder::AnnotationSelector(BuildItem::Handle(AnnotationHandle::new(*h)), Some(off.clone())),
                            // (on a resource: that part of its text)
                            Item::R(h) => SelectorBuilder::TextSelector(BuildItem::Handle(TextResourceHandle::new(*h)), off.clone()),
                            Item::T(r, b, e) => {
                                let len = e - b;
                                let pos = |c: &Cursor| -> Result<usize, StamError> { match c { Cursor::BeginAligned(n) if *n <= len => Ok(*n), Cursor::EndAligned(k) if k.unsigned_abs() <= len => Ok(len - k.unsigned_abs()), _ => Err(StamError::CursorOutOfBounds(*c, "relative to the selected text")) } };
                                let (rb, re) = (pos(&off.begin)?, pos(&off.end)?);
                                if re < rb { return Err(StamError::InvalidOffset(off.begin, off.end, "end before begin")); }
                                SelectorBuilder::TextSelector(BuildItem::Handle(TextResourceHandle::new(*r)), Offset::simple(b + rb, b + re))
                            }
                            _ => continue,
                        }];
                    }
                    let mut b = AnnotationBuilder::new().with_data(set.clone(), key.clone(), val_dv.clone());
                    if with_id { b = b.with_id("added-by-query"); }
                    b = if sels.len() == 1 && !(two && !kind.is_empty()) { b.with_target(sels.into_iter().next().unwrap()) } else { match kind { "MULTI ; " => b.with_target(SelectorBuilder::MultiSelector(sels)), "DIRECTIONAL ; " => b.with_target(SelectorBuilder::DirectionalSelector(sels)), _ => b.with_target(SelectorBuilder::CompositeSelector(sels)) } };
                    builders.push(b);
                }
                for b in builders { direct.store.annotate(b)?; }
                Ok(())
            })) { Ok(Ok(())) => Ok(()), Ok(Err(e)) => Err(format!("{}", e)), Err(p) => Err(format!("PANIC {}", p)) };
            compare_mut(rep, "add", sel.rtype, &ctx(&text), r1.map(|_| ()), r2, &via_query.store, &direct.store);
        }
    }
    // the same data item / key / resource / dataset in several result rows (reached through two annotations), and a DELETE
    // query without a sub-query
    for rtype in ["DATA", "KEY", "RESOURCE", "DATASET"] {
        let (mut via_query, mut direct) = (Exec::new(), Exec::new());
        for l in script { via_query.exec(l); direct.exec(l); }
        let inner = match rtype { "DATA" => "SELECT DATA ?x WHERE ANNOTATION ?a", "KEY" => "SELECT KEY ?x WHERE ANNOTATION ?a", "RESOURCE" => "SELECT RESOURCE ?x WHERE ANNOTATION ?a", _ => "SELECT DATASET ?x WHERE ANNOTATION ?a" };
        let seltext = format!("SELECT ANNOTATION ?a {{ {}; }}", inner);
        let rows: Vec<Item> = match guarded(std::panic::AssertUnwindSafe(|| -> Result<Vec<Item>, String> { let q = Query::try_from(seltext.as_str()).map_err(|e| format!("{}", e))?; Ok(collect_rows(&direct.store, q)?.iter().filter_map(|r| r.iter().nth(1).map(item_of)).collect()) })) { Ok(Ok(r)) => r, _ => continue };
        if rows.is_empty() { continue; }
        let dup = { let mut seen: Vec<String> = vec![]; let mut d = false; for r in &rows { let k = format!("{:?}", r); if seen.contains(&k) { d = true; } seen.push(k); } d };
        rep.count(&format!("query2:delete-through-annotations:{}:{}", rtype, if dup { "item-in-several-rows" } else { "distinct-rows" }));
        rep.case(Some(&format!("{}|DELETE {} through annotations", script.join("|"), rtype)));
        let r1: Result<usize, String> = match guarded(std::panic::AssertUnwindSafe(|| -> Result<usize, String> {
            let sub = Query::try_from(seltext.as_str()).map_err(|e| format!("{}", e))?;
            let query = Query::new(QueryType::Delete, Some(rtype_of(rtype)), Some("x")).with_subquery(sub);
            let _ = stam::verif_hooks::verif_take_query_error();
            let it = via_query.store.query_mut(query).map_err(|e| format!("{}", e))?;
            let n = it.count();
            match stam::verif_hooks::verif_take_query_error() { Some(e) => Err(e), None => Ok(n) }
        })) { Ok(r) => r, Err(m) => Err(format!("PANIC {} @{}", m.chars().take(80).collect::<String>(), last_panic_loc())) };
        let r2: Result<(), String> = match guarded(std::panic::AssertUnwindSafe(|| -> Result<(), StamError> {
            for it in &rows { match it {
                Item::R(h) => if direct.store.resource(TextResourceHandle::new(*h)).is_some() { direct.store.remove(TextResourceHandle::new(*h))? },
                Item::S(h) => if direct.store.dataset(AnnotationDataSetHandle::new(*h)).is_some() { direct.store.remove(AnnotationDataSetHandle::new(*h))? },
                Item::K(s, h) => if direct.store.dataset(AnnotationDataSetHandle::new(*s)).and_then(|ds| ds.key(DataKeyHandle::new(*h))).is_some() { direct.store.remove_key(AnnotationDataSetHandle::new(*s), DataKeyHandle::new(*h), true)? },
                Item::D(s, h) => if direct.store.dataset(AnnotationDataSetHandle::new(*s)).and_then(|ds| ds.annotationdata(AnnotationDataHandle::new(*h))).is_some() { direct.store.remove_data(AnnotationDataSetHandle::new(*s), AnnotationDataHandle::new(*h), true)? },
                _ => {}
            } }
            Ok(())
        })) { Ok(Ok(())) => Ok(()), Ok(Err(e)) => Err(format!("{}", e)), Err(p) => Err(format!("PANIC {}", p)) };
        compare_mut(rep, "delete", &format!("{}-through-annotations", rtype), &ctx(&format!("DELETE {} ?x {{ {} }}", rtype, seltext)), r1.map(|_| ()), r2, &via_query.store, &direct.store);
    }
    for text in ["DELETE ANNOTATION ?a", "DELETE ANNOTATION ?a { }", "ADD ANNOTATION ?a WITH DATA \"s\" \"k\" \"v\";"] {
        let mut ex = Exec::new();
        for l in script { ex.exec(l); }
        rep.count("query2:mutation-without-subquery");
        if let Err(m) = run_mut(&mut ex.store, text) { if m.starts_with("PANIC") { rep.fail("panic", "C08/mutation-without-subquery-panics", ctx(text), "an error or nothing done", &m); } }
    }
    // every annotation deleted by one query: annotations on annotations are among the results next to their targets, so
    // removing an earlier result takes later results along
    {
        let text = "DELETE ANNOTATION ?x { SELECT ANNOTATION ?x }";
        let (mut via_query, mut direct) = (Exec::new(), Exec::new());
        for l in script { via_query.exec(l); direct.exec(l); }
        let handles: Vec<AnnotationHandle> = direct.store.annotations().map(|a| a.handle()).collect();
        let nested = direct.store.annotations().any(|a| a.annotations_in_targets(AnnotationDepth::One).next().is_some());
        rep.count(if nested { "query2:delete-all:with-annotations-on-annotations" } else { "query2:delete-all:flat" });
        rep.case(Some(&format!("{}|{}", script.join("|"), text)));
        let r1 = run_mut(&mut via_query.store, text);
        let r2: Result<(), String> = match guarded(std::panic::AssertUnwindSafe(|| -> Result<(), StamError> {
            for h in &handles { if direct.store.annotation(*h).is_some() { direct.store.remove(*h)?; } }
            Ok(())
        })) { Ok(Ok(())) => Ok(()), Ok(Err(e)) => Err(format!("{}", e)), Err(p) => Err(format!("PANIC {}", p)) };
        compare_mut(rep, "delete", "ANNOTATION-all", &ctx(text), r1.map(|_| ()), r2, &via_query.store, &direct.store);
    }
}

fn compare_mut(rep: &mut Report, what: &str, rtype: &str, ctx: &Vec<String>, via_query: Result<(), String>, direct: Result<(), String>, s1: &AnnotationStore, s2: &AnnotationStore) {
    match (&via_query, &direct) {
        (Err(e), _) if e.starts_with("PANIC") => rep.fail("panic", &format!("C08/{}-query-panics/{}", what, rtype), ctx.clone(), "a changed store or an error", e),
        (Ok(()), Ok(())) => {
            let (o1, o2) = (observe(s1), observe(s2));
            if o1 != o2 {
                let (l1, l2): (Vec<&str>, Vec<&str>) = (o1.split(' ').collect(), o2.split(' ').collect());
                let diff: Vec<String> = l1.iter().zip(l2.iter()).filter(|(a, b)| a != b).take(3).map(|(a, b)| format!("query: {}  direct: {}", a, b)).collect();
                rep.fail("oracle", &format!("C08/{}-differs-from-direct-calls/{}", what, rtype), ctx.clone(), "the store the direct calls leave", &format!("{} vs {} items; first differences: {:?}", l1.len(), l2.len(), diff));
            }
        }
        (Err(_), Err(_)) => rep.count(&format!("query2:{}:refused-both-ways", what)),
        (Ok(()), Err(e)) => rep.fail("oracle", &format!("C08/{}-accepted-but-direct-calls-refuse/{}", what, rtype), ctx.clone(), &format!("direct calls: {}", e), "the query succeeded"),
        (Err(e), Ok(())) => rep.fail("oracle", &format!("C08/{}-refused-but-direct-calls-succeed/{}", what, rtype), ctx.clone(), "direct calls succeed", &format!("query: {}", e)),
    }
}


/// case-insensitive TEXT constraints on texts with upper- and lower-case letters inside and outside ASCII: the
/// constraint as first constraint (index-driven), as a later constraint (filter), through the iterator API, and the
/// plain-string oracle all give the same annotations
pub fn check_nocase(rep: &mut Report) {
    let words = ["\u{c9}cole", "des", "\u{e9}coles", "\u{c9}COLE", "Normale", "\u{e9}cole", "NORMALE", "\u{d6}l", "\u{f6}L", "stra\u{df}e"];
    let text = words.join(" ");
    let mut store = new_store();
    if store.add_resource(TextResourceBuilder::new().with_id("r").with_text(text.clone())).is_err() { return; }
    let mut pos = 0usize;
    for (i, w) in words.iter().enumerate() {
        let n = w.chars().count();
        let _ = store.annotate(AnnotationBuilder::new().with_id(format!("a{}", i)).with_target(SelectorBuilder::textselector("r", Offset::simple(pos, pos + n))).with_data("s", "k", if i % 2 == 0 { "even" } else { "odd" }));
        pos += n + 1;
    }
    let store = &store;
    let ids = |q: &str| -> Result<Vec<String>, String> {
        guarded(std::panic::AssertUnwindSafe(|| Query::try_from(q).and_then(|q| store.query(q)).map(|it| { let mut v: Vec<String> = it.filter_map(|row| row.iter().next().and_then(|x| if let QueryResultItem::Annotation(a) = x { a.id().map(|s| s.to_string()) } else { None })).collect(); v.sort(); v }).map_err(|e| format!("{}", e)))).and_then(|r| r)
    };
    for needle in ["\u{e9}cole", "\u{c9}COLE", "\u{c9}cole", "normale", "NORMALE", "des", "DES", "\u{f6}l", "\u{d6}L", "stra\u{df}e"] {
        for parity in ["even", "odd"] {
            let mut want: Vec<String> = words.iter().enumerate().filter(|(i, w)| w.to_lowercase() == needle.to_lowercase() && (if i % 2 == 0 { "even" } else { "odd" }) == parity).map(|(i, _)| format!("a{}", i)).collect();
            want.sort();
            let mut want_all: Vec<String> = words.iter().enumerate().filter(|(_, w)| w.to_lowercase() == needle.to_lowercase()).map(|(i, _)| format!("a{}", i)).collect();
            want_all.sort();
            let forms: Vec<(&str, String, &Vec<String>)> = vec![
                ("first-and-only", format!("SELECT ANNOTATION ?a WHERE TEXT AS NOCASE \"{}\";", needle), &want_all),
                ("first", format!("SELECT ANNOTATION ?a WHERE TEXT AS NOCASE \"{}\"; DATA \"s\" \"k\" = \"{}\";", needle, parity), &want),
                ("later", format!("SELECT ANNOTATION ?a WHERE DATA \"s\" \"k\" = \"{}\"; TEXT AS NOCASE \"{}\";", parity, needle), &want),
            ];
            for (name, q, w) in forms {
                rep.case(Some(&q));
                rep.count("nocase:query");
                let got = ids(&q);
                if got.as_ref().ok() != Some(w) { rep.fail(if matches!(&got, Err(m) if m.contains("panic")) { "panic" } else { "oracle" }, &format!("C08/text-nocase/{}-constraint", name), vec![format!("query: text {:?} with one annotation per word", text), q.clone()], &format!("{:?}", w), &format!("{:?}", got)); }
            }
            let got = guarded(std::panic::AssertUnwindSafe(|| { let mut v: Vec<String> = store.annotations().filter_text(needle.to_string(), false, " ").filter_map(|a| a.id().map(|s| s.to_string())).collect(); v.sort(); v }));
            if got.as_ref().ok() != Some(&want_all) { rep.fail(if got.is_err() { "panic" } else { "oracle" }, "C08/text-nocase/iterator", vec![format!("iterator: annotations().filter_text({:?}, case-insensitive) over text {:?}", needle, text)], &format!("{:?}", want_all), &format!("{:?}", got)); }
            // the borrowed variants (documented: the text must be lower-cased by the caller) and the text selection iterator
            let lower = needle.to_lowercase();
            let got = guarded(std::panic::AssertUnwindSafe(|| { let mut v: Vec<String> = store.annotations().filter_text_byref(lower.as_str(), false, " ").filter_map(|a| a.id().map(|s| s.to_string())).collect(); v.sort(); v }));
            if got.as_ref().ok() != Some(&want_all) { rep.fail(if got.is_err() { "panic" } else { "oracle" }, "C08/text-nocase/iterator-byref", vec![format!("iterator: annotations().filter_text_byref({:?}, case-insensitive) over text {:?}", lower, text)], &format!("{:?}", want_all), &format!("{:?}", got)); }
            let want_ts: Vec<(usize, usize)> = { let mut p = 0usize; let mut v = vec![]; for w in words.iter() { let n = w.chars().count(); if w.to_lowercase() == lower { v.push((p, p + n)); } p += n + 1; } v };
            for (name, got) in [
                ("textselections-filter_text", guarded(std::panic::AssertUnwindSafe(|| { let mut v: Vec<(usize, usize)> = store.annotations().textselections().filter_text(needle.to_string(), false).map(|t| (t.begin(), t.end())).collect(); v.sort(); v.dedup(); v }))),
                ("textselections-filter_text_byref", guarded(std::panic::AssertUnwindSafe(|| { let mut v: Vec<(usize, usize)> = store.annotations().textselections().filter_text_byref(lower.as_str(), false).map(|t| (t.begin(), t.end())).collect(); v.sort(); v.dedup(); v }))),
            ] {
                if got.as_ref().ok() != Some(&want_ts) { rep.fail(if got.is_err() { "panic" } else { "oracle" }, &format!("C08/text-nocase/{}", name), vec![format!("iterator: annotations().textselections().{}({:?}, case-insensitive) over text {:?}", name, needle, text)], &format!("{:?}", want_ts), &format!("{:?}", got)); }
            }
        }
    }
}
