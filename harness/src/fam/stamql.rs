//! C09 (STAMQL parsing is total; printing then parsing is a fixpoint).
//!
//!  * a grammar-directed generator writes queries (every query type, qualifier, constraint kind, value type,
//!    unions, limits, attributes, up to two levels of sub-queries);
//!  * well-formed stream: parse → print → parse → print: the second parse must succeed with the same
//!    structure (Debug rendering) and the second print must equal the first;
//!  * malformed stream: truncations at every character boundary, token deletions/duplications/swaps,
//!    Unicode insertions, numeric extremes, unbalanced quotes/brackets: parsing returns Ok or Err, never panics;
//!  * lexical layer (`ql arg`, `ql op` lines): argument splitting / typing and the operator table are
//!    compared with the Lean model (through the stam_verif hooks).
use crate::common::*;
use serde_json::json;
use stam::*;

pub struct QGen {
    pub rng: Rng,
}

const STRS: &[&str] = &["x", "my set", "a.b", "http://ex.org/ns#p", "\u{e9}t\u{e9}", "q\\\"uote", "semi;colon", "pipe\\|x", "", "OR", "b]c", "tab\tx", "1", "-", "true", "2024-01-01T00:00:00+00:00"];
const NUMS: &[&str] = &["0", "1", "42", "-3", "007", "1.5", "-0.25", "3.0", "1e3", "9223372036854775807", "-9223372036854775808"];
const OPS: &[&str] = &["=", "!=", ">", ">=", "<", "<="];
const RELS: &[&str] = &["EQUALS", "EMBEDS", "EMBEDDED", "OVERLAPS", "PRECEDES", "SUCCEEDS", "SAMEBEGIN", "SAMEEND", "BEFORE", "AFTER"];
const TYPES: &[&str] = &["ANNOTATION", "DATA", "KEY", "TEXT", "RESOURCE", "DATASET"];

impl QGen {
    pub fn new(seed: u64) -> Self { QGen { rng: Rng::new(seed) } }
    fn q(&mut self) -> String { format!("\"{}\"", self.rng.pick(STRS)) }
    fn var(&mut self) -> String { format!("?{}", self.rng.pick(&["x", "a", "sentence", "v1"])) }
    fn qual(&mut self) -> &'static str { match self.rng.below(6) { 0 => " AS METADATA", 1 => " AS TARGET", _ => "" } }
    fn cursor(&mut self) -> String { match self.rng.below(5) { 0 => "-0".into(), 1 => format!("-{}", self.rng.below(9)), _ => format!("{}", self.rng.below(30)) } }
    fn offset(&mut self) -> String {
        match self.rng.below(4) { 0 => format!(" OFFSET {} {}", self.cursor(), self.cursor()), 1 => format!(" OFFSET {}", self.cursor()), _ => String::new() }
    }
    pub fn value(&mut self) -> String {
        match self.rng.below(12) {
            0..=2 => self.q(),
            3..=5 => self.rng.pick(NUMS).to_string(),
            6 => "null".into(),
            7 => "any".into(),
            8 => (*self.rng.pick(&["true", "false"])).into(),
            9 => "2024-03-01T12:30:00+01:00".into(),
            10 => format!("\"{}|{}\"", self.rng.pick(&["a", "b c", "1"]), self.rng.pick(&["d", "2"])),
            _ => format!("{}|{}", self.rng.pick(&["1", "a", "2.5"]), self.rng.pick(&["2", "b"])),
        }
    }
    fn opval(&mut self) -> String { format!("{} {}", self.rng.pick(OPS), self.value()) }
    pub fn constraint(&mut self, depth: usize) -> String {
        let attrs = if self.rng.chance(8) { "@KEEP " } else { "" };
        let body = match self.rng.below(if depth == 0 { 15 } else { 13 }) {
            0 => format!("ID {}", self.q()),
            1 => match self.rng.below(4) { 0 => format!("TEXT AS NOCASE {}", self.q()), 1 => format!("TEXT AS REGEX \"{}\"", self.rng.pick(&["a+b", "[A-Z]\\\\w+", "x|y"])), 2 => format!("TEXT {}", self.var()), _ => format!("TEXT {}", self.q()) },
            2 => { let r = if self.rng.chance(25) { " RECURSIVE" } else { "" }; format!("ANNOTATION{}{} {}{}", self.qual(), r, if self.rng.chance(50) { self.q() } else { self.var() }, self.offset()) }
            3 => format!("RESOURCE{} {}{}", self.qual(), if self.rng.chance(50) { self.q() } else { self.var() }, self.offset()),
            4 => format!("DATASET{} {}", self.qual(), if self.rng.chance(50) { self.q() } else { self.var() }),
            5 => format!("RELATION {} {}", self.var(), self.rng.pick(RELS)),
            6 | 7 => format!("DATA{} {} {} {}", self.qual(), self.q(), self.q(), self.opval()),
            8 => format!("DATA{} {} {}", self.qual(), self.q(), self.q()),
            9 => format!("DATA{} {}", self.qual(), self.var()),
            10 => format!("VALUE{} {}", self.qual(), self.opval()),
            11 => format!("KEY{} {}", self.qual(), self.var()),
            12 => match self.rng.below(3) { 0 => "SUBSTORE NONE".to_string(), 1 => format!("SUBSTORE {}", self.var()), _ => format!("SUBSTORE {}", self.q()) },
            13 => { let n = 2 + self.rng.below(2); let subs: Vec<String> = (0..n).map(|_| self.constraint(depth + 1)).collect(); format!("[ {} ]", subs.join(" OR ")) }
            _ => match self.rng.below(3) { 0 => format!("LIMIT {}", self.rng.below(20)), 1 => format!("LIMIT -{}", self.rng.below(20)), _ => format!("LIMIT {} {}", self.rng.range(-9, 9), self.rng.range(-9, 20)) },
        };
        if depth == 0 { format!("{}{};", attrs, body) } else { body }
    }
    fn assignment(&mut self) -> String {
        match self.rng.below(7) {
            0 => format!("ID {};", self.q()),
            1 | 2 => format!("DATA {} {} {};", self.q(), self.q(), match self.rng.below(6) { 0 => self.q(), 1 => self.rng.pick(NUMS).to_string(), 2 => "true".into(), 3 => "false".into(), 4 => (*self.rng.pick(&["0.00001", "-0.0000002", "123456789012345678901.5", "10000000000000000.0", "0.5"])).to_string(), _ => self.q() }),
            3 => format!("DATA {} {};", self.q(), self.q()),
            4 => format!("TARGET {}{};", self.var(), self.offset()),
            5 => (*self.rng.pick(&["COMPOSITE;", "MULTI;", "DIRECTIONAL;"])).to_string(),
            _ => format!("TARGET {};", self.var()),
        }
    }
    pub fn select(&mut self, level: usize) -> String {
        let mut s = String::new();
        if self.rng.chance(10) { s += "@ATTR "; }
        s += "SELECT ";
        if level > 0 && self.rng.chance(20) { s += "OPTIONAL "; }
        s += *self.rng.pick(TYPES);
        if self.rng.chance(70) { s += " "; s += &self.var(); }
        let nc = self.rng.below(4);
        if nc > 0 {
            s += " WHERE ";
            for _ in 0..nc { s += &self.constraint(0); s += " "; }
        }
        if level < 2 && self.rng.chance(35) {
            let n = 1 + self.rng.below(2);
            let subs: Vec<String> = (0..n).map(|_| self.select(level + 1)).collect();
            s += &format!("{{ {} }}", subs.join(" | "));
        }
        s
    }
    /// a constraint of the kinds the Lean model covers
    pub fn constraint_modelled(&mut self) -> String {
        let body = match self.rng.below(13) {
            0 => format!("ID {}", self.q()),
            1 => match self.rng.below(4) { 0 => format!("TEXT AS NOCASE {}", self.q()), 1 => format!("TEXT AS REGEX \"{}\"", self.rng.pick(&["a+b", "[A-Z]\\\\w+", "x|y", "a("])), 2 => format!("TEXT {}", self.var()), _ => format!("TEXT {}", self.q()) },
            2 => format!("DATASET{} {}", self.qual(), if self.rng.chance(50) { self.q() } else { self.var() }),
            3 | 4 => format!("DATA{} {} {} {}", self.qual(), self.q(), self.q(), self.opval()),
            5 => format!("DATA{} {}", self.qual(), self.q() + " " + &self.q()),
            6 => format!("DATA{} {}", self.qual(), self.var()),
            7 => format!("DATA{} {} {}", self.qual(), self.var(), self.opval()),
            8 => match self.rng.below(3) { 0 => "SUBSTORE NONE".to_string(), 1 => format!("SUBSTORE {}", self.var()), _ => format!("SUBSTORE {}", self.q()) },
            _ => match self.rng.below(8) {
                0 => { let r = if self.rng.chance(30) { " RECURSIVE" } else { "" }; format!("ANNOTATION{}{} {}{}", self.qual(), r, if self.rng.chance(50) { self.q() } else { self.var() }, self.offset()) }
                1 => format!("RESOURCE{} {}{}", self.qual(), if self.rng.chance(50) { self.q() } else { self.var() }, self.offset()),
                2 => format!("RELATION {} {}", self.var(), self.rng.pick(RELS)),
                3 => format!("VALUE{} {}", self.qual(), self.opval()),
                4 => format!("KEY{} {}", self.qual(), self.var()),
                5 => match self.rng.below(3) { 0 => format!("LIMIT {}", self.rng.below(20)), 1 => format!("LIMIT -{}", self.rng.below(20)), _ => format!("LIMIT {} {}", self.rng.range(-9, 9), self.rng.range(-9, 20)) },
                6 => format!("RESOURCE {} OFFSET {}", self.q(), self.rng.pick(&["WHOLE", "ALL", "0", "-0 -0", "3 WHOLE", "+2 5", "18446744073709551616", "-9223372036854775809", "1 -1;"])),
                _ => format!("ID {}", self.var()),
            },
        };
        format!("{};", body)
    }
    /// a SELECT query within what the Lean model covers, with varied white space
    pub fn select_modelled(&mut self, level: usize) -> String {
        let ws = |g: &mut QGen| (*g.rng.pick(&[" ", " ", " ", "\n", "\t", "  ", "\n\t", "\r\n"])).to_string();
        let mut s = String::from("SELECT");
        s += &ws(self);
        if self.rng.chance(20) { s += "OPTIONAL"; s += &ws(self); }
        let ty = *self.rng.pick(TYPES);
        s += &if self.rng.chance(15) { ty.to_lowercase() } else { ty.to_string() };
        if self.rng.chance(70) { s += &ws(self); s += &self.var(); if self.rng.chance(5) { s += ";"; } }
        let nc = self.rng.below(4);
        if nc > 0 || self.rng.chance(10) {
            s += &ws(self); s += "WHERE";
            for _ in 0..nc { s += &ws(self); s += &self.constraint_modelled(); }
        }
        if level < 3 && self.rng.chance(40) {
            let n = self.rng.below(3);
            let subs: Vec<String> = (0..n).map(|_| self.select_modelled(level + 1)).collect();
            let (a, b, c) = (ws(self), ws(self), ws(self));
            s += &format!("{}{{{}{}{}}}", if self.rng.chance(10) { String::new() } else { a }, b, subs.join(&format!("{}|{}", ws(self), if self.rng.chance(10) { String::new() } else { ws(self) })), c);
        }
        s
    }
    pub fn query(&mut self) -> String {
        match self.rng.below(10) {
            0 => { let n = self.rng.below(4); let a: Vec<String> = (0..n).map(|_| self.assignment()).collect(); format!("ADD ANNOTATION {} {}{}{}", self.var(), if n > 0 { "WITH " } else { "" }, a.join(" "), if self.rng.chance(60) { format!(" {{ {} }}", self.select(1)) } else { String::new() }) }
            1 => format!("DELETE ANNOTATION {} {{ {} }}", self.var(), self.select(1)),
            _ => self.select(0),
        }
    }
    /// a malformed variant of a well-formed query
    pub fn mutate(&mut self, s: &str) -> String {
        let cs: Vec<char> = s.chars().collect();
        let toks: Vec<&str> = s.split(' ').collect();
        match self.rng.below(12) {
            0 | 1 => cs[..self.rng.below(cs.len() + 1)].iter().collect(),                                   // truncation
            2 => { let mut t = toks.clone(); if !t.is_empty() { t.remove(self.rng.below(t.len())); } t.join(" ") }      // token deleted
            3 => { let mut t = toks.clone(); if !t.is_empty() { let i = self.rng.below(t.len()); t.insert(i, t[i]); } t.join(" ") } // token duplicated
            4 => { let mut t = toks.clone(); if t.len() > 1 { let i = self.rng.below(t.len() - 1); t.swap(i, i + 1); } t.join(" ") } // tokens swapped
            5 => { let mut c = cs.clone(); let i = self.rng.below(c.len() + 1); c.insert(i, *self.rng.pick(&['\u{e9}', '\u{1F600}', '\u{3000}', '\u{a0}', '"', '\\', '{', '}', '[', ']', '|', ';', '?', '@', '\n', '\u{0}'])); c.into_iter().collect() } // character inserted
            6 => { let mut c = cs.clone(); if !c.is_empty() { let i = self.rng.below(c.len()); c.remove(i); } c.into_iter().collect() }       // character deleted
            7 => { let mut t: Vec<String> = toks.iter().map(|x| x.to_string()).collect(); if !t.is_empty() { let i = self.rng.below(t.len()); t[i] = (*self.rng.pick(&["99999999999999999999999", "-99999999999999999999999", "-", ".", "-.", "1.", "--1", "1..2", "+5", "0x10", "NaN", "1e999"])).to_string(); } t.join(" ") } // numeric extremes
            8 => { let mut c = cs.clone(); if !c.is_empty() { let i = self.rng.below(c.len()); c[i] = *self.rng.pick(&['\u{e9}', '\u{1F600}', '\u{3000}', '"', ';', ' ']); } c.into_iter().collect() } // character replaced
            9 => { let kw = *self.rng.pick(&["SELECT", "ADD", "DELETE", "SELECT ANNOTATION", "SELECT ANNOTATION ?x WHERE", "SELECT ANNOTATION ?x WHERE DATA", "SELECT DATA ?x WHERE VALUE", "SELECT TEXT ?x WHERE TEXT AS", "SELECT TEXT WHERE RELATION", "SELECT TEXT WHERE LIMIT", "ADD ANNOTATION WITH DATA", "ADD ANNOTATION WITH TARGET", "SELECT ANNOTATION WHERE [", "SELECT ANNOTATION WHERE ANNOTATION AS", "SELECT ANNOTATION WHERE RESOURCE \"x\" OFFSET", "SELECT ANNOTATION {", "@"]); format!("{}{}", kw, self.rng.pick(&["", " ", ";", " ;", "\u{3000}", " \u{e9}"])) } // keyword with missing operands
            10 => s.replace('"', ""),
            _ => { let w = *self.rng.pick(&["\u{3000}", "\u{a0}", "\t", "\r\n"]); s.replace(' ', w) }                // other white space
        }
    }
}

fn parse_guarded(s: &str) -> Result<Result<String, String>, String> {
    // the structure of the parsed query (Debug rendering), or the error
    guarded(std::panic::AssertUnwindSafe(|| match Query::try_from(s) { Ok(q) => Ok(format!("{:?}", q)), Err(e) => Err(format!("{}", e)) }))
}

fn constraint_kind(debug: &str, other: &str) -> String {
    // first position where the two renderings differ: name the enclosing identifier
    let a: Vec<char> = debug.chars().collect();
    let b: Vec<char> = other.chars().collect();
    let mut i = 0;
    while i < a.len() && i < b.len() && a[i] == b[i] { i += 1; }
    let mut j = i.min(a.len());
    // walk back to the last '(' or '{' and take the identifier before it
    let mut depth = 0i32;
    while j > 0 {
        j -= 1;
        match a[j] { ')' | '}' | ']' => depth += 1, '(' | '{' | '[' => { if depth == 0 { break; } depth -= 1; } _ => {} }
    }
    let mut k = j;
    while k > 0 && (a[k - 1].is_alphanumeric() || a[k - 1] == '_') { k -= 1; }
    let id: String = a[k..j].iter().collect();
    if id.is_empty() { "top".into() } else { id }
}

pub fn check_wellformed(rep: &mut Report, s0: &str) {
    let ctx = vec![format!("query: {}", s0)];
    let loc = || last_panic_loc();
    // parse
    let q1 = guarded(std::panic::AssertUnwindSafe(|| Query::try_from(s0).map(|q| (format!("{:?}", q), q.to_string().map_err(|e| format!("{}", e)))).map_err(|e| format!("{}", e))));
    let (d1, t1) = match q1 {
        Err(m) => { rep.fail("panic", &format!("C09/parse-panics/{}", loc()), ctx, "Ok or Err", &m); return; }
        Ok(Err(_)) => { rep.count("wellformed:refused"); return; }
        Ok(Ok(x)) => x,
    };
    rep.count("wellformed:parsed");
    let t1 = match t1 { Ok(t) => t, Err(e) => {
        rep.count("wellformed:not-printable");
        // a query that came out of the parser has a text
        rep.fail("oracle", &format!("C09/parsed-query-cannot-be-printed/{}", if d1.contains("Or(") { "value-list" } else { "other" }), ctx, "a parsed query is printed", &e.chars().take(160).collect::<String>());
        return; } };
    rep.count("wellformed:printed");
    let q2 = guarded(std::panic::AssertUnwindSafe(|| Query::try_from(t1.as_str()).map(|q| (format!("{:?}", q), q.to_string().map_err(|e| format!("{}", e)))).map_err(|e| format!("{}", e))));
    let mut c2 = ctx.clone();
    c2.push(format!("printed: {}", t1));
    match q2 {
        Err(m) => rep.fail("panic", &format!("C09/reparse-panics/{}", loc()), c2, "Ok", &m),
        Ok(Err(e)) => {
            let cls = first_keyword_near_error(&t1, &e);
            rep.fail("oracle", &format!("C09/printed-query-does-not-parse/{}", cls), c2, "the printed query parses", &e.chars().take(200).collect::<String>());
        }
        Ok(Ok((d2, t2))) => {
            if d2 != d1 {
                rep.fail("oracle", &format!("C09/structure-differs/{}", constraint_kind(&d1, &d2)), c2.clone(), &d1, &d2);
            }
            match t2 {
                Ok(t2) if t2 == t1 => {}
                Ok(t2) => rep.fail("oracle", "C09/second-print-differs", c2, &t1, &t2),
                Err(e) => rep.fail("oracle", "C09/second-print-fails", c2, &t1, &e),
            }
        }
    }
}

fn first_keyword_near_error(printed: &str, err: &str) -> String {
    for kw in ["OPTIONAL", "RECURSIVE", "AS METADATA", "OFFSET", "LIMIT", "SUBSTORE", "RELATION", "REGEX", "NOCASE", "ADD", "DELETE", "@"] {
        if printed.contains(kw) && (err.contains(kw.split(' ').last().unwrap()) || kw == "@") { return kw.replace(' ', "-"); }
    }
    "other".into()
}

pub fn check_malformed(rep: &mut Report, s: &str) {
    rep.count("malformed:tried");
    match parse_guarded(s) {
        Err(m) => rep.fail("panic", &format!("C09/parse-panics/{}", last_panic_loc()), vec![format!("query: {}", s), format!("hex: {}", hex(s))], "Ok or Err", &m),
        Ok(Ok(_)) => rep.count("malformed:accepted"),
        Ok(Err(_)) => rep.count("malformed:refused"),
    }
}

/// canonical rendering of a parsed constraint of the kinds the Lean model covers (StamModel/StamqlC.lean); None for the others
/// an operator as `{:?}` prints it, except that strings are written in hex (Rust's Debug escapes characters by a
/// Unicode table the model does not have)
fn show_op(op: &DataOperator) -> String {
    match op {
        DataOperator::Equals(s) => format!("Equals({})", hex(s)),
        DataOperator::Not(b) => format!("Not({})", show_op(b)),
        DataOperator::Or(v) => format!("Or([{}])", v.iter().map(show_op).collect::<Vec<_>>().join(", ")),
        DataOperator::And(v) => format!("And([{}])", v.iter().map(show_op).collect::<Vec<_>>().join(", ")),
        other => format!("{:?}", other),
    }
}

fn show_off(off: &Option<Offset>) -> String {
    let c = |c: &Cursor| match c { Cursor::BeginAligned(n) => format!("b{}", n), Cursor::EndAligned(n) => format!("e{}", n) };
    match off { None => "-".into(), Some(o) => format!("{}:{}", c(&o.begin), c(&o.end)) }
}

fn render_cn(c: &Constraint) -> Option<String> {
    let q = |x: &SelectionQualifier| if *x == SelectionQualifier::Metadata { "M" } else { "N" };
    Some(match c {
        Constraint::Id(s) => format!("id {}", hex(s)),
        Constraint::DataSet(s, x) => format!("dataset {} {}", hex(s), q(x)),
        Constraint::DataSetVariable(v, x) => format!("datasetvar {} {}", hex(v), q(x)),
        Constraint::SubStore(Some(s)) => format!("substore {}", hex(s)),
        Constraint::SubStore(None) => "substore ~".to_string(),
        Constraint::SubStoreVariable(v) => format!("substorevar {}", hex(v)),
        Constraint::Text(s, m) => format!("text {} {}", hex(s), if *m == TextMode::CaseInsensitive { 1 } else { 0 }),
        Constraint::TextVariable(v) => format!("textvar {}", hex(v)),
        Constraint::Regex(r) => format!("regex {}", hex(r.as_str())),
        Constraint::DataKey { set, key, qualifier } => format!("datakey {} {} {}", hex(set), hex(key), q(qualifier)),
        Constraint::KeyValue { set, key, operator, qualifier } => format!("keyvalue {} {} {} {}", hex(set), hex(key), q(qualifier), show_op(operator)),
        Constraint::DataVariable(v, x) => format!("datavar {} {}", hex(v), q(x)),
        Constraint::KeyValueVariable(v, operator, x) => format!("keyvaluevar {} {} {}", hex(v), q(x), show_op(operator)),
        Constraint::Annotation(s, x, depth, off) => format!("annotation {} {} {} {}", hex(s), q(x), (*depth == AnnotationDepth::Max) as u8, show_off(off)),
        Constraint::AnnotationVariable(v, x, depth, off) => format!("annotationvar {} {} {} {}", hex(v), q(x), (*depth == AnnotationDepth::Max) as u8, show_off(off)),
        Constraint::TextResource(s, x, off) => format!("resource {} {} {}", hex(s), q(x), show_off(off)),
        Constraint::ResourceVariable(v, x, off) => format!("resourcevar {} {} {}", hex(v), q(x), show_off(off)),
        Constraint::TextRelation { var, operator } => format!("relation {} {}", hex(var), operator.as_str()),
        Constraint::Value(operator, x) => format!("value {} {}", q(x), show_op(operator)),
        Constraint::KeyVariable(v, x) => format!("keyvar {} {}", hex(v), q(x)),
        Constraint::Limit { begin, end } => format!("limit {} {}", begin, end),
        _ => return None,
    })
}

/// `ql cn <hex text> <regexes valid>`: `Constraint::parse` on the text, and `to_string` of what it parsed
fn cn_exec(text: &str) -> String {
    match guarded(std::panic::AssertUnwindSafe(|| stam::verif_hooks::verif_parse_constraint(text).map(|(c, r)| (render_cn(&c), r.to_string(), c.to_string().ok())).map_err(|e| format!("{}", e)))) {
        Err(m) => format!("panic:{}", m.chars().take(60).collect::<String>()),
        Ok(Err(_)) => "err".into(),
        Ok(Ok((None, _, _))) => "unmodelled".into(),
        Ok(Ok((Some(r), rest, printed))) => format!("ok | {} | {} | {}", r, hex(&rest), match (&printed, r.contains("var ")) { (Some(p), false) => hex(p), _ => "~".into() }),
    }
}

/// canonical rendering of a parsed query of the kinds the Lean model covers (StamModel/StamqlQ.lean): SELECT queries
/// without attributes whose constraints are all of the modelled kinds
fn render_q(q: &Query) -> Option<String> {
    if q.querytype() != QueryType::Select || q.attributes().next().is_some() { return None; }
    let ty = match q.resulttype()? { Type::Annotation => "ANNOTATION", Type::AnnotationData => "DATA", Type::DataKey => "KEY", Type::TextSelection => "TEXT", Type::TextResource => "RESOURCE", Type::AnnotationDataSet => "DATASET", _ => return None };
    let mut cs = vec![];
    for (c, attrs) in q.constraints_with_attributes() { if !attrs.is_empty() { return None; } cs.push(render_cn(c)?); }
    let mut subs = vec![];
    for sq in q.subqueries() { subs.push(render_q(sq)?); }
    Some(format!("(S {} {} {} [{}] {{{}}})", (q.qualifier() == QueryQualifier::Optional) as u8, ty, q.name().map(|n| hex(n)).unwrap_or_else(|| "~".into()), cs.join("; "), subs.join(" ")))
}

/// canonical rendering of an ADD or DELETE query (StamModel/StamqlA.lean)
fn render_mut(q: &Query, text: &str) -> Option<String> {
    // a float is named by the literal of the text that has its value (the model keeps the literal; that the value is the
    // one Rust's `f64::from_str` gives for it is what this says)
    let float_lit = |f: f64| -> String {
        text.split(|c: char| c.is_whitespace() || c == ';' || c == '"').find(|t| t.contains('.') && t.chars().all(|c| c.is_ascii_digit() || c == '.' || c == '-') && t.parse::<f64>().ok() == Some(f)).map(|t| t.to_string()).unwrap_or_else(|| format!("{:?}", f))
    };
    if q.attributes().next().is_some() || q.resulttype() != Some(Type::Annotation) { return None; }
    let name = q.name().map(|n| hex(n)).unwrap_or_else(|| "~".into());
    let mut subs = vec![];
    for sq in q.subqueries() { subs.push(render_q(sq)?); }
    match q.querytype() {
        QueryType::Delete => Some(format!("(D {} {{{}}})", name, subs.join(" "))),
        QueryType::Add => {
            let mut asgs = vec![];
            for a in q.assignments() {
                asgs.push(match a {
                    Assignment::Id(s) => format!("id:{}", hex(s)),
                    Assignment::Data { set, key, value } => format!("data:{}:{}:{}", hex(set), hex(key), match value { DataValue::Null => "n".to_string(), DataValue::Bool(b) => format!("b{}", *b as u8), DataValue::Int(i) => format!("i{}", i), DataValue::Float(f) => format!("f{}", float_lit(*f)), DataValue::String(s) => format!("s{}", hex(s)), _ => return None }),
                    Assignment::Target { name, offset } => format!("target:{}:{}", hex(name), show_off(offset)),
                    Assignment::ComplexTarget(k) => format!("complex:{}", match k { SelectorKind::CompositeSelector => "composite", SelectorKind::MultiSelector => "multi", SelectorKind::DirectionalSelector => "directional", _ => return None }),
                    _ => return None,
                });
            }
            Some(format!("(A {} [{}] {{{}}})", name, asgs.join("; "), subs.join(" ")))
        }
        _ => None,
    }
}

/// is every float of an ADD query's assignments written in the text in the form the code prints (`{}`, and `.0` when
/// that has no period)? The model prints the literal it read: printed texts are compared only then.
fn floats_canonical(q: &Query, text: &str) -> bool {
    q.assignments().all(|a| match a {
        Assignment::Data { value: DataValue::Float(f), .. } => {
            let mut p = format!("{}", f);
            if !p.contains('.') && f.is_finite() { p += ".0"; }
            text.split(|c: char| c.is_whitespace() || c == ';' || c == '"').any(|t| t == p) && !text.split(|c: char| c.is_whitespace() || c == ';' || c == '"').any(|t| t != p && t.contains('.') && t.parse::<f64>().ok() == Some(*f))
        }
        _ => true,
    })
}

/// `ql q <hex text> <bad regexes> [noprint]`: `Query::parse` on the text (structure, remainder), and `to_string` of what it
/// parsed; the flag says whether the printed text is compared
fn q_exec(text: &str) -> (String, bool) {
    match guarded(std::panic::AssertUnwindSafe(|| Query::parse(text).map(|(q, r)| {
        let select = q.querytype() == QueryType::Select;
        let with_print = select || floats_canonical(&q, text);
        (if select { render_q(&q) } else { render_mut(&q, text) }, r.to_string(), if with_print { q.to_string().ok() } else { None }, with_print)
    }).map_err(|e| format!("{}", e)))) {
        Err(m) => (format!("panic:{}", m.chars().take(60).collect::<String>()), true),
        Ok(Err(_)) => ("err".into(), true),
        Ok(Ok((None, _, _, _))) => ("unmodelled".into(), true),
        Ok(Ok((Some(r), rest, printed, with_print))) => (format!("ok | {} | {} | {}", r, hex(&rest), match (&printed, r.contains("var ")) { (Some(p), false) => hex(p), _ => "~".into() }), with_print),
    }
}

/// may the text be sent to the model? (the model takes the verdicts of chrono, str::parse::<f64> and the regex library as
/// parameters instantiated with simple recognisers; the line is sent only when those agree with the libraries on every token)
fn model_safe(text: &str) -> Option<String> {
    let quotes: Vec<usize> = text.char_indices().filter(|(_, c)| *c == '"').map(|(i, _)| i).collect();
    if quotes.len() > 14 { return None; }
    // the WITH clause of an ADD query (what precedes the block of sub-queries): a float there is compared by its literal
    // (render_mut), whatever its form
    let with_clause = if text.trim_start().starts_with("ADD") { text.find('{').unwrap_or(text.len()) } else { 0 };
    for tok in text.split(|c: char| c.is_whitespace() || c == ';' || c == '|' || c == ']' || c == '"') {
        if tok.is_empty() { continue; }
        let at = tok.as_ptr() as usize - text.as_ptr() as usize;
        let numeric_shape = tok.chars().enumerate().all(|(i, c)| c.is_ascii_digit() || c == '.' || (c == '-' && i == 0));
        if numeric_shape && tok.contains('.') {
            // a float literal: the model keeps the literal, the implementation prints the number
            match tok.parse::<f64>() { Ok(f) if format!("{:?}", f) == tok || (at < with_clause && f.is_finite()) => {} Ok(_) => return None, Err(_) => {} }
        }
        let b = tok.as_bytes();
        if b.len() >= 5 && b[..4].iter().all(|c| c.is_ascii_digit()) && b[4] == b'-' && !["2024-03-01T12:30:00+01:00", "2024-01-01T00:00:00+00:00"].contains(&tok) { return None; }
    }
    // every piece between two quotes that the regex library refuses
    let mut bad: Vec<String> = vec![];
    for (a, i) in quotes.iter().enumerate() { for j in &quotes[a + 1..] { let piece = &text[i + 1..*j]; if regex::Regex::new(piece).is_err() { let h = hex(piece); if !bad.contains(&h) { bad.push(h); } } } }
    // and every unquoted argument (get_arg ends one at ';', ' ', ']', newline or tab)
    for tok in text.split(|c: char| c == ';' || c == ' ' || c == ']' || c == '\n' || c == '\t') { if !tok.is_empty() && regex::Regex::new(tok).is_err() { let h = hex(tok); if !bad.contains(&h) { bad.push(h); } } }
    Some(if bad.is_empty() { "-".into() } else { bad.join(",") })
}

/// whole queries against the Lean model of the query layer: generated, printed and damaged texts
pub fn query_model_stream(rep: &mut Report, g: &mut QGen, n: usize) {
    let mut send = |rep: &mut Report, text: &str, class: &str| {
        let bad = match model_safe(text) { Some(b) => b, None => { rep.count("q:not-sent"); return; } };
        let (a, with_print) = q_exec(text);
        rep.count(&format!("q:{}:{}", class, a.split(' ').next().unwrap_or("?")));
        if !with_print { rep.count("q:printed-text-not-compared(float literal not in printed form)"); }
        if class == "add" && a == "err" && std::env::var("VERIF_DEBUG").is_ok() { eprintln!("ADD-ERR {:?} -> {:?}", text, Query::parse(text).map(|_| ()).map_err(|e| format!("{}", e))); }
        let line = format!("ql q {} {}{}", hex(text), bad, if with_print { "" } else { " noprint" });
        rep.model_case(vec![line], vec![a], "query");
    };
    for _ in 0..n {
        let s0 = g.select_modelled(0);
        send(rep, &s0, "generated");
        // what the implementation prints for it (the text the fixpoint is about)
        if let Ok((q, _)) = Query::parse(&s0) { if let Ok(t) = q.to_string() { send(rep, &t, "printed"); let m = g.mutate(&t); send(rep, &m, "printed-damaged"); } }
        for _ in 0..2 { let m = g.mutate(&s0); send(rep, &m, "damaged"); }
        let s1 = g.query();
        send(rep, &s1, "any");
        // ADD and DELETE queries (StamModel/StamqlA.lean): every assignment kind, around a sub-query of the modelled kinds
        let sub = g.select_modelled(1);
        let mut asgs: Vec<String> = vec![];
        for _ in 0..g.rng.below(5) {
            asgs.push(match if g.rng.chance(88) { *g.rng.pick(&[0usize, 1, 2, 3, 4, 6, 10, 11, 12]) } else { g.rng.below(9) } {
                10 => format!("ID {}", *g.rng.pick(&["\"new\"", "new"])),
                11 => format!("DATA \"s\" \"k\" {}", *g.rng.pick(&["5", "-3", "2.5", "\"v\"", "v", "true", "false", "null", "0.00001", "-0.0000002", "123456789012345678901.5", "10000000000000000.0", "3.00", "\"two words\""])),
                12 => format!("TARGET ?a OFFSET {} {}", *g.rng.pick(&["0", "1", "-3", "WHOLE"]), *g.rng.pick(&["5", "-1", "-0", ""])),
                0 => format!("ID {}", *g.rng.pick(&["\"new\"", "new", "\"a b\"", "\"\""])),
                1 => format!("DATA \"s\" \"k\" {}", *g.rng.pick(&["5", "-3", "2.5", "\"v\"", "v", "true", "false", "null", "a|b", "2024-01-01T00:00:00+00:00", "9999999999999999999999", ""])),
                2 => "DATA \"s\" \"k\"".to_string(),
                3 => format!("TARGET ?{}", *g.rng.pick(&["a", "x", "b"])),
                4 => format!("TARGET ?a OFFSET {} {}", *g.rng.pick(&["0", "1", "-3", "WHOLE", "ALL", "x"]), *g.rng.pick(&["5", "-1", "-0", "", "y"])),
                5 => "TARGET".to_string(),
                6 => format!("{} ", *g.rng.pick(&["COMPOSITE", "MULTI", "DIRECTIONAL"])),
                7 => (*g.rng.pick(&["COMPOSITE", "MULTI", "DIRECTIONAL"])).to_string(),
                _ => (*g.rng.pick(&["TEXT \"x\"", "SELECT", "WITH", "id \"x\""])).to_string(),
            });
        }
        let name = *g.rng.pick(&["?n ", "", "?new ", "?n ", "?x ", "?n; "]);
        let with = if asgs.is_empty() { *g.rng.pick(&["", "WITH "]) } else { *g.rng.pick(&["WITH ", "WITH ", "WITH ", "", "with "]) };
        let body = if asgs.is_empty() && g.rng.chance(80) { String::new() } else { format!("{};", asgs.join("; ")) };
        let with = if asgs.is_empty() && body.is_empty() { "" } else { with };
        let add = format!("ADD {} {}{}{}{}{{ {} }}", *g.rng.pick(&["ANNOTATION", "ANNOTATION", "ANNOTATION", "ANNOTATION", "annotation", "DATA"]), name, with, body, *g.rng.pick(&[" ", "", "\n"]), sub);
        send(rep, &add, "add");
        // what the implementation prints for it (the text the fixpoint is about)
        if let Ok((q, _)) = Query::parse(&add) { if let Ok(t) = q.to_string() { send(rep, &t, "add-printed"); } }
        let m = g.mutate(&add); send(rep, &m, "add-damaged");
        // and one within the grammar: any number of assignments of every kind
        {
            let n = g.rng.below(6);
            let a: Vec<String> = (0..n).map(|_| match g.rng.below(7) {
                0 => format!("ID {};", g.q()),
                1 | 2 => format!("DATA {} {} {};", g.q(), g.q(), *g.rng.pick(&["5", "-3", "2.5", "\"v\"", "true", "false", "0.00001", "-0.0000002", "123456789012345678901.5", "10000000000000000.0", "3.00", "\"two words\"", "0", "-0.5"])),
                3 => format!("DATA {} {};", g.q(), g.q()),
                4 => format!("TARGET ?{} OFFSET {} {};", *g.rng.pick(&["a", "x"]), *g.rng.pick(&["0", "1", "-3"]), *g.rng.pick(&["5", "-1", "-0"])),
                5 => format!("TARGET ?{};", *g.rng.pick(&["a", "x", "b"])),
                _ => format!("{} ;", *g.rng.pick(&["COMPOSITE", "MULTI", "DIRECTIONAL"])),
            }).collect();
            let ws = *g.rng.pick(&[" ", "\n", "\n\t", "  "]);
            let good = format!("ADD ANNOTATION{}{}{}{}", *g.rng.pick(&[" ?n", "", " ?new"]), if n > 0 { format!(" WITH{}{}", ws, a.join(ws)) } else { String::new() }, ws, if g.rng.chance(70) { format!("{{ {} }}", sub) } else { String::new() });
            send(rep, &good, "add-wellformed");
            if let Ok((q, _)) = Query::parse(&good) { if let Ok(t) = q.to_string() { send(rep, &t, "add-wellformed-printed"); let m = g.mutate(&t); send(rep, &m, "add-printed-damaged"); } }
        }
        let del = format!("DELETE {} {}{}{{ {} }}", *g.rng.pick(&["ANNOTATION", "ANNOTATION", "annotation", "TEXT"]), name, *g.rng.pick(&["", " ", "\n"]), sub);
        send(rep, &del, "delete");
        if let Ok((q, _)) = Query::parse(&del) { if let Ok(t) = q.to_string() { send(rep, &t, "delete-printed"); } }
        let m = g.mutate(&del); send(rep, &m, "delete-damaged");
    }
}

pub fn constraint_stream(rep: &mut Report) {
    let ids: [&str; 16] = ["x", "my id", "", "\u{e9}t\u{e9}", "semi;colon", "http://ex.org/ns#p", "?x", "?", "AS", "RECURSIVE", "NONE", "a OR b", "]", "TARGET", "a(b", "tab\there"];
    let quals = [SelectionQualifier::Normal, SelectionQualifier::Metadata];
    let mut texts: Vec<String> = vec![];
    let mut push = |c: Constraint| { if let Ok(t) = c.to_string() { texts.push(t); } };
    for s in ids {
        push(Constraint::Id(s));
        push(Constraint::SubStore(Some(s)));
        push(Constraint::Text(s, TextMode::Exact));
        push(Constraint::Text(s, TextMode::CaseInsensitive));
        if let Ok(r) = regex::Regex::new(s) { push(Constraint::Regex(r)); }
        for q in quals {
            push(Constraint::DataSet(s, q));
            push(Constraint::DataSetVariable(s, q));
            push(Constraint::DataVariable(s, q));
            push(Constraint::DataKey { set: s, key: "k", qualifier: q });
            push(Constraint::DataKey { set: "s", key: s, qualifier: q });
        }
        push(Constraint::TextVariable(s));
        push(Constraint::SubStoreVariable(s));
    }
    push(Constraint::SubStore(None));
    for op in operators() {
        // floats whose Debug rendering is their literal
        let lit_ok = |f: &f64| format!("{:?}", f) == format!("{}", f) || format!("{:?}", f) == format!("{}.0", f);
        let ok = match &op { DataOperator::EqualsFloat(f) | DataOperator::GreaterThanFloat(f) | DataOperator::GreaterThanOrEqualFloat(f) | DataOperator::LessThanFloat(f) | DataOperator::LessThanOrEqualFloat(f) => lit_ok(f) && f.abs() < 1e15 && (*f == 0.0 || f.abs() > 1e-4) && !(*f == 0.0 && f.is_sign_negative()), DataOperator::Not(b) => match &**b { DataOperator::EqualsFloat(f) => lit_ok(f) && f.abs() < 1e15, _ => true }, _ => true };
        if !ok { continue; }
        for q in quals {
            push(Constraint::KeyValue { set: "s", key: "my key", operator: op.clone(), qualifier: q });
            push(Constraint::KeyValueVariable("v", op.clone(), q));
        }
    }
    let frags = ["DATASET AS METADATA RECURSIVE \"x\";", "DATASET AS TARGET \"x\";", "DATASET RECURSIVE x;", "DATASET AS FOO \"x\";", "DATA ?v = 5;", "DATA ?v;", "DATA ?v", "DATA \"s\" \"k\"", "DATA \"s\" \"k\" OR ", "DATA \"s\" \"k\" ]", "DATA \"s\" \"k\" >", "DATA \"s\";", "DATA  \"s\"   \"k\"  >=  3 ;", "DATA \"s\" \"k\" = \"a|b\";", "DATA \"s\" \"k\" = 1|2;", "DATA \"s\" \"k\" != 2024-01-01T00:00:00+00:00;", "DATA \"s\" \"k\" = -;", "DATA RECURSIVE \"s\" \"k\";",
        "TEXT AS REGEXP \"a(\";", "TEXT AS REGEXP \"a+\";", "TEXT AS FOO \"x\";", "TEXT AS NOCASE ?t;", "TEXT AS;", "TEXT ?;", "TEXT x y;", "SUBSTORE NONE;", "SUBSTORE \"\";", "SUBSTORE ?;", "SUBSTORE;", "ID x;", "ID;", "ID", "ID\t\"x\";", "ID\n\"x\" ; ID \"y\";", "  ID \"x\";  ", "ID \"x\"", "ID \"x\" OR ID \"y\"", "IDX \"x\";", "id \"x\";", "TEXT\u{a0}\"x\";", "DATASET\u{3000}\"x\";"];
    for f in frags { texts.push(f.to_string()); }
    let tails = ["", " ID \"y\";", " }", "\n\tTEXT \"z\"; "];
    for t in &texts {
        for tail in tails {
            let text = format!("{}{}", t, tail);
            // every quoted piece is a valid regular expression (the model takes the verdict of the regex library as a parameter)
            let reok = text.split('"').skip(1).step_by(2).all(|p| regex::Regex::new(p).is_ok());
            let line = format!("ql cn {} {}", hex(&text), reok as u8);
            let a = cn_exec(&text);
            rep.count(&format!("cn:{}", a.split(' ').next().unwrap_or("?")));
            if a == "unmodelled" { continue; }
            rep.case(Some(&line));
            rep.model_case(vec![line], vec![a], "constraint");
        }
    }
}

pub fn exec_line(line: &str) -> String {
    let t: Vec<&str> = line.split_whitespace().collect();
    match t.as_slice() {
        ["ql", "cn", h, _] => cn_exec(&crate::fam::store::unhex_s(h)),
        ["ql", "q", h, _] => q_exec(&crate::fam::store::unhex_s(h)).0,
        // (the line was sent without comparing the printed text: the last field is left out again)
        ["ql", "q", h, _, "noprint"] => { let a = q_exec(&crate::fam::store::unhex_s(h)).0; match a.rfind(" | ") { Some(i) if a.starts_with("ok | ") => format!("{} | ~", &a[..i]), _ => a } }
        ["ql", "arg", ..] | ["ql", "type", ..] | ["ql", "op", ..] => lex_exec(line),
        ["ql", "parse", h] => {
            let s = crate::fam::store::unhex_s(h);
            match parse_guarded(&s) { Err(m) => format!("panic:{} @{}", m.chars().take(60).collect::<String>(), last_panic_loc()), Ok(Ok(d)) => format!("ok {}", d), Ok(Err(e)) => format!("err {}", e.chars().take(120).collect::<String>()) }
        }
        _ => "bad-op".into(),
    }
}

pub fn run(opts: &Opts) -> Report {
    let mut rep = Report::new(
        "stamql",
        "grammar-directed queries (SELECT/ADD/DELETE, OPTIONAL, six result types, every constraint kind with qualifiers, offsets, unions, limits, attributes, value types incl. lists/datetimes/extreme integers, up to two levels of sub-queries); \
         well-formed stream: parse, print, parse, print; malformed stream: 12 mutation kinds (truncation, token and character edits, Unicode white space and multi-byte characters, numeric extremes, keywords with missing operands); \
         non-trivial = the query parses and has at least two constraints or a sub-query; distinct = distinct query texts",
    );
    let n = if opts.thorough() { 40000 } else { 4000 };
    let mut g = QGen::new(opts.seed.wrapping_mul(3_000_017));
    for i in 0..n {
        let s0 = g.query();
        let nontrivial = s0.matches(';').count() >= 2 || s0.contains('{');
        rep.case(if nontrivial { Some(&s0) } else { None });
        check_wellformed(&mut rep, &s0);
        for _ in 0..3 {
            let m = g.mutate(&s0);
            check_malformed(&mut rep, &m);
        }
        if i == 0 { rep.sample(json!({"query": s0})); }
    }
    // every kind of constraint ending (quoted, unquoted, number, union bracket, with and without the semicolon) followed by
    // every kind of white space (also wider than one byte) and then a sub-query block, a bar or a closing brace: the
    // places where the parser slices at fixed byte widths
    {
        let bodies = ["ID \"a\"", "ID a", "[ ID \"a\" ]", "[ ID \"a\" OR ID \"b\" ]", "DATA \"s\" \"k\" = 5", "DATA \"s\" \"k\"", "TEXT \"x\"", "LIMIT 3", "LIMIT 1 2", "ANNOTATION ?a", "RESOURCE \"r\" OFFSET 0 5", "RELATION ?x EMBEDS", "SUBSTORE NONE", "VALUE = \"v\"", "KEY ?k"];
        let wss = ["", " ", "\u{a0}", "\u{3000}", "\t", "\n", "\r\n", "\u{2028}", "\u{85}", " \u{a0} "];
        let nexts = ["{ SELECT ANNOTATION }", "{ SELECT ANNOTATION ?b | SELECT DATA ?c }", "{", "}", "|", "{\u{a0}SELECT ANNOTATION\u{a0}}", "{ SELECT ANNOTATION\u{3000}|\u{3000}SELECT DATA }"];
        for b in bodies { for semi in ["", ";"] { for w in wss { for nx in nexts {
            let q = format!("SELECT ANNOTATION ?a WHERE {}{}{}{}", b, semi, w, nx);
            check_malformed(&mut rep, &q);
            let q2 = format!("SELECT ANNOTATION ?a{}{}", w, nx);
            check_malformed(&mut rep, &q2);
            let q3 = format!("DELETE ANNOTATION ?a{}{{ SELECT ANNOTATION ?a WHERE {}{}{}}}", w, b, semi, w);
            check_malformed(&mut rep, &q3);
        } } } }
        // white space between the last constraint of a sub-query and the `}` or `|` that follows is no part of the query:
        // with it the text is read as without it (the same structure, or refused both)
        let verdict = |q: &str| -> String { match guarded(std::panic::AssertUnwindSafe(|| Query::parse(q).map(|(q, r)| format!("{}|{}", q.to_string().unwrap_or_else(|e| format!("unprintable {}", e)), r)).map_err(|_| ()))) { Ok(Ok(t)) => format!("ok {}", t), Ok(Err(())) => "refused".into(), Err(m) => format!("PANIC {}", m.chars().take(60).collect::<String>()) } };
        for b in bodies { for semi in ["", ";"] { for head in ["SELECT ANNOTATION ?a WHERE ID \"x\";", "DELETE ANNOTATION ?a"] { for closer in ["}", "| SELECT DATA ?c }"] {
            // (the reference is one space: without any, an unquoted argument runs into the brace)
            let plain = format!("{} {{ SELECT ANNOTATION ?b WHERE {}{} {}", head, b, semi, closer);
            let v0 = verdict(&plain);
            // (an unquoted argument ends at ASCII white space only: other white space is tried after a quote, a bracket or a semicolon)
            let closed_end = semi == ";" || b.ends_with('"') || b.ends_with(']');
            let tried: Vec<&str> = if closed_end { wss.iter().skip(2).cloned().chain(["  ", " \n\t "]).collect() } else { vec!["\t", "\n", "  ", " \n\t "] };
            for w in tried.iter() {
                let q = format!("{} {{ SELECT ANNOTATION ?b WHERE {}{}{}{}", head, b, semi, w, closer);
                rep.count("whitespace-before-closer");
                rep.case(Some(&q));
                let v = verdict(&q);
                if v != v0 { rep.fail(if v.starts_with("PANIC") { "panic" } else { "oracle" }, "C09/whitespace-before-closer-changes-the-reading", vec![format!("query: {}", q), format!("hex: {}", hex(&q)), format!("with one space: {}", plain)], &v0, &v); }
            }
        } } } }
    }
    // texts at the edges of the lexical grammar (numbers beyond the float range, quoted arguments that spell a variable or a
    // keyword, an unquoted argument ending in a backslash, value lists)
    {
        let huge = format!("1{}.0", "0".repeat(310));
        let edge: Vec<(&str, String)> = vec![
            ("float-beyond-the-range", format!("SELECT DATA WHERE VALUE = {};", huge)), ("float-beyond-the-range", format!("SELECT DATA WHERE VALUE > -{};", huge)), ("float-beyond-the-range", format!("SELECT DATA WHERE DATA \"s\" \"k\" = {};", huge)),
            ("quoted-argument-that-begins-with-a-question-mark", "SELECT TEXT WHERE TEXT \"?why not\";".into()), ("quoted-argument-that-begins-with-a-question-mark", "SELECT ANNOTATION WHERE ANNOTATION \"?a b\";".into()), ("quoted-argument-that-begins-with-a-question-mark", "SELECT TEXT WHERE TEXT \"?x\";".into()),
            ("unquoted-argument-that-ends-in-a-backslash", "SELECT ANNOTATION WHERE ID C:\\dir\\;".into()), ("unquoted-argument-that-ends-in-a-backslash", "SELECT DATA WHERE VALUE = a\\;".into()),
            ("quoted-argument-that-spells-a-qualifier", "SELECT TEXT WHERE RESOURCE RECURSIVE \"AS\";".into()), ("quoted-argument-that-spells-a-qualifier", "SELECT TEXT WHERE RESOURCE RECURSIVE \"RECURSIVE\";".into()),
            ("value-list", "SELECT DATA WHERE DATA \"s\" \"k\" = a|b;".into()), ("value-list", "SELECT DATA WHERE DATA \"s\" \"k\" != 1|2;".into()), ("value-list", "SELECT DATA WHERE VALUE = \"a|b\";".into()),
        ];
        for (name, q) in &edge {
            rep.count(&format!("edge-of-the-lexical-grammar:{}", name)); rep.case(Some(q));
            let n0 = rep.failures.len();
            check_wellformed(&mut rep, q);
            // (named by the kind of input, so that a listed finding about one kind hides nothing else)
            for f in rep.failures.iter_mut().skip(n0) { f.signature = format!("C09/edge/{}", name); }
        }
    }
    built_stream(&mut rep);
    lexical_stream(&mut rep, &mut g, if opts.thorough() { 20000 } else { 2000 });
    constraint_stream(&mut rep);
    query_model_stream(&mut rep, &mut g, if opts.thorough() { 6000 } else { 600 });
    // every truncation of a few long queries (every character boundary)
    for _ in 0..(if opts.thorough() { 200 } else { 30 }) {
        let s0 = g.query();
        let cs: Vec<char> = s0.chars().collect();
        for k in 0..=cs.len() {
            let t: String = cs[..k].iter().collect();
            check_malformed(&mut rep, &t);
        }
    }
    rep
}

/// diagnostic: why are generated queries refused?
pub fn refusal_histogram(seed: u64, n: usize) {
    let mut g = QGen::new(seed);
    let mut h: std::collections::BTreeMap<String, (usize, String)> = Default::default();
    for _ in 0..n {
        let s = g.query();
        if let Ok(Err(e)) = parse_guarded(&s) {
            let k: String = e.chars().filter(|c| !c.is_ascii_digit()).take(70).collect();
            let ent = h.entry(k).or_insert((0, s.clone()));
            ent.0 += 1;
            if s.len() < ent.1.len() { ent.1 = s.clone(); }
        }
    }
    for (k, (c, s)) in h { println!("{:5} {} :: {}", c, k, s); }
}

// ---------------------------------------------------------------------------------------------
// programmatically built queries: print, parse, compare structure, print again
// ---------------------------------------------------------------------------------------------

fn offsets() -> Vec<Option<Offset>> {
    vec![None, Some(Offset::simple(0, 5)), Some(Offset::new(Cursor::BeginAligned(3), Cursor::EndAligned(0))), Some(Offset::new(Cursor::EndAligned(-4), Cursor::EndAligned(-1)))]
}

fn operators() -> Vec<DataOperator<'static>> {
    use std::borrow::Cow;
    vec![
        DataOperator::Any, DataOperator::Null, DataOperator::True, DataOperator::False,
        DataOperator::Equals(Cow::Borrowed("x")), DataOperator::Equals(Cow::Borrowed("my value")), DataOperator::Equals(Cow::Borrowed("")),
        DataOperator::Equals(Cow::Borrowed("12")), DataOperator::Equals(Cow::Borrowed("null")), DataOperator::Equals(Cow::Borrowed("true")), DataOperator::Equals(Cow::Borrowed("1.5")),
        DataOperator::Equals(Cow::Borrowed("a|b")), DataOperator::Equals(Cow::Borrowed("2024-01-01T00:00:00+00:00")),
        DataOperator::Equals(Cow::Borrowed("say \"hi\"")), DataOperator::Equals(Cow::Borrowed("back\\")),
        DataOperator::EqualsInt(0), DataOperator::EqualsInt(-7), DataOperator::EqualsInt(isize::MAX), DataOperator::EqualsInt(isize::MIN),
        DataOperator::EqualsFloat(0.0), DataOperator::EqualsFloat(3.0), DataOperator::EqualsFloat(-2.25), DataOperator::EqualsFloat(1e16), DataOperator::EqualsFloat(1e-7),
        DataOperator::EqualsFloat(1e19), DataOperator::EqualsFloat(-1e19), DataOperator::EqualsFloat(9.3e18), DataOperator::EqualsFloat(1e300), DataOperator::EqualsFloat(f64::MAX), DataOperator::EqualsFloat(-0.0), DataOperator::EqualsFloat(5e-324), DataOperator::EqualsFloat(123456789.125), DataOperator::GreaterThanFloat(-3e25), DataOperator::LessThanOrEqualFloat(18446744073709551616.0),
        DataOperator::GreaterThan(5), DataOperator::GreaterThanOrEqual(-5), DataOperator::LessThan(0), DataOperator::LessThanOrEqual(9),
        DataOperator::GreaterThanFloat(1.0), DataOperator::GreaterThanOrEqualFloat(0.5), DataOperator::LessThanFloat(-1.0), DataOperator::LessThanOrEqualFloat(2.0),
        DataOperator::Not(Box::new(DataOperator::Equals(Cow::Borrowed("x")))), DataOperator::Not(Box::new(DataOperator::EqualsInt(3))), DataOperator::Not(Box::new(DataOperator::EqualsFloat(3.0))),
        DataOperator::Not(Box::new(DataOperator::Null)), DataOperator::Not(Box::new(DataOperator::Any)), DataOperator::Not(Box::new(DataOperator::True)), DataOperator::Not(Box::new(DataOperator::False)),
        DataOperator::ExactDatetime(chrono_dt(0)), DataOperator::AfterDatetime(chrono_dt(1_700_000_000_250)), DataOperator::AtOrAfterDatetime(chrono_dt(1_700_000_000_000)), DataOperator::BeforeDatetime(chrono_dt(100_000)), DataOperator::AtOrBeforeDatetime(chrono_dt(1)),
        DataOperator::Or(vec![DataOperator::Equals(Cow::Borrowed("a")), DataOperator::Equals(Cow::Borrowed("b"))]),
        DataOperator::And(vec![DataOperator::GreaterThan(1), DataOperator::LessThan(5)]),
        DataOperator::HasElement(Cow::Borrowed("x")),
        DataOperator::Not(Box::new(DataOperator::GreaterThan(1))),
    ]
}

fn chrono_dt(ms: i64) -> DateTime<FixedOffset> { DateTime::from_timestamp_millis(ms).unwrap().fixed_offset() }

pub fn built_constraints() -> Vec<Constraint<'static>> {
    let quals = [SelectionQualifier::Normal, SelectionQualifier::Metadata];
    let depths = [AnnotationDepth::One, AnnotationDepth::Max];
    // plain identifiers, and identifiers that spell something the grammar gives a meaning to: a variable (`?x`), a
    // qualifier keyword, the NONE of SUBSTORE, the OR of a union
    let strs: [&'static str; 13] = ["x", "my id", "", "\u{e9}t\u{e9}", "semi;colon", "http://ex.org/ns#p", "?x", "?", "AS", "RECURSIVE", "NONE", "a OR b", "]"];
    let mut v: Vec<Constraint<'static>> = vec![];
    for s in strs {
        v.push(Constraint::Id(s));
        v.push(Constraint::Text(s, TextMode::Exact));
        v.push(Constraint::Text(s, TextMode::CaseInsensitive));
        v.push(Constraint::SubStore(Some(s)));
        for q in quals {
            v.push(Constraint::DataSet(s, q));
            v.push(Constraint::DataKey { set: s, key: "k", qualifier: q });
            for o in offsets() {
                v.push(Constraint::TextResource(s, q, o.clone()));
                for d in depths { v.push(Constraint::Annotation(s, q, d, o.clone())); }
            }
        }
    }
    v.push(Constraint::SubStore(None));
    for var in ["x", "sentence"] {
        v.push(Constraint::TextVariable(var));
        v.push(Constraint::SubStoreVariable(var));
        for q in quals {
            v.push(Constraint::KeyVariable(var, q));
            v.push(Constraint::DataVariable(var, q));
            v.push(Constraint::DataSetVariable(var, q));
            for o in offsets() {
                v.push(Constraint::ResourceVariable(var, q, o.clone()));
                for d in depths { v.push(Constraint::AnnotationVariable(var, q, d, o.clone())); }
            }
        }
        for op in [TextSelectionOperator::equals(), TextSelectionOperator::embeds(), TextSelectionOperator::embedded(), TextSelectionOperator::overlaps(), TextSelectionOperator::precedes(), TextSelectionOperator::succeeds(), TextSelectionOperator::samebegin(), TextSelectionOperator::sameend(), TextSelectionOperator::before(), TextSelectionOperator::after()] {
            v.push(Constraint::TextRelation { var, operator: op });
        }
    }
    for op in operators() {
        for q in quals {
            v.push(Constraint::KeyValue { set: "s", key: "k", operator: op.clone(), qualifier: q });
            v.push(Constraint::Value(op.clone(), q));
            v.push(Constraint::KeyValueVariable("x", op.clone(), q));
        }
    }
    for re in ["a+b", "[A-Z]\\w+", "x|y", "^the (big|small) dog$"] {
        v.push(Constraint::Regex(regex::Regex::new(re).unwrap()));
    }
    // every sign combination of (begin, end): the short forms `LIMIT n` / `LIMIT -n` stand for (0, n) / (-n, 0) only
    for b in [-9isize, -2, -1, 0, 1, 3] { for e in [-9isize, -2, -1, 0, 1, 5] {
        v.push(Constraint::Limit { begin: b, end: e });
    } }
    v.push(Constraint::Union(vec![Constraint::Id("a"), Constraint::Id("b")]));
    v.push(Constraint::Union(vec![Constraint::DataKey { set: "s", key: "k", qualifier: SelectionQualifier::Normal }, Constraint::KeyValue { set: "s", key: "k", operator: DataOperator::EqualsInt(1), qualifier: SelectionQualifier::Metadata }, Constraint::Text("x", TextMode::Exact)]));
    v.push(Constraint::Union(vec![Constraint::Id("a")]));
    v
}

fn check_built(rep: &mut Report, q: Query<'static>, label: &str) {
    let d0 = format!("{:?}", q);
    rep.count("built:tried");
    let t1 = match guarded(std::panic::AssertUnwindSafe(|| q.to_string())) {
        Err(m) => { rep.fail("panic", &format!("C09/print-panics/{}", last_panic_loc()), vec![format!("built: {}", d0)], "Ok or Err", &m); return; }
        Ok(Err(_)) => { rep.count("built:not-printable"); return; }
        Ok(Ok(t)) => t,
    };
    rep.count("built:printed");
    let ctx = vec![format!("built: {}", d0), format!("printed: {}", t1)];
    let q2 = guarded(std::panic::AssertUnwindSafe(|| Query::try_from(t1.as_str()).map(|q| (format!("{:?}", q), q.to_string().map_err(|e| format!("{}", e)))).map_err(|e| format!("{}", e))));
    match q2 {
        Err(m) => rep.fail("panic", &format!("C09/reparse-panics/{}", last_panic_loc()), ctx, "Ok", &m),
        Ok(Err(e)) => rep.fail("oracle", &format!("C09/built/{}/printed-query-does-not-parse", label), ctx, "the printed query parses", &e.chars().take(200).collect::<String>()),
        Ok(Ok((d2, t2))) => {
            if d2 != d0 { rep.fail("oracle", &format!("C09/built/{}/structure-differs", label), ctx.clone(), &d0, &d2); }
            match t2 {
                Ok(t2) if t2 == t1 => {}
                Ok(t2) => rep.fail("oracle", &format!("C09/built/{}/second-print", label), ctx, &t1, &t2),
                Err(e) => rep.fail("oracle", &format!("C09/built/{}/second-print", label), ctx, &t1, &e),
            }
        }
    }
}

fn label_of(c: &Constraint) -> String {
    let d = format!("{:?}", c);
    let head: String = d.chars().take_while(|c| c.is_alphanumeric()).collect();
    // operator / detail class
    let detail = if let Some(p) = d.find("operator: ") { d[p + 10..].chars().take_while(|c| c.is_alphanumeric()).collect::<String>() } else if d.contains("Max") { "Max".to_string() } else { String::new() };
    let inner = if detail == "Not" { d.split("Not(").nth(1).map(|x| x.chars().take_while(|c| c.is_alphanumeric()).collect::<String>()).unwrap_or_default() } else { String::new() };
    if d.contains("a|b") { return "string-with-pipe".into(); }
    if d.contains("say \\\"hi") || d.contains("back\\\\") { return "string-with-quote-or-backslash".into(); }
    if d == "SubStore(Some(\"\"))" { return "empty-substore-id".into(); }
    if d.contains("\"?") { return "identifier-that-reads-as-a-variable".into(); }
    if d.contains("\"AS\"") || d.contains("\"RECURSIVE\"") || d.contains("\"NONE\"") { return "identifier-that-reads-as-a-keyword".into(); }
    let fl = if d.contains("e16") || d.contains("e-7") || d.contains("1e") { "/exponent" } else { "" };
    format!("{}{}{}{}{}", head, if detail.is_empty() { "" } else { "/" }, detail, if inner.is_empty() { String::new() } else { format!("-{}", inner) }, fl)
}

pub fn built_stream(rep: &mut Report) {
    let types = [Type::Annotation, Type::AnnotationData, Type::DataKey, Type::TextSelection, Type::TextResource, Type::AnnotationDataSet];
    for (i, c) in built_constraints().into_iter().enumerate() {
        let label = label_of(&c);
        let q = Query::new(QueryType::Select, Some(types[i % types.len()]), if i % 3 == 0 { None } else { Some("v") }).with_constraint(c.clone());
        check_built(rep, q, &label);
        // as a sub-query, optional, next to a sibling
        let sub = Query::new(QueryType::Select, Some(Type::TextSelection), Some("w")).with_qualifier(if i % 2 == 0 { QueryQualifier::Optional } else { QueryQualifier::Normal }).with_constraint(c.clone());
        let sib = Query::new(QueryType::Select, Some(Type::Annotation), Some("z")).with_constraint(Constraint::Id("a"));
        let outer = Query::new(QueryType::Select, Some(Type::Annotation), Some("v")).with_constraint(Constraint::Id("o")).with_subquery(sub).with_subquery(sib);
        check_built(rep, outer, &label);
    }
    // queries without constraints, with constraint-less sub-queries
    let q = Query::new(QueryType::Select, Some(Type::Annotation), Some("v")).with_subquery(Query::new(QueryType::Select, Some(Type::AnnotationData), Some("d")));
    check_built(rep, q, "subquery-without-constraints");
    let q = Query::new(QueryType::Select, Some(Type::Annotation), None);
    check_built(rep, q, "no-constraints");
    // names the grammar cannot carry (the hypothesis NameOk of the Lean theorem query_roundtrip): white space inside or
    // at the end (also the no-break space that trim() removes), a semicolon at the end
    for name in ["a\u{a0}", "x;", "a b", "tab\tx"] {
        let q = Query::new(QueryType::Select, Some(Type::Annotation), Some(name));
        check_built(rep, q, "name-that-cannot-be-written");
        let q = Query::new(QueryType::Select, Some(Type::Annotation), Some(name)).with_constraint(Constraint::Id("a")).with_subquery(Query::new(QueryType::Select, Some(Type::TextSelection), Some(name)));
        check_built(rep, q, "name-that-cannot-be-written");
    }
    // names that look odd but are carried: empty, with braces, bars, quotes, question marks
    for name in ["", "a{", "}", "|", "\"q\"", "??", "@x", "é", "a;b"] {
        let q = Query::new(QueryType::Select, Some(Type::Annotation), Some(name)).with_constraint(Constraint::Id("a")).with_subquery(Query::new(QueryType::Select, Some(Type::TextSelection), Some(name)));
        check_built(rep, q, "odd-name");
        let q = Query::new(QueryType::Select, Some(Type::Annotation), Some(name));
        check_built(rep, q, "odd-name");
    }
    let q = Query::new(QueryType::Delete, Some(Type::Annotation), Some("v")).with_subquery(Query::new(QueryType::Select, Some(Type::Annotation), Some("v")).with_constraint(Constraint::Id("a")));
    check_built(rep, q, "delete");
}

// ---------------------------------------------------------------------------------------------
// lexical layer vs. the Lean model (hooks verif_get_arg / verif_get_arg_type / verif_parse_dataoperator)
// ---------------------------------------------------------------------------------------------

pub fn lex_exec(line: &str) -> String {
    let t: Vec<&str> = line.split_whitespace().collect();
    let un = |h: &str| crate::fam::store::unhex_s(h);
    match t.as_slice() {
        ["ql", "arg", h] => {
            let s = un(h);
            match guarded(std::panic::AssertUnwindSafe(|| stam::verif_hooks::verif_get_arg(&s))) {
                Ok(Some((a, r, ty))) => format!("ok {} {} {}", hex(&a), hex(&r), ty),
                Ok(None) => "err".into(),
                Err(m) => format!("panic:{}", m.chars().take(60).collect::<String>()),
            }
        }
        ["ql", "type", h, q] => {
            let s = un(h);
            guarded(std::panic::AssertUnwindSafe(|| stam::verif_hooks::verif_get_arg_type(&s, *q == "1"))).unwrap_or_else(|m| format!("panic:{}", m))
        }
        ["ql", "op", oh, vh, q] => {
            let (o, v) = (un(oh), un(vh));
            match guarded(std::panic::AssertUnwindSafe(|| stam::verif_hooks::verif_parse_dataoperator(&o, &v, *q == "1"))) {
                Ok(Some(d)) => format!("ok {}", d),
                Ok(None) => "err".into(),
                Err(m) => format!("panic:{}", m.chars().take(60).collect::<String>()),
            }
        }
        _ => "bad-op".into(),
    }
}

pub fn lexical_stream(rep: &mut Report, g: &mut QGen, n: usize) {
    // values whose Debug rendering is their literal (so that the model can keep literals): see DESIGN
    let safe_strs = ["x", "my value", "a.b", "http://ex.org/ns#p", "\u{e9}t\u{e9}", "semi;colon", "b]c", "OR", "1", "12", "-", "-5x", "1.2.3", ".", "-.", "1.", ".5", "true", "false", "null", "any", "TRUE", "nul", "", "a|b", "a|b|c", "1|2", "1|x|2.5", "a\\|b", "|", "x|", "2024-01-01T00:00:00+00:00", "2024-03-01T12:30:00+01:00", "2024-13-01T00:00:00+00:00", "2024-01-01", "9223372036854775807", "-9223372036854775808", "9223372036854775808", "-9223372036854775809", "007", "-0", "+5", "1.5", "-0.25", "3.0", "0.5"];
    let ops = ["=", "!=", ">", ">=", "<", "<=", "==", "", "=>", "<>"];
    for o in ops {
        for v in safe_strs {
            if v == "1." || v == ".5" { continue; } // floats whose Debug rendering is not their literal: type stream only
            for q in ["0", "1"] {
                let line = format!("ql op {} {} {}", hex(o), hex(v), q);
                let a = lex_exec(&line);
                rep.count("lex:op");
                rep.case(Some(&line));
                rep.model_case(vec![line], vec![a], "lex-op");
            }
        }
    }
    for v in safe_strs {
        for q in ["0", "1"] {
            let line = format!("ql type {} {}", hex(v), q);
            let a = lex_exec(&line);
            rep.count("lex:type");
            rep.model_case(vec![line], vec![a], "lex-type");
        }
    }
    // argument splitting: tails of generated and mutated queries, and hostile fragments
    let hostile = ["\"a b\" ; X", "\"a\\\"b\" rest", "\"unterminated", "a\"b\"c;", "x OR y", "\"x OR y\" OR z", "a;b", "a]b", "\u{e9}\u{3000}x;", "\"\u{e9}\"\u{3000}\u{a0}x", "", " ", ";", "\"\"", "\"\";", "\\\";", "a\\ b;", "\"a\\\\\" b;", "x\ty", "x\ny", "x\ry;", "\"a\nb\";"];
    for h in hostile {
        let line = format!("ql arg {}", hex(h));
        let a = lex_exec(&line);
        rep.count("lex:arg");
        rep.model_case(vec![line], vec![a], "lex-arg");
    }
    for _ in 0..n {
        let q = g.query();
        let q = if g.rng.chance(40) { g.mutate(&q) } else { q };
        let cs: Vec<char> = q.chars().collect();
        if cs.is_empty() { continue; }
        // a tail starting at a token boundary or anywhere
        let start = if g.rng.chance(70) { let sp: Vec<usize> = cs.iter().enumerate().filter(|(_, c)| **c == ' ').map(|(i, _)| i + 1).collect(); if sp.is_empty() { 0 } else { *g.rng.pick(&sp) } } else { g.rng.below(cs.len()) };
        let tail: String = cs[start.min(cs.len())..].iter().collect();
        if tail.contains('\u{0}') { continue; }
        let line = format!("ql arg {}", hex(&tail));
        let a = lex_exec(&line);
        rep.count("lex:arg");
        rep.case(Some(&line));
        rep.model_case(vec![line], vec![a], "lex-arg");
    }
}
