//! C12: code point <-> UTF-8 byte conversion on resources and sub-selections, under every
//! milestone interval / shrink setting and before/after annotations populate the position index.
use crate::common::*;
use serde_json::json;
use stam::*;

const ALPHA: [&str; 4] = ["a", "\u{e9}", "\u{20ac}", "\u{1F600}"];

fn r2s(r: &Result<Result<usize, ()>, String>) -> String {
    match r {
        Ok(Ok(n)) => format!("ok {}", n),
        Ok(Err(())) => "err".into(),
        Err(m) => format!("panic:{}", m.chars().take(50).collect::<String>()),
    }
}

fn pairs(v: &[(usize, usize)]) -> String {
    if v.is_empty() {
        "-".into()
    } else {
        v.iter().map(|(a, b)| format!("{}:{}", a, b)).collect::<Vec<_>>().join(",")
    }
}

struct W {
    store: AnnotationStore,
    widths: Vec<usize>,
    text: String,
}

fn world(text: &str, milestone: usize, shrink: bool) -> W {
    let mut store = AnnotationStore::new(Config::default().with_milestone_interval(milestone).with_shrink_to_fit(shrink));
    store.add_resource(TextResourceBuilder::new().with_id("r").with_text(text)).unwrap();
    W { store, widths: text.chars().map(|c| c.len_utf8()).collect(), text: text.to_string() }
}

fn check_all(rep: &mut Report, w: &W, cfgname: &str, phase: &str, full_sub: bool) {
    let resitem = w.store.resource("r").unwrap();
    let res: &TextResource = resitem.as_ref();
    let n = w.widths.len();
    let total: usize = w.widths.iter().sum();
    let ws = if n == 0 { "-".to_string() } else { w.widths.iter().map(|x| x.to_string()).collect::<Vec<_>>().join(",") };
    let idx: Vec<(usize, usize)> = res.verif_dump_positionindex().iter().map(|(c, b, _, _)| (*c, *b)).collect();
    let b2c = res.verif_dump_byte2charmap();
    let prefix = |p: usize| -> usize { w.widths[..p].iter().sum() };
    let boundary = |byte: usize| -> Option<usize> { (0..=n).find(|p| prefix(*p) == byte) };
    let ctx = format!("text={:?} config={} phase={}", w.text, cfgname, phase);
    // resource level
    for p in 0..=n + 2 {
        let got = guarded(std::panic::AssertUnwindSafe(|| res.utf8byte(p).map_err(|_| ())));
        let want: Result<usize, ()> = if p <= n { Ok(prefix(p)) } else { Err(()) };
        let line = format!("u8 byte {} {} {}", ws, pairs(&idx), p);
        rep.case(Some(&format!("{} {} {}", w.text, cfgname, line)));
        rep.count("utf8byte");
        if got != Ok(want) {
            rep.fail(if got.is_err() { "panic" } else { "oracle" }, &format!("utf8byte/{}", if p <= n { "in-range" } else { "beyond" }), vec![ctx.clone(), line.clone()], &r2s(&Ok(want)), &r2s(&got));
        }
        rep.model_case(vec![line], vec![r2s(&got)], "utf8byte");
    }
    for byte in 0..=total + 2 {
        let got = guarded(std::panic::AssertUnwindSafe(|| res.utf8byte_to_charpos(byte).map_err(|_| ())));
        let want: Result<usize, ()> = boundary(byte).ok_or(());
        let line = format!("u8 char {} {} {}", ws, pairs(&b2c), byte);
        rep.case(Some(&format!("{} {} {}", w.text, cfgname, line)));
        rep.count("utf8byte_to_charpos");
        if got != Ok(want) {
            rep.fail(if got.is_err() { "panic" } else { "oracle" }, &format!("charpos/{}", if want.is_ok() { "boundary" } else { "inside-or-beyond" }), vec![ctx.clone(), line.clone()], &r2s(&Ok(want)), &r2s(&got));
        }
        rep.model_case(vec![line], vec![r2s(&got)], "charpos");
    }
    // a range that ends before it begins holds nothing: no text selections, no positions, no segments — whatever the
    // index holds (milestones, selections of annotations)
    for (b, e) in [(1usize, 0usize), (n, 0), (n + 1, n), (n + 3, 1), (2, 1)] {
        let got = guarded(std::panic::AssertUnwindSafe(|| {
            let mut counts = vec![res.range(b, e).count(), res.range(b, e).rev().count(), resitem.textselections_in_range(b, e).count()];
            for m in [PositionMode::Begin, PositionMode::End, PositionMode::Both] { counts.push(res.positions_in_range(m, b, e).count()); }
            counts
        }));
        rep.count("inverted-range");
        if got != Ok(vec![0; 6]) {
            rep.fail(if got.is_err() { "panic" } else { "oracle" }, "inverted-range", vec![ctx.clone(), format!("range({}, {}), its reverse, textselections_in_range, positions_in_range in the three modes", b, e)], "nothing in any of them", &format!("{:?}", got));
        }
    }
    // sub-selections
    for b in 0..=n {
        for e in b..=n {
            if !full_sub && (b + e) % 3 != 0 {
                continue;
            }
            let sel = match resitem.textselection(&Offset::simple(b, e)) {
                Ok(s) => s,
                Err(_) => continue,
            };
            let sublen = e - b;
            let subbytes = prefix(e) - prefix(b);
            for rel in 0..=sublen + 2 {
                let got = guarded(std::panic::AssertUnwindSafe(|| sel.utf8byte(rel).map_err(|_| ())));
                let want: Result<usize, ()> = if rel <= sublen { Ok(prefix(b + rel) - prefix(b)) } else { Err(()) };
                let line = format!("u8 subbyte {} {} {} {} {}", ws, pairs(&idx), b, e, rel);
                rep.case(Some(&format!("{} {} {}", w.text, cfgname, line)));
                rep.count("sub.utf8byte");
                if got != Ok(want) {
                    rep.fail(if got.is_err() { "panic" } else { "oracle" }, &format!("sub-utf8byte/{}", if rel <= sublen { "in-range" } else { "beyond" }), vec![ctx.clone(), line.clone()], &r2s(&Ok(want)), &r2s(&got));
                }
                rep.model_case(vec![line], vec![r2s(&got)], "sub-utf8byte");
            }
            for byte in 0..=subbytes + 2 {
                let got = guarded(std::panic::AssertUnwindSafe(|| sel.utf8byte_to_charpos(byte).map_err(|_| ())));
                let want: Result<usize, ()> = if byte <= subbytes { boundary(prefix(b) + byte).map(|p| p - b).ok_or(()) } else { Err(()) };
                let line = format!("u8 subchar {} {} {} {} {} {}", ws, pairs(&idx), pairs(&b2c), b, e, byte);
                rep.case(Some(&format!("{} {} {}", w.text, cfgname, line)));
                rep.count("sub.utf8byte_to_charpos");
                if got != Ok(want) {
                    rep.fail(if got.is_err() { "panic" } else { "oracle" }, &format!("sub-charpos/{}", if want.is_ok() { "boundary" } else { "inside-or-beyond" }), vec![ctx.clone(), line.clone()], &r2s(&Ok(want)), &r2s(&got));
                }
                rep.model_case(vec![line], vec![r2s(&got)], "sub-charpos");
            }
            // text_by_offset on the sub-selection: relative range -> exactly those code points
            for b2 in 0..=sublen {
                for e2 in b2..=sublen {
                    let got = guarded(std::panic::AssertUnwindSafe(|| sel.text_by_offset(&Offset::simple(b2, e2)).map(|s| s.to_string()).map_err(|_| ())));
                    let want: String = w.text.chars().skip(b + b2).take(e2 - b2).collect();
                    rep.count("sub.text_by_offset");
                    if got != Ok(Ok(want.clone())) {
                        rep.fail(if got.is_err() { "panic" } else { "oracle" }, if b == 0 { "sub-text_by_offset/selection-at-0" } else { "sub-text_by_offset/selection-begins-after-0" }, vec![ctx.clone(), format!("selection {} {} relative range {} {}", b, e, b2, e2)], &want, &format!("{:?}", got));
                    }
                }
            }
            // text_by_offset agrees with the plain string
            let got = guarded(std::panic::AssertUnwindSafe(|| resitem.text_by_offset(&Offset::simple(b, e)).map(|s| s.to_string()).map_err(|_| ())));
            let want: String = w.text.chars().skip(b).take(e - b).collect();
            if got != Ok(Ok(want.clone())) {
                rep.fail(if got.is_err() { "panic" } else { "oracle" }, "text_by_offset", vec![ctx.clone(), format!("range {} {}", b, e)], &want, &format!("{:?}", got));
            }
        }
    }
}

/// the positions in use - where a known text selection begins or ends - are those of the annotated ranges, whatever the
/// milestone interval (milestones live in the same index and are no positions in use); and a resource that is put
/// into another store keeps its known selections
fn check_positions(rep: &mut Report, w: &W, cfgname: &str, text: &str, ranges: &[(usize, usize)]) {
    use std::collections::BTreeSet;
    let n = text.chars().count();
    let begins: BTreeSet<usize> = ranges.iter().map(|r| r.0).collect();
    let ends: BTreeSet<usize> = ranges.iter().map(|r| r.1).collect();
    let both: BTreeSet<usize> = begins.union(&ends).cloned().collect();
    let ctx = || vec![format!("text={:?} config={} annotated ranges={:?}", text, cfgname, ranges)];
    let got = guarded(std::panic::AssertUnwindSafe(|| {
        let r = w.store.resource("r").unwrap();
        let res: &TextResource = r.as_ref();
        let p = |m: PositionMode| res.positions(m).cloned().collect::<BTreeSet<usize>>();
        let pr = |m: PositionMode| res.positions_in_range(m, 0, n + 2).cloned().collect::<BTreeSet<usize>>();
        let single: BTreeSet<usize> = (0..n + 2).filter(|i| res.position(*i).is_some()).collect();
        (p(PositionMode::Begin), p(PositionMode::End), p(PositionMode::Both), pr(PositionMode::Begin), pr(PositionMode::End), pr(PositionMode::Both), single)
    }));
    rep.count("positions-in-use");
    match got {
        Err(m) => rep.fail("panic", "positions/panic", ctx(), "positions", &m),
        Ok((b, e, bo, rb, re, rbo, single)) => {
            if b != begins || rb != begins { rep.fail("oracle", "positions/begin", ctx(), &format!("{:?}", begins), &format!("positions: {:?} in range: {:?}", b, rb)); }
            if e != ends || re != ends { rep.fail("oracle", "positions/end", ctx(), &format!("{:?}", ends), &format!("positions: {:?} in range: {:?}", e, re)); }
            if bo != both || rbo != both { rep.fail("oracle", "positions/both", ctx(), &format!("{:?}", both), &format!("positions: {:?} in range: {:?}", bo, rbo)); }
            if single != both { rep.fail("oracle", "positions/position-lookup", ctx(), &format!("Some exactly at {:?}", both), &format!("Some at {:?}", single)); }
        }
    }
    // the resource, with its known selections, put into a store of its own (any milestone interval): the selections stay known
    for iv in [0usize, 1, 2, 4, 100] {
        let got = guarded(std::panic::AssertUnwindSafe(|| -> Result<Vec<(usize, usize, bool, bool)>, String> {
            let copy: TextResource = { let r = w.store.resource("r").unwrap(); let rr: &TextResource = r.as_ref(); rr.clone() };
            let mut st2 = AnnotationStore::new(Config::default().with_milestone_interval(iv));
            st2.insert(copy).map_err(|e| format!("{}", e))?;
            let r2 = st2.resource("r").ok_or("no resource")?;
            let res2: &TextResource = r2.as_ref();
            let fwd: BTreeSet<(usize, usize)> = res2.iter().map(|t| (t.begin(), t.end())).collect();
            let bwd: BTreeSet<(usize, usize)> = res2.iter().rev().map(|t| (t.begin(), t.end())).collect();
            Ok(ranges.iter().map(|(b, e)| (*b, *e, res2.known_textselection(&Offset::simple(*b, *e)).ok().flatten().is_some(), fwd.contains(&(*b, *e)) && bwd.contains(&(*b, *e)))).collect())
        }));
        rep.count("resource-moved-to-another-store");
        match got {
            Err(m) => rep.fail("panic", "moved-resource/panic", ctx(), "a store", &m),
            Ok(Err(_)) => rep.count("resource-moved:refused"),
            Ok(Ok(v)) => if let Some(x) = v.iter().find(|x| !x.2 || !x.3) { rep.fail("oracle", "moved-resource/known-selection-lost", { let mut c = ctx(); c.push(format!("the resource inserted into a new store with milestone interval {}", iv)); c }, &format!("{}-{} known and iterated in both directions", x.0, x.1), &format!("known={} iterated={}", x.2, x.3)); },
        }
    }
}

fn parse_pairs(s: &str) -> Vec<(usize, usize)> {
    if s == "-" {
        return vec![];
    }
    s.split(',').filter_map(|x| x.split_once(':').map(|(a, b)| (a.parse().unwrap_or(0), b.parse().unwrap_or(0)))).collect()
}

/// replay: rebuild a text with the given widths, interval 0, then annotate so that the position
/// index contains (at least) the listed code point positions
pub fn exec_line(line: &str) -> String {
    let t: Vec<&str> = line.split_whitespace().collect();
    if t.len() < 5 {
        return "bad-op".into();
    }
    let widths: Vec<usize> = if t[2] == "-" { vec![] } else { t[2].split(',').filter_map(|x| x.parse().ok()).collect() };
    let text: String = widths.iter().map(|w| ALPHA[(w - 1).min(3)]).collect();
    let mut w = world(&text, 0, false);
    for (c, _) in parse_pairs(t[3]) {
        if c <= widths.len() {
            let _ = w.store.annotate(AnnotationBuilder::new().with_target(SelectorBuilder::textselector("r", Offset::simple(c, c))));
        }
    }
    let resitem = w.store.resource("r").unwrap();
    let res: &TextResource = resitem.as_ref();
    let num = |i: usize| -> usize { t.get(i).and_then(|x| x.parse().ok()).unwrap_or(0) };
    let r = match t[1] {
        "byte" => guarded(std::panic::AssertUnwindSafe(|| res.utf8byte(num(4)).map_err(|_| ()))),
        "char" => guarded(std::panic::AssertUnwindSafe(|| res.utf8byte_to_charpos(num(4)).map_err(|_| ()))),
        "subbyte" => guarded(std::panic::AssertUnwindSafe(|| resitem.textselection(&Offset::simple(num(4), num(5))).map_err(|_| ()).and_then(|s| s.utf8byte(num(6)).map_err(|_| ())))),
        "subchar" => guarded(std::panic::AssertUnwindSafe(|| resitem.textselection(&Offset::simple(num(5), num(6))).map_err(|_| ()).and_then(|s| s.utf8byte_to_charpos(num(7)).map_err(|_| ())))),
        _ => return "bad-op".into(),
    };
    r2s(&r)
}

pub fn run(opts: &Opts) -> Report {
    let mut rep = Report::new(
        "utf8",
        "every text of <= L code points over widths {1,2,3,4} (exhaustive), plus seeded longer texts; every position 0..n+2 and every byte 0..len+2, \
         on the resource and on sub-selections; milestone intervals {0,1,2,3,7,100} x shrink_to_fit {on,off}; before and after annotations populate the position index; \
         every case is non-trivial (a conversion is computed); distinct = distinct (text, config, index content, query)",
    );
    let maxlen = if opts.thorough() { 5 } else { 3 };
    let intervals = [0usize, 1, 2, 3, 7, 100];
    let mut rng = Rng::new(opts.seed);
    // ---------- the position index as it is built: milestone passes (the resource entering a store, under any interval, at any
    // time) and text selections, against the Lean model PosIndex (`px` lines): the index itself (the hook's dump) and the
    // positions in use ----------
    {
        let mut r2 = Rng::new(opts.seed ^ 0x9051_7105);
        let n = if opts.thorough() { 4000 } else { 500 };
        for _ in 0..n {
            let len = 1 + r2.below(14);
            let widths: Vec<usize> = (0..len).map(|_| 1 + r2.below(4)).collect();
            let text: String = widths.iter().map(|w| match w { 1 => 'a', 2 => '\u{e9}', 3 => '\u{20ac}', _ => '\u{1f600}' }).collect();
            let mut ops: Vec<String> = vec![format!("m{}", *r2.pick(&[0usize, 1, 2, 3, 7, 100]))];
            for _ in 0..(1 + r2.below(8)) {
                // (the text is replaced: `with_string` on the resource, which then enters a new store under the interval it has)
                if r2.chance(9) { let l2 = r2.below(10); ops.push(format!("t{}", if l2 == 0 { "-".to_string() } else { (0..l2).map(|_| (1 + r2.below(4)).to_string()).collect::<Vec<_>>().join(".") })); continue; }
                if r2.chance(22) { ops.push(format!("m{}", *r2.pick(&[0usize, 1, 2, 3, 5, 100]))); }
                else { let b = r2.below(len + 1); let e = if r2.chance(12) { b } else if r2.chance(8) { len + 1 + r2.below(3) } else { b + r2.below(len + 1 - b) }; ops.push(format!("s{}.{}", b, e)); }
            }
            let line = format!("px {} {}", widths.iter().map(|w| w.to_string()).collect::<Vec<_>>().join(","), ops.join(" "));
            rep.count(if ops.iter().any(|o| o.starts_with('t')) { "position-index:with-a-text-replacement" } else if ops.iter().skip(1).any(|o| o.starts_with('m')) { "position-index:with-a-later-milestone-pass" } else { "position-index:milestones-first" });
            rep.case(Some(&line));
            match guarded(std::panic::AssertUnwindSafe(|| px_exec(&text, &ops))) {
                Ok(out) => rep.model_case(vec![line], vec![out], "position-index"),
                Err(m) => rep.fail("panic", "position-index/panic", vec![line], "an index", &m),
            }
        }
    }
    // all texts up to maxlen over the 4 widths
    let mut texts: Vec<String> = vec![String::new()];
    let mut frontier: Vec<String> = vec![String::new()];
    for _ in 0..maxlen {
        let mut next = vec![];
        for t in &frontier {
            for a in ALPHA {
                next.push(format!("{}{}", t, a));
            }
        }
        texts.extend(next.iter().cloned());
        frontier = next;
    }
    // longer seeded texts
    for _ in 0..(if opts.thorough() { 40 } else { 6 }) {
        let l = 6 + rng.below(if opts.thorough() { 40 } else { 14 });
        texts.push((0..l).map(|_| *rng.pick(&ALPHA)).collect());
    }
    rep.extra.insert("texts".into(), json!(texts.len()));
    for (ti, text) in texts.iter().enumerate() {
        let n = text.chars().count();
        for (ci, iv) in intervals.iter().enumerate() {
            for shrink in [false, true] {
                // exhaustive texts: every config for short ones; rotate configs for the bulk in quick mode
                if !opts.thorough() && n >= 3 && (ti + ci) % 3 != 0 {
                    continue;
                }
                let cfgname = format!("m{}s{}", iv, shrink as u8);
                let mut w = world(text, *iv, shrink);
                check_all(&mut rep, &w, &cfgname, "fresh", n <= 4);
                // populate the position index with annotations, then ask again
                let k = 1 + rng.below(4);
                let mut ranges: Vec<(usize, usize)> = vec![];
                for _ in 0..k {
                    let b = rng.below(n + 1);
                    let e = b + rng.below(n - b + 1);
                    if w.store.annotate(AnnotationBuilder::new().with_target(SelectorBuilder::textselector("r", Offset::simple(b, e)))).is_ok() { ranges.push((b, e)); }
                }
                check_all(&mut rep, &w, &cfgname, "annotated", n <= 4);
                check_positions(&mut rep, &w, &cfgname, text, &ranges);
                // the text of a resource is replaced (`with_string` on a resource that has a text, nothing annotated on it
                // yet): what was derived from the old text (milestones) is gone, the answers are those of the new text
                if (ti + ci) % 3 == 1 || n <= 2 {
                    for first in ["abcdefghijklmnop".to_string(), "\u{1F600}".repeat(n + 3), format!("{}\u{20ac}x", text)] {
                        let cfg = Config::default().with_milestone_interval(*iv).with_shrink_to_fit(shrink);
                        let built = guarded(std::panic::AssertUnwindSafe(|| {
                            let r = TextResource::from_string("r", first.clone(), cfg.clone()).with_string(text.clone());
                            let mut store = AnnotationStore::new(cfg.clone());
                            store.insert(r).map(|_| store).map_err(|e| format!("{}", e))
                        }));
                        rep.count("text-replaced");
                        match built {
                            Ok(Ok(store)) => { let w2 = W { store, widths: text.chars().map(|c| c.len_utf8()).collect(), text: text.to_string() }; check_all(&mut rep, &w2, &cfgname, "text-replaced", false); }
                            other => rep.fail("oracle", "utf8/text-replaced/cannot-build", vec![format!("first={:?} text={:?} config={}", first, text, cfgname)], "a resource with the new text", &format!("{:?}", other.map(|r| r.map(|_| ())))),
                        }
                    }
                }
                // the configuration of a live store is replaced (Configurable::set_config): the indices were built under
                // the old settings, the answers must not change
                if (ti + ci) % 2 == 0 {
                    let iv2 = intervals[(ci + 1 + ti % 4) % intervals.len()];
                    w.store.set_config(Config::default().with_milestone_interval(iv2).with_shrink_to_fit(!shrink));
                    check_all(&mut rep, &w, &format!("{}->m{}s{}", cfgname, iv2, !shrink as u8), "reconfigured", false);
                }
            }
        }
    }
    rep.sample(json!({"text": "a\u{e9}\u{20ac}\u{1F600}", "widths": [1,2,3,4], "config": "m2s1", "query": "utf8byte(3) -> 6; utf8byte_to_charpos(4) -> err (inside a 3-byte char)"}));
    rep.sample(json!({"text": "a\u{e9}\u{20ac}\u{1F600}", "selection": [1,3], "query": "sub.utf8byte(2) -> 5; sub.utf8byte(3) -> err"}));
    rep
}

/// the operations of a `px` line on a real resource: `m<i>` = the resource enters a store whose milestone interval is `i`
/// (the first time it is created there, later it is copied into a new store), `s<b>.<e>` = an annotation on `[b, e)`
fn px_exec(text: &str, ops: &[String]) -> String {
    let mut store: Option<AnnotationStore> = None;
    let mut last_iv = 0usize;
    for op in ops {
        if let Some(ws) = op.strip_prefix('t') {
            // the text is replaced on a copy of the resource (it keeps its configuration, index and selections until
            // `with_string` looks at them), which then enters a new store under the same interval
            let newtext: String = if ws == "-" { String::new() } else { ws.split('.').map(|w| match w { "1" => 'a', "2" => '\u{e9}', "3" => '\u{20ac}', _ => '\u{1f600}' }).collect() };
            if let Some(old) = &store {
                let copy: TextResource = { let r = old.resource("r").unwrap(); let rr: &TextResource = r.as_ref(); rr.clone() };
                let copy = copy.with_string(newtext);
                let mut st2 = AnnotationStore::new(Config::default().with_milestone_interval(last_iv));
                st2.insert(copy).expect("resource with a new text");
                store = Some(st2);
            }
            continue;
        }
        if let Some(i) = op.strip_prefix('m') {
            let iv: usize = i.parse().unwrap_or(0);
            last_iv = iv;
            let mut st2 = AnnotationStore::new(Config::default().with_milestone_interval(iv));
            match &store {
                None => { st2.add_resource(TextResourceBuilder::new().with_id("r").with_text(text.to_string())).expect("resource"); }
                // (a resource carries its own configuration: the copy is given the new store's before it enters it)
                Some(old) => { let mut copy: TextResource = { let r = old.resource("r").unwrap(); let rr: &TextResource = r.as_ref(); rr.clone() }; copy.set_config(Config::default().with_milestone_interval(iv)); st2.insert(copy).expect("moved resource"); }
            }
            store = Some(st2);
        } else if let Some(be) = op.strip_prefix('s') {
            let (b, e) = be.split_once('.').unwrap();
            if let Some(st) = store.as_mut() { let _ = st.annotate(AnnotationBuilder::new().with_target(SelectorBuilder::textselector("r", Offset::simple(b.parse().unwrap(), e.parse().unwrap()))).with_data("s", "k", "v")); }
        }
    }
    let st = store.expect("a store");
    let r = st.resource("r").unwrap();
    let res: &TextResource = r.as_ref();
    let pairs = |l: &Vec<(usize, usize)>| l.iter().map(|(a, b)| format!("{}-{}", a, b)).collect::<Vec<_>>().join(".");
    let dump = res.verif_dump_positionindex().iter().map(|(p, b, b2e, e2b)| format!("{}:{}:{}:{}", p, b, pairs(b2e), pairs(e2b))).collect::<Vec<_>>().join(",");
    let pos = |m: PositionMode| res.positions(m).map(|x| x.to_string()).collect::<Vec<_>>().join(".");
    format!("{} | {} | {} | {} | {}", dump, pos(PositionMode::Begin), pos(PositionMode::End), pos(PositionMode::Both), res.textselections_len())
}
