//! C08, third part: the iterator API. Every `filter_*` method of the six item iterators is applied to the full
//! iterator of a store reached by an operation history and compared with the plain `Iterator::filter` over the same
//! items with the documented meaning of the method as predicate (written with the per-item accessors, whose answers
//! the store model of C02 accounts for). For the data filters in `All` mode the meaning is the one the library documents
//! for annotations: one annotation carries all the items. A filter that panics (`unreachable!`) is a failure of its own kind.
use crate::common::*;
use crate::fam::store::Exec;
use stam::*;
use std::collections::BTreeSet;

type Set = BTreeSet<String>;

fn ha(a: &ResultItem<Annotation>) -> String { format!("A{}", a.handle().as_usize()) }
fn hd(d: &ResultItem<AnnotationData>) -> String { format!("D{}.{}", d.set().handle().as_usize(), d.handle().as_usize()) }
fn hk(k: &ResultItem<DataKey>) -> String { format!("K{}.{}", k.set().handle().as_usize(), k.handle().as_usize()) }
fn hr(r: &ResultItem<TextResource>) -> String { format!("R{}", r.handle().as_usize()) }
fn hs(s: &ResultItem<AnnotationDataSet>) -> String { format!("S{}", s.handle().as_usize()) }
fn ht(t: &ResultTextSelection) -> String { format!("T{}:{}-{}", t.resource().handle().as_usize(), t.begin(), t.end()) }

struct Ck<'r> { rep: &'r mut Report, script: &'r [String] }

impl<'r> Ck<'r> {
    fn cmp(&mut self, name: &str, arg: &str, got: impl FnOnce() -> Set, want: impl FnOnce() -> Set) {
        self.rep.count(&format!("iterapi:{}", name));
        self.rep.case(Some(&format!("{}|{}|{}", self.script.join("|"), name, arg)));
        let ctx = || -> Vec<String> { let mut c = self.script.to_vec(); c.push(format!("iterator: {}({})", name, arg)); c };
        let w = match guarded(std::panic::AssertUnwindSafe(want)) { Ok(w) => w, Err(_) => return };
        match guarded(std::panic::AssertUnwindSafe(got)) {
            Ok(g) => if g != w { let c = ctx(); self.rep.fail("oracle", &format!("C08/iterator-filter/{}", name), c, &format!("{:?}", w), &format!("{:?}", g)); },
            Err(p) => { let c = ctx(); self.rep.fail("panic", &format!("C08/iterator-filter-panics/{}", name), c, &format!("{:?}", w), &format!("PANIC {} @{}", p.chars().take(80).collect::<String>(), last_panic_loc())); }
        }
    }
}

pub fn check_iterators(rep: &mut Report, script: &[String], rng: &mut Rng) {
    let mut ex = Exec::new();
    for l in script { ex.exec(l); }
    let store = &ex.store;
    let mut ck = Ck { rep, script };
    let anns: Vec<ResultItem<Annotation>> = store.annotations().collect();
    let data: Vec<ResultItem<AnnotationData>> = store.data().collect();
    let keys: Vec<ResultItem<DataKey>> = store.keys().collect();
    let sets: Vec<ResultItem<AnnotationDataSet>> = store.datasets().collect();
    let ress: Vec<ResultItem<TextResource>> = store.resources().collect();
    let tsels: Vec<ResultTextSelection> = { let mut v: Vec<ResultTextSelection> = store.annotations().textselections().collect(); v.dedup_by(|a, b| ht(a) == ht(b)); v };
    if anns.is_empty() { return; }
    let a = anns[rng.below(anns.len())].clone();
    let a2 = anns[rng.below(anns.len())].clone();
    let aset = || -> Handles<Annotation> { vec![a.clone(), a2.clone()].into_iter().to_handles(store) };
    let in_aset = |x: &ResultItem<Annotation>| x.handle() == a.handle() || x.handle() == a2.handle();
    let arg_a = format!("{},{}", ha(&a), ha(&a2));
    let vals = ["v0", "v1", "v2", "1", "0"];
    let val = vals[rng.below(vals.len())];
    let op = || DataOperator::Equals(val.into());

    // ---- annotations
    ck.cmp("annotations.filter_one", &ha(&a), || store.annotations().filter_one(&a).map(|x| ha(&x)).collect(), || store.annotations().filter(|x| x.handle() == a.handle()).map(|x| ha(&x)).collect());
    ck.cmp("annotations.filter_handle", &ha(&a), || store.annotations().filter_handle(a.handle()).map(|x| ha(&x)).collect(), || store.annotations().filter(|x| x.handle() == a.handle()).map(|x| ha(&x)).collect());
    ck.cmp("annotations.filter_any", &arg_a, || store.annotations().filter_any(aset()).map(|x| ha(&x)).collect(), || store.annotations().filter(|x| in_aset(x)).map(|x| ha(&x)).collect());
    ck.cmp("annotations.filter_annotation", &ha(&a), || store.annotations().filter_annotation(&a).map(|x| ha(&x)).collect(), || store.annotations().filter(|x| x.annotations().any(|y| y.handle() == a.handle())).map(|x| ha(&x)).collect());
    for (mode, mname) in [(FilterMode::Any, "any"), (FilterMode::All, "all")] {
        ck.cmp(&format!("annotations.filter_annotations/{}", mname), &arg_a, || store.annotations().filter_annotations(aset(), mode).map(|x| ha(&x)).collect(),
            || store.annotations().filter(|x| { let by: Vec<AnnotationHandle> = x.annotations().map(|y| y.handle()).collect(); if mode == FilterMode::Any { by.contains(&a.handle()) || by.contains(&a2.handle()) } else { by.contains(&a.handle()) && by.contains(&a2.handle()) } }).map(|x| ha(&x)).collect());
        for (depth, dname) in [(AnnotationDepth::One, "one"), (AnnotationDepth::Max, "max")] {
            ck.cmp(&format!("annotations.filter_annotations_in_targets/{}/{}", mname, dname), &arg_a, || store.annotations().filter_annotations_in_targets(aset(), depth, mode).map(|x| ha(&x)).collect(),
                || store.annotations().filter(|x| { let t: Vec<AnnotationHandle> = x.annotations_in_targets(depth).map(|y| y.handle()).collect(); if mode == FilterMode::Any { t.contains(&a.handle()) || t.contains(&a2.handle()) } else { t.contains(&a.handle()) && t.contains(&a2.handle()) } }).map(|x| ha(&x)).collect());
        }
    }
    for (depth, dname) in [(AnnotationDepth::One, "one"), (AnnotationDepth::Max, "max")] {
        ck.cmp(&format!("annotations.filter_annotation_in_targets/{}", dname), &ha(&a), || store.annotations().filter_annotation_in_targets(&a, depth).map(|x| ha(&x)).collect(),
            || store.annotations().filter(|x| x.annotations_in_targets(depth).any(|y| y.handle() == a.handle())).map(|x| ha(&x)).collect());
    }
    if !data.is_empty() {
        let d = data[rng.below(data.len())].clone();
        let d2 = data[rng.below(data.len())].clone();
        let dset = || -> Handles<AnnotationData> { vec![d.clone(), d2.clone()].into_iter().to_handles(store) };
        let same = |x: &ResultItem<AnnotationData>, y: &ResultItem<AnnotationData>| x.handle() == y.handle() && x.set().handle() == y.set().handle();
        let arg_d = format!("{},{}", hd(&d), hd(&d2));
        ck.cmp("annotations.filter_annotationdata", &hd(&d), || store.annotations().filter_annotationdata(&d).map(|x| ha(&x)).collect(), || store.annotations().filter(|x| x.data().any(|y| same(&y, &d))).map(|x| ha(&x)).collect());
        for (mode, mname) in [(FilterMode::Any, "any"), (FilterMode::All, "all")] {
            ck.cmp(&format!("annotations.filter_data/{}", mname), &arg_d, || store.annotations().filter_data(dset(), mode).map(|x| ha(&x)).collect(),
                || store.annotations().filter(|x| { let (p, q) = (x.data().any(|y| same(&y, &d)), x.data().any(|y| same(&y, &d2))); if mode == FilterMode::Any { p || q } else { p && q } }).map(|x| ha(&x)).collect());
            ck.cmp(&format!("resources.filter_metadata/{}", mname), &arg_d, || store.resources().filter_metadata(dset(), mode).map(|x| hr(&x)).collect(),
                || store.resources().filter(|r| r.annotations_as_metadata().any(|x| { let (p, q) = (x.data().any(|y| same(&y, &d)), x.data().any(|y| same(&y, &d2))); if mode == FilterMode::Any { p || q } else { p && q } })).map(|x| hr(&x)).collect());
            ck.cmp(&format!("resources.filter_data_on_text/{}", mname), &arg_d, || store.resources().filter_data_on_text(dset(), mode).map(|x| hr(&x)).collect(),
                || store.resources().filter(|r| r.annotations().any(|x| { let (p, q) = (x.data().any(|y| same(&y, &d)), x.data().any(|y| same(&y, &d2))); if mode == FilterMode::Any { p || q } else { p && q } })).map(|x| hr(&x)).collect());
            ck.cmp(&format!("textselections.filter_data/{}", mname), &arg_d, || store.annotations().textselections().filter_data(dset(), mode).map(|x| ht(&x)).collect(),
                || tsels.iter().filter(|t| t.annotations().any(|x| { let (p, q) = (x.data().any(|y| same(&y, &d)), x.data().any(|y| same(&y, &d2))); if mode == FilterMode::Any { p || q } else { p && q } })).map(|x| ht(x)).collect());
        }
        // data iterator
        ck.cmp("data.filter_handle", &hd(&d), || store.data().filter_handle(d.set().handle(), d.handle()).map(|x| hd(&x)).collect(), || store.data().filter(|x| same(x, &d)).map(|x| hd(&x)).collect());
        ck.cmp("data.filter_one", &hd(&d), || store.data().filter_one(&d).map(|x| hd(&x)).collect(), || store.data().filter(|x| same(x, &d)).map(|x| hd(&x)).collect());
        ck.cmp("data.filter_data_handle", &hd(&d), || store.data().filter_data_handle(d.set().handle(), d.handle()).map(|x| hd(&x)).collect(), || store.data().filter(|x| same(x, &d)).map(|x| hd(&x)).collect());
        ck.cmp("data.filter_any", &arg_d, || store.data().filter_any(dset()).map(|x| hd(&x)).collect(), || store.data().filter(|x| same(x, &d) || same(x, &d2)).map(|x| hd(&x)).collect());
        ck.cmp("data.filter_annotation", &ha(&a), || store.data().filter_annotation(&a).map(|x| hd(&x)).collect(), || store.data().filter(|x| x.annotations().any(|y| y.handle() == a.handle())).map(|x| hd(&x)).collect());
        ck.cmp("data.filter_value", val, || store.data().filter_value(op()).map(|x| hd(&x)).collect(), || store.data().filter(|x| x.test(false, &op())).map(|x| hd(&x)).collect());
        // keys / datasets through a data item
        ck.cmp("keys.filter_one", &hd(&d), || store.keys().filter_one(&d).map(|x| hk(&x)).collect(), || store.keys().filter(|k| k.handle() == d.key().handle() && k.set().handle() == d.set().handle()).map(|x| hk(&x)).collect());
        ck.cmp("datasets.filter_one", &hd(&d), || store.datasets().filter_one(&d).map(|x| hs(&x)).collect(), || store.datasets().filter(|s| s.handle() == d.set().handle()).map(|x| hs(&x)).collect());
        ck.cmp("resources.filter_annotationdata_in_metadata", &hd(&d), || store.resources().filter_annotationdata_in_metadata(&d).map(|x| hr(&x)).collect(), || store.resources().filter(|r| r.annotations_as_metadata().any(|x| x.data().any(|y| same(&y, &d)))).map(|x| hr(&x)).collect());
        ck.cmp("resources.filter_annotationdata_on_text", &hd(&d), || store.resources().filter_annotationdata_on_text(&d).map(|x| hr(&x)).collect(), || store.resources().filter(|r| r.annotations().any(|x| x.data().any(|y| same(&y, &d)))).map(|x| hr(&x)).collect());
        ck.cmp("textselections.filter_annotationdata", &hd(&d), || store.annotations().textselections().filter_annotationdata(&d).map(|x| ht(&x)).collect(), || tsels.iter().filter(|t| t.annotations().any(|x| x.data().any(|y| same(&y, &d)))).map(|x| ht(x)).collect());
    }
    if !keys.is_empty() {
        let k = keys[rng.below(keys.len())].clone();
        let k2 = keys[rng.below(keys.len())].clone();
        let samek = |x: &ResultItem<DataKey>, y: &ResultItem<DataKey>| x.handle() == y.handle() && x.set().handle() == y.set().handle();
        let kset = || -> Handles<DataKey> { vec![k.clone(), k2.clone()].into_iter().to_handles(store) };
        let arg_k = format!("{},{}", hk(&k), hk(&k2));
        let has_k = |x: &ResultItem<Annotation>| x.data().any(|y| samek(&y.key(), &k));
        let has_kv = |x: &ResultItem<Annotation>| x.data().any(|y| samek(&y.key(), &k) && y.test(false, &op()));
        ck.cmp("annotations.filter_key", &hk(&k), || store.annotations().filter_key(&k).map(|x| ha(&x)).collect(), || store.annotations().filter(|x| has_k(x)).map(|x| ha(&x)).collect());
        ck.cmp("annotations.filter_key_handle", &hk(&k), || store.annotations().filter_key_handle(k.set().handle(), k.handle()).map(|x| ha(&x)).collect(), || store.annotations().filter(|x| has_k(x)).map(|x| ha(&x)).collect());
        ck.cmp("annotations.filter_key_value", &format!("{} = {}", hk(&k), val), || store.annotations().filter_key_value(&k, op()).map(|x| ha(&x)).collect(), || store.annotations().filter(|x| has_kv(x)).map(|x| ha(&x)).collect());
        ck.cmp("annotations.filter_key_handle_value", &format!("{} = {}", hk(&k), val), || store.annotations().filter_key_handle_value(k.set().handle(), k.handle(), op()).map(|x| ha(&x)).collect(), || store.annotations().filter(|x| has_kv(x)).map(|x| ha(&x)).collect());
        ck.cmp("data.filter_key", &hk(&k), || store.data().filter_key(&k).map(|x| hd(&x)).collect(), || store.data().filter(|x| samek(&x.key(), &k)).map(|x| hd(&x)).collect());
        ck.cmp("data.filter_key_handle", &hk(&k), || store.data().filter_key_handle(k.set().handle(), k.handle()).map(|x| hd(&x)).collect(), || store.data().filter(|x| samek(&x.key(), &k)).map(|x| hd(&x)).collect());
        ck.cmp("data.filter_key_handle_value", &format!("{} = {}", hk(&k), val), || store.data().filter_key_handle_value(k.set().handle(), k.handle(), op()).map(|x| hd(&x)).collect(), || store.data().filter(|x| samek(&x.key(), &k) && x.test(false, &op())).map(|x| hd(&x)).collect());
        ck.cmp("keys.filter_handle", &hk(&k), || store.keys().filter_handle(k.set().handle(), k.handle()).map(|x| hk(&x)).collect(), || store.keys().filter(|x| samek(x, &k)).map(|x| hk(&x)).collect());
        ck.cmp("keys.filter_key", &hk(&k), || store.keys().filter_key(&k).map(|x| hk(&x)).collect(), || store.keys().filter(|x| samek(x, &k)).map(|x| hk(&x)).collect());
        ck.cmp("keys.filter_any", &arg_k, || store.keys().filter_any(kset()).map(|x| hk(&x)).collect(), || store.keys().filter(|x| samek(x, &k) || samek(x, &k2)).map(|x| hk(&x)).collect());
        ck.cmp("keys.filter_annotation", &ha(&a), || store.keys().filter_annotation(&a).map(|x| hk(&x)).collect(), || store.keys().filter(|x| x.annotations().any(|y| y.handle() == a.handle())).map(|x| hk(&x)).collect());
        ck.cmp("resources.filter_key_in_metadata", &hk(&k), || store.resources().filter_key_in_metadata(&k).map(|x| hr(&x)).collect(), || store.resources().filter(|r| r.annotations_as_metadata().any(|x| has_k(&x))).map(|x| hr(&x)).collect());
        ck.cmp("resources.filter_key_on_text", &hk(&k), || store.resources().filter_key_on_text(&k).map(|x| hr(&x)).collect(), || store.resources().filter(|r| r.annotations().any(|x| has_k(&x))).map(|x| hr(&x)).collect());
        ck.cmp("resources.filter_key_value_in_metadata", &format!("{} = {}", hk(&k), val), || store.resources().filter_key_value_in_metadata(&k, op()).map(|x| hr(&x)).collect(), || store.resources().filter(|r| r.annotations_as_metadata().any(|x| has_kv(&x))).map(|x| hr(&x)).collect());
        ck.cmp("resources.filter_key_value_on_text", &format!("{} = {}", hk(&k), val), || store.resources().filter_key_value_on_text(&k, op()).map(|x| hr(&x)).collect(), || store.resources().filter(|r| r.annotations().any(|x| has_kv(&x))).map(|x| hr(&x)).collect());
        ck.cmp("textselections.filter_key", &hk(&k), || store.annotations().textselections().filter_key(&k).map(|x| ht(&x)).collect(), || tsels.iter().filter(|t| t.annotations().any(|x| has_k(&x))).map(|x| ht(x)).collect());
        ck.cmp("textselections.filter_key_value", &format!("{} = {}", hk(&k), val), || store.annotations().textselections().filter_key_value(&k, op()).map(|x| ht(&x)).collect(), || tsels.iter().filter(|t| t.annotations().any(|x| has_kv(&x))).map(|x| ht(x)).collect());
    }
    ck.cmp("annotations.filter_value", val, || store.annotations().filter_value(op()).map(|x| ha(&x)).collect(), || store.annotations().filter(|x| x.data().any(|y| y.test(false, &op()))).map(|x| ha(&x)).collect());
    ck.cmp("resources.filter_value_in_metadata", val, || store.resources().filter_value_in_metadata(op()).map(|x| hr(&x)).collect(), || store.resources().filter(|r| r.annotations_as_metadata().any(|x| x.data().any(|y| y.test(false, &op())))).map(|x| hr(&x)).collect());
    ck.cmp("resources.filter_value_on_text", val, || store.resources().filter_value_on_text(op()).map(|x| hr(&x)).collect(), || store.resources().filter(|r| r.annotations().any(|x| x.data().any(|y| y.test(false, &op())))).map(|x| hr(&x)).collect());
    ck.cmp("textselections.filter_value", val, || store.annotations().textselections().filter_value(op()).map(|x| ht(&x)).collect(), || tsels.iter().filter(|t| t.annotations().any(|x| x.data().any(|y| y.test(false, &op())))).map(|x| ht(x)).collect());
    if !sets.is_empty() {
        let s = sets[rng.below(sets.len())].clone();
        let s2 = sets[rng.below(sets.len())].clone();
        let sset = || -> Handles<AnnotationDataSet> { vec![s.clone(), s2.clone()].into_iter().to_handles(store) };
        let has_s = |x: &ResultItem<Annotation>| x.data().any(|y| y.set().handle() == s.handle());
        ck.cmp("annotations.filter_set", &hs(&s), || store.annotations().filter_set(&s).map(|x| ha(&x)).collect(), || store.annotations().filter(|x| has_s(x)).map(|x| ha(&x)).collect());
        ck.cmp("annotations.filter_set_handle", &hs(&s), || store.annotations().filter_set_handle(s.handle()).map(|x| ha(&x)).collect(), || store.annotations().filter(|x| has_s(x)).map(|x| ha(&x)).collect());
        ck.cmp("data.filter_set", &hs(&s), || store.data().filter_set(&s).map(|x| hd(&x)).collect(), || store.data().filter(|x| x.set().handle() == s.handle()).map(|x| hd(&x)).collect());
        ck.cmp("data.filter_set_handle", &hs(&s), || store.data().filter_set_handle(s.handle()).map(|x| hd(&x)).collect(), || store.data().filter(|x| x.set().handle() == s.handle()).map(|x| hd(&x)).collect());
        ck.cmp("keys.filter_set", &hs(&s), || store.keys().filter_set(&s).map(|x| hk(&x)).collect(), || store.keys().filter(|x| x.set().handle() == s.handle()).map(|x| hk(&x)).collect());
        ck.cmp("keys.filter_set_handle", &hs(&s), || store.keys().filter_set_handle(s.handle()).map(|x| hk(&x)).collect(), || store.keys().filter(|x| x.set().handle() == s.handle()).map(|x| hk(&x)).collect());
        ck.cmp("datasets.filter_handle", &hs(&s), || store.datasets().filter_handle(s.handle()).map(|x| hs(&x)).collect(), || store.datasets().filter(|x| x.handle() == s.handle()).map(|x| hs(&x)).collect());
        ck.cmp("datasets.filter_any", &format!("{},{}", hs(&s), hs(&s2)), || store.datasets().filter_any(sset()).map(|x| hs(&x)).collect(), || store.datasets().filter(|x| x.handle() == s.handle() || x.handle() == s2.handle()).map(|x| hs(&x)).collect());
        ck.cmp("resources.filter_set_in_metadata", &hs(&s), || store.resources().filter_set_in_metadata(&s).map(|x| hr(&x)).collect(), || store.resources().filter(|r| r.annotations_as_metadata().any(|x| has_s(&x))).map(|x| hr(&x)).collect());
        ck.cmp("resources.filter_set_on_text", &hs(&s), || store.resources().filter_set_on_text(&s).map(|x| hr(&x)).collect(), || store.resources().filter(|r| r.annotations().any(|x| has_s(&x))).map(|x| hr(&x)).collect());
        ck.cmp("textselections.filter_set", &hs(&s), || store.annotations().textselections().filter_set(&s).map(|x| ht(&x)).collect(), || tsels.iter().filter(|t| t.annotations().any(|x| has_s(&x))).map(|x| ht(x)).collect());
    }
    if !ress.is_empty() {
        let r = ress[rng.below(ress.len())].clone();
        let r2 = ress[rng.below(ress.len())].clone();
        let rset = || -> Handles<TextResource> { vec![r.clone(), r2.clone()].into_iter().to_handles(store) };
        ck.cmp("annotations.filter_resource", &hr(&r), || store.annotations().filter_resource(&r).map(|x| ha(&x)).collect(), || store.annotations().filter(|x| x.resources().any(|y| y.handle() == r.handle())).map(|x| ha(&x)).collect());
        ck.cmp("annotations.filter_resource_as_metadata", &hr(&r), || store.annotations().filter_resource_as_metadata(&r).map(|x| ha(&x)).collect(), || store.annotations().filter(|x| x.resources_as_metadata().any(|y| y.handle() == r.handle())).map(|x| ha(&x)).collect());
        ck.cmp("resources.filter_handle", &hr(&r), || store.resources().filter_handle(r.handle()).map(|x| hr(&x)).collect(), || store.resources().filter(|x| x.handle() == r.handle()).map(|x| hr(&x)).collect());
        ck.cmp("resources.filter_one", &hr(&r), || store.resources().filter_one(&r).map(|x| hr(&x)).collect(), || store.resources().filter(|x| x.handle() == r.handle()).map(|x| hr(&x)).collect());
        ck.cmp("resources.filter_any", &format!("{},{}", hr(&r), hr(&r2)), || store.resources().filter_any(rset()).map(|x| hr(&x)).collect(), || store.resources().filter(|x| x.handle() == r.handle() || x.handle() == r2.handle()).map(|x| hr(&x)).collect());
        ck.cmp("textselections.filter_resource", &hr(&r), || store.annotations().textselections().filter_resource(&r).map(|x| ht(&x)).collect(), || tsels.iter().filter(|t| t.resource().handle() == r.handle()).map(|x| ht(x)).collect());
    }
    ck.cmp("resources.filter_annotation_on_text", &ha(&a), || store.resources().filter_annotation_on_text(&a).map(|x| hr(&x)).collect(), || store.resources().filter(|r| r.annotations().any(|x| x.handle() == a.handle())).map(|x| hr(&x)).collect());
    ck.cmp("resources.filter_annotation_as_metadata", &ha(&a), || store.resources().filter_annotation_as_metadata(&a).map(|x| hr(&x)).collect(), || store.resources().filter(|r| r.annotations_as_metadata().any(|x| x.handle() == a.handle())).map(|x| hr(&x)).collect());
    for (mode, mname) in [(FilterMode::Any, "any"), (FilterMode::All, "all")] {
        ck.cmp(&format!("resources.filter_annotations_on_text/{}", mname), &arg_a, || store.resources().filter_annotations_on_text(aset(), mode).map(|x| hr(&x)).collect(),
            || store.resources().filter(|r| { let (p, q) = (r.annotations().any(|x| x.handle() == a.handle()), r.annotations().any(|x| x.handle() == a2.handle())); if mode == FilterMode::Any { p || q } else { p && q } }).map(|x| hr(&x)).collect());
        ck.cmp(&format!("resources.filter_annotations_as_metadata/{}", mname), &arg_a, || store.resources().filter_annotations_as_metadata(aset(), mode).map(|x| hr(&x)).collect(),
            || store.resources().filter(|r| { let (p, q) = (r.annotations_as_metadata().any(|x| x.handle() == a.handle()), r.annotations_as_metadata().any(|x| x.handle() == a2.handle())); if mode == FilterMode::Any { p || q } else { p && q } }).map(|x| hr(&x)).collect());
        ck.cmp(&format!("textselections.filter_annotations/{}", mname), &arg_a, || store.annotations().textselections().filter_annotations(aset(), mode).map(|x| ht(&x)).collect(),
            || tsels.iter().filter(|t| { let (p, q) = (t.annotations().any(|x| x.handle() == a.handle()), t.annotations().any(|x| x.handle() == a2.handle())); if mode == FilterMode::Any { p || q } else { p && q } }).map(|x| ht(x)).collect());
    }
    ck.cmp("textselections.filter_annotation", &ha(&a), || store.annotations().textselections().filter_annotation(&a).map(|x| ht(&x)).collect(), || tsels.iter().filter(|t| t.annotations().any(|x| x.handle() == a.handle())).map(|x| ht(x)).collect());
    if !tsels.is_empty() {
        let t = tsels[rng.below(tsels.len())].clone();
        let same_t = |x: &ResultTextSelection| x.resource().handle() == t.resource().handle() && x.begin() == t.begin() && x.end() == t.end();
        if let Some(h) = t.handle() { ck.cmp("textselections.filter_handle", &ht(&t), || store.annotations().textselections().filter_handle(t.resource().handle(), h).map(|x| ht(&x)).collect(), || tsels.iter().filter(|x| same_t(x)).map(|x| ht(x)).collect()); }
        if let Some(text) = Some(t.text().to_string()) {
            if !text.is_empty() {
                ck.cmp("textselections.filter_text", &text, || store.annotations().textselections().filter_text(text.clone(), true).map(|x| ht(&x)).collect(), || tsels.iter().filter(|x| x.text() == text).map(|x| ht(x)).collect());
                ck.cmp("textselections.filter_text/nocase", &text, || store.annotations().textselections().filter_text(text.clone(), false).map(|x| ht(&x)).collect(), || tsels.iter().filter(|x| x.text().to_lowercase() == text.to_lowercase()).map(|x| ht(x)).collect());
            }
        }
    }
}
