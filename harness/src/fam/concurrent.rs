//! C20 (concurrent readers of a shared store see sequential results).
//!
//! A deterministic scheduler drives two or three reader threads through the library's yield points (the
//! `stam_verif` hook `verif_set_yield_hook`: every read/write of the serialisation mode and of the changed
//! flags). A schedule is a sequence of thread numbers: entry `t` lets thread `t` pass its next yield point.
//! For small scenarios every interleaving is enumerated; each thread's result must equal the result it obtains
//! running alone. The serialisation decisions (stand-off reference vs. inline) are also compared with the Lean
//! model (`cc` lines).
use crate::common::*;
use serde_json::json;
use stam::*;
use std::sync::{Arc, Condvar, Mutex};

struct Sched {
    schedule: Vec<usize>,
    pos: usize,
    active: Vec<bool>,
    trace: Vec<(usize, &'static str)>,
    /// only yield points whose name starts with one of these prefixes are scheduling points
    points: Vec<&'static str>,
    stuck: bool,
}
static SCHED: Mutex<Option<Sched>> = Mutex::new(None);
static CV: Condvar = Condvar::new();
thread_local! { static TID: std::cell::Cell<Option<usize>> = std::cell::Cell::new(None); }

fn hook(point: &'static str) {
    let t = match TID.with(|x| x.get()) { Some(t) => t, None => return };
    let mut g = SCHED.lock().unwrap();
    {
        let s = match g.as_mut() { Some(s) => s, None => return };
        if !s.points.iter().any(|p| point.starts_with(p)) { return; }
    }
    let start = std::time::Instant::now();
    loop {
        let s = g.as_mut().unwrap();
        while s.pos < s.schedule.len() && !s.active[s.schedule[s.pos]] { s.pos += 1; }
        if s.pos >= s.schedule.len() || s.schedule[s.pos] == t || s.stuck { break; }
        let (g2, to) = CV.wait_timeout(g, std::time::Duration::from_millis(200)).unwrap();
        g = g2;
        if to.timed_out() && start.elapsed() > std::time::Duration::from_secs(5) {
            // a schedule that cannot be followed (the scheduled thread is not at a yield point and never will be)
            if let Some(s) = g.as_mut() { s.stuck = true; }
            break;
        }
    }
    let s = g.as_mut().unwrap();
    if s.pos < s.schedule.len() && s.schedule[s.pos] == t { s.pos += 1; }
    s.trace.push((t, point));
    CV.notify_all();
}

fn finish(t: usize) {
    let mut g = SCHED.lock().unwrap();
    if let Some(s) = g.as_mut() { s.active[t] = false; }
    CV.notify_all();
}

/// run the readers under a schedule; returns each reader's result and the trace of yield points passed
pub fn run_schedule(store: &Arc<AnnotationStore>, readers: &[Reader], schedule: &[usize], points: &[&'static str]) -> (Vec<String>, Vec<(usize, &'static str)>, bool) {
    *SCHED.lock().unwrap() = Some(Sched { schedule: schedule.to_vec(), pos: 0, active: vec![true; readers.len()], trace: vec![], points: points.to_vec(), stuck: false });
    stam::verif_set_yield_hook(Some(hook));
    let mut handles = vec![];
    for (t, r) in readers.iter().enumerate() {
        let store = store.clone();
        let r = r.clone();
        handles.push(std::thread::spawn(move || {
            TID.with(|x| x.set(Some(t)));
            let out = std::panic::catch_unwind(std::panic::AssertUnwindSafe(|| r.run(&store))).unwrap_or_else(|_| "panic".to_string());
            finish(t);
            out
        }));
    }
    let outs: Vec<String> = handles.into_iter().map(|h| h.join().unwrap_or_else(|_| "panic".into())).collect();
    stam::verif_set_yield_hook(None);
    let s = SCHED.lock().unwrap().take().unwrap();
    (outs, s.trace, s.stuck)
}

#[derive(Clone, Debug)]
pub enum Reader {
    /// serialise the store (trait form, the store's own configuration)
    Store,
    /// serialise one resource / dataset through `ToJson::to_json_string` with its own configuration
    Resource(String),
    DataSet(String),
    /// write one resource / dataset to a file of its own through `ToJson::to_json_file` with its own configuration
    /// (the store is not changed: the member is read, a scratch file is written); the result is the file's content
    ResourceFile(String),
    DataSetFile(String),
    /// pure readers
    FindText(String),
    Query(String),
}

impl Reader {
    pub fn name(&self) -> String {
        match self { Reader::Store => "store".into(), Reader::Resource(r) => format!("res:{}", r), Reader::DataSet(s) => format!("set:{}", s), Reader::ResourceFile(r) => format!("resfile:{}", r), Reader::DataSetFile(s) => format!("setfile:{}", s), Reader::FindText(t) => format!("find:{}", t), Reader::Query(_) => "query".into() }
    }
    pub fn run(&self, store: &AnnotationStore) -> String {
        match self {
            Reader::Store => store.to_json_string(store.config()).unwrap_or_else(|e| format!("error: {}", e)),
            Reader::Resource(id) => { let r = store.resource(id.as_str()).expect("resource"); ToJson::to_json_string(r.as_ref(), r.as_ref().config()).unwrap_or_else(|e| format!("error: {}", e)) }
            Reader::DataSet(id) => { let s = store.dataset(id.as_str()).expect("dataset"); ToJson::to_json_string(s.as_ref(), s.as_ref().config()).unwrap_or_else(|e| format!("error: {}", e)) }
            Reader::ResourceFile(id) => { let r = store.resource(id.as_str()).expect("resource"); let f = scratch_dir(7000).join(format!("member-{}-{:?}.json", id, std::thread::current().id())); let w = ToJson::to_json_file(r.as_ref(), f.to_str().unwrap(), r.as_ref().config()); let t = std::fs::read_to_string(&f).unwrap_or_default(); std::fs::remove_file(&f).ok(); match w { Ok(_) => t, Err(e) => format!("error: {}", e) } }
            Reader::DataSetFile(id) => { let s = store.dataset(id.as_str()).expect("dataset"); let f = scratch_dir(7000).join(format!("member-{}-{:?}.json", id, std::thread::current().id())); let w = ToJson::to_json_file(s.as_ref(), f.to_str().unwrap(), s.as_ref().config()); let t = std::fs::read_to_string(&f).unwrap_or_default(); std::fs::remove_file(&f).ok(); match w { Ok(_) => t, Err(e) => format!("error: {}", e) } }
            Reader::FindText(t) => { let mut v: Vec<String> = vec![]; for r in store.resources() { for m in r.find_text(t.as_str()) { v.push(format!("{}:{}-{}", r.id().unwrap_or("?"), m.begin(), m.end())); } } v.join(",") }
            Reader::Query(q) => { match Query::try_from(q.as_str()) { Ok(query) => match store.query(query) { Ok(it) => format!("{} results", it.count()), Err(e) => format!("error: {}", e) }, Err(e) => format!("error: {}", e) } }
        }
    }
}

/// which members a serialised store document refers to by @include and which it holds inline: e.g. "r0=inline r1=include s1=include"
pub fn decisions(doc: &str) -> String {
    let v: serde_json::Value = match serde_json::from_str(doc) { Ok(v) => v, Err(_) => return format!("not-json:{}", doc.chars().take(40).collect::<String>()) };
    let mut out = vec![];
    let mut walk = |arr: Option<&serde_json::Value>, _kind: &str| {
        if let Some(a) = arr.and_then(|x| x.as_array()) {
            for m in a {
                let id = m.get("@id").and_then(|x| x.as_str()).map(|s| s.to_string()).or_else(|| m.get("@include").and_then(|x| x.as_str()).map(|s| s.to_string())).unwrap_or("?".into());
                out.push(format!("{}={}", id, if m.get("@include").is_some() { "include" } else { "inline" }));
            }
        }
    };
    if v.get("@type").and_then(|x| x.as_str()) == Some("AnnotationStore") {
        walk(v.get("resources"), "res");
        walk(v.get("annotationsets"), "set");
    } else {
        out.push(format!("member={}", if v.get("@include").is_some() { "include" } else { "inline" }));
    }
    out.join(" ")
}

fn scratch_dir(tag: usize) -> std::path::PathBuf {
    let d = std::path::Path::new(env!("CARGO_MANIFEST_DIR")).join("target").join("scratch").join(format!("cc{}-{}", std::process::id(), tag));
    std::fs::create_dir_all(&d).ok();
    d
}

/// a store with `standoff_res` / `standoff_sets` stand-off members and some inline ones, saved once (so that the
/// changed flags are clear) when `settled`
pub fn build(dir: &std::path::Path, nres: usize, standoff_res: &[usize], nsets: usize, standoff_sets: &[usize], settled: bool) -> AnnotationStore {
    let main = dir.join("cc.store.stam.json");
    let mut store = AnnotationStore::new(Config::default()).with_id("cc");
    store.set_filename(main.to_str().unwrap());
    for i in 0..nres {
        store.add_resource(TextResourceBuilder::new().with_id(format!("r{}", i)).with_text(format!("text number {} with some words in it", i))).unwrap();
    }
    for i in 0..nsets {
        store.add_dataset(AnnotationDataSetBuilder::new().with_id(format!("s{}", i))).unwrap();
        store.annotate(AnnotationBuilder::new().with_id(format!("a{}", i)).with_target(SelectorBuilder::textselector(format!("r{}", i % nres), Offset::simple(0, 4))).with_data(format!("s{}", i), "k", "v")).unwrap();
    }
    for i in standoff_res { let r: &mut TextResource = store.get_mut(TextResourceHandle::new(*i)).unwrap(); r.set_filename(&format!("r{}.txt", i)); }
    for i in standoff_sets { let s: &mut AnnotationDataSet = store.get_mut(AnnotationDataSetHandle::new(*i)).unwrap(); s.set_filename(&format!("s{}.dataset.stam.json", i)); }
    if settled { store.save().expect("save"); }
    store
}

/// all interleavings of `counts[t]` steps of thread t
fn interleavings(counts: &[usize], limit: usize, rng: &mut Rng) -> Vec<Vec<usize>> {
    let total: usize = counts.iter().sum();
    // number of interleavings (multinomial), saturating
    let mut n: u128 = 1; let mut k = 0u128;
    for c in counts { for i in 1..=*c { k += 1; n = n.saturating_mul(k) / i as u128; } }
    if n as usize <= limit && n < 1_000_000 {
        let mut out = vec![];
        fn rec(counts: &mut Vec<usize>, cur: &mut Vec<usize>, total: usize, out: &mut Vec<Vec<usize>>) {
            if cur.len() == total { out.push(cur.clone()); return; }
            for t in 0..counts.len() { if counts[t] > 0 { counts[t] -= 1; cur.push(t); rec(counts, cur, total, out); cur.pop(); counts[t] += 1; } }
        }
        rec(&mut counts.to_vec(), &mut vec![], total, &mut out);
        out
    } else {
        (0..limit).map(|_| { let mut pool: Vec<usize> = counts.iter().enumerate().flat_map(|(t, c)| std::iter::repeat(t).take(*c)).collect(); for a in (1..pool.len()).rev() { let b = rng.below(a + 1); pool.swap(a, b); } pool }).collect()
    }
}

pub struct Scenario { pub name: String, pub nres: usize, pub standoff_res: Vec<usize>, pub nsets: usize, pub standoff_sets: Vec<usize>, pub settled: bool, pub readers: Vec<Reader> }

impl Scenario {
    pub fn line(&self) -> String {
        format!("ccfg nres={} sres={} nsets={} ssets={} settled={} readers={}", self.nres, self.standoff_res.iter().map(|x| x.to_string()).collect::<Vec<_>>().join("+"), self.nsets, self.standoff_sets.iter().map(|x| x.to_string()).collect::<Vec<_>>().join("+"), self.settled as u8, self.readers.iter().map(|r| r.name()).collect::<Vec<_>>().join(","))
    }
    pub fn parse(line: &str) -> Option<Scenario> {
        let mut s = Scenario { name: "replay".into(), nres: 1, standoff_res: vec![], nsets: 0, standoff_sets: vec![], settled: true, readers: vec![] };
        for kv in line.split_whitespace().skip(1) {
            let (k, v) = kv.split_once('=')?;
            let list = |v: &str| -> Vec<usize> { v.split('+').filter_map(|x| x.parse().ok()).collect() };
            match k {
                "nres" => s.nres = v.parse().ok()?, "sres" => s.standoff_res = list(v), "nsets" => s.nsets = v.parse().ok()?, "ssets" => s.standoff_sets = list(v), "settled" => s.settled = v == "1",
                "readers" => s.readers = v.split(',').filter_map(|r| match r.split_once(':') { None if r == "store" => Some(Reader::Store), Some(("res", id)) => Some(Reader::Resource(id.into())), Some(("set", id)) => Some(Reader::DataSet(id.into())), Some(("resfile", id)) => Some(Reader::ResourceFile(id.into())), Some(("setfile", id)) => Some(Reader::DataSetFile(id.into())), Some(("find", t)) => Some(Reader::FindText(t.into())), _ if r == "query" => Some(Reader::Query("SELECT ANNOTATION ?a WHERE DATA \"s0\" \"k\" = \"v\";".into())), _ => None }).collect(),
                _ => {}
            }
        }
        Some(s)
    }
}

/// the model line for one schedule: members in document order (1 = has a stand-off file), one program per reader, the trace
fn cc_line(sc: &Scenario, trace: &[(usize, &'static str)]) -> String {
    let members: Vec<String> = (0..sc.nres).map(|i| format!("{}", sc.standoff_res.contains(&i) as u8)).chain((0..sc.nsets).map(|i| format!("{}", sc.standoff_sets.contains(&i) as u8))).collect();
    let progs: Vec<String> = sc.readers.iter().map(|r| match r {
        Reader::Store => "S".to_string(),
        Reader::Resource(id) => format!("M{}", id[1..].parse::<usize>().unwrap_or(0)),
        Reader::DataSet(id) | Reader::DataSetFile(id) => format!("M{}", sc.nres + id[1..].parse::<usize>().unwrap_or(0)),
        Reader::ResourceFile(id) => format!("M{}", id[1..].parse::<usize>().unwrap_or(0)),
        _ => "P".to_string(),
    }).collect();
    let tr: Vec<String> = trace.iter().filter(|(_, p)| p.starts_with("mode:")).map(|(t, _)| t.to_string()).collect();
    format!("cc {} {} {}", members.join(""), progs.join(","), if tr.is_empty() { "-".to_string() } else { tr.join("") })
}

pub fn check_scenario(rep: &mut Report, sc: &Scenario, limit: usize, rng: &mut Rng, tag: usize, only_schedule: Option<Vec<usize>>) {
    let dir = scratch_dir(tag);
    let points_sets: Vec<Vec<&'static str>> = vec![vec!["mode:"], vec!["mode:", "changed:"]];
    for points in &points_sets {
        // sequential baseline: each reader alone, on a fresh store
        let mut alone = vec![];
        let mut counts = vec![];
        for (t, r) in sc.readers.iter().enumerate() {
            let store = Arc::new(build(&dir, sc.nres, &sc.standoff_res, sc.nsets, &sc.standoff_sets, sc.settled));
            let mut solo: Vec<Reader> = sc.readers.iter().map(|_| Reader::FindText("\u{0}never".into())).collect();
            solo[t] = r.clone();
            let (outs, trace, _) = run_schedule(&store, &solo, &[], points);
            alone.push(outs[t].clone());
            counts.push(trace.iter().filter(|(tt, _)| *tt == t).count());
        }
        let schedules = match &only_schedule { Some(s) => vec![s.clone()], None => interleavings(&counts, limit, rng) };
        rep.count(&format!("scenario:{}:{}", sc.name, points.join("+")));
        for schedule in schedules {
            let store = Arc::new(build(&dir, sc.nres, &sc.standoff_res, sc.nsets, &sc.standoff_sets, sc.settled));
            let (outs, trace, stuck) = run_schedule(&store, &sc.readers, &schedule, points);
            if stuck { rep.count("schedule:not-followable"); continue; }
            let sched_s: String = schedule.iter().map(|t| t.to_string()).collect();
            let key = format!("{}|{}|{}", sc.line(), points.join("+"), sched_s);
            let interleaved = schedule.windows(2).filter(|w| w[0] != w[1]).count() > 1;
            rep.case(if interleaved { Some(&key) } else { None });
            rep.count("schedules");
            for (t, (o, a)) in outs.iter().zip(alone.iter()).enumerate() {
                if o != a {
                    let ctx = vec![sc.line(), format!("ccsched points={} schedule={}", points.join("+"), sched_s)];
                    let what = if o == "panic" { "panic".to_string() } else { format!("{}-differs", match sc.readers[t] { Reader::Store => "store-serialisation", Reader::Resource(_) => "resource-serialisation", Reader::DataSet(_) => "dataset-serialisation", Reader::ResourceFile(_) => "resource-file", Reader::DataSetFile(_) => "dataset-file", _ => "pure-reader" }) };
                    rep.fail(if o == "panic" { "panic" } else { "oracle" }, &format!("C20/{}/with-{}", what, sc.readers.iter().enumerate().filter(|(i, _)| *i != t).map(|(_, r)| match r { Reader::Store => "store", Reader::Resource(_) => "resource", Reader::DataSet(_) => "dataset", Reader::ResourceFile(_) => "resource-file", Reader::DataSetFile(_) => "dataset-file", _ => "pure" }).collect::<Vec<_>>().join("+")), ctx, &decisions(a), &decisions(o));
                }
            }
            // model: serialisation decisions per reader under this trace (mode points only)
            if points.len() == 1 {
                let line = cc_line(sc, &trace);
                let answer: Vec<String> = sc.readers.iter().zip(outs.iter()).map(|(r, o)| match r { Reader::Store | Reader::Resource(_) | Reader::DataSet(_) | Reader::ResourceFile(_) | Reader::DataSetFile(_) => decisions(o).split(' ').map(|d| if d.ends_with("include") { "i" } else { "n" }).collect::<Vec<_>>().join(""), _ => "-".to_string() }).collect();
                rep.model_case_ctx(vec![sc.line(), format!("ccsched points=mode: schedule={}", sched_s)], vec![line], vec![answer.join(",")], "concurrent");
            }
        }
    }
    std::fs::remove_dir_all(&dir).ok();
}

pub fn scenarios(thorough: bool) -> Vec<Scenario> {
    let q = "SELECT ANNOTATION ?a WHERE DATA \"s0\" \"k\" = \"v\";".to_string();
    let mut v = vec![
        Scenario { name: "store|resource".into(), nres: 2, standoff_res: vec![1], nsets: 1, standoff_sets: vec![], settled: true, readers: vec![Reader::Store, Reader::Resource("r1".into())] },
        Scenario { name: "store|dataset".into(), nres: 1, standoff_res: vec![], nsets: 2, standoff_sets: vec![1], settled: true, readers: vec![Reader::Store, Reader::DataSet("s1".into())] },
        Scenario { name: "store|store".into(), nres: 2, standoff_res: vec![0, 1], nsets: 1, standoff_sets: vec![0], settled: true, readers: vec![Reader::Store, Reader::Store] },
        Scenario { name: "resource|resource".into(), nres: 2, standoff_res: vec![0, 1], nsets: 0, standoff_sets: vec![], settled: true, readers: vec![Reader::Resource("r0".into()), Reader::Resource("r1".into())] },
        Scenario { name: "store|inline-resource".into(), nres: 2, standoff_res: vec![1], nsets: 0, standoff_sets: vec![], settled: true, readers: vec![Reader::Store, Reader::Resource("r0".into())] },
        Scenario { name: "store|find|query".into(), nres: 2, standoff_res: vec![1], nsets: 1, standoff_sets: vec![0], settled: true, readers: vec![Reader::Store, Reader::FindText("words".into()), Reader::Query(q.clone())] },
        Scenario { name: "unsettled store|resource".into(), nres: 2, standoff_res: vec![1], nsets: 0, standoff_sets: vec![], settled: false, readers: vec![Reader::Store, Reader::Resource("r1".into())] },
        Scenario { name: "store|resource|dataset".into(), nres: 2, standoff_res: vec![0, 1], nsets: 2, standoff_sets: vec![1], settled: true, readers: vec![Reader::Store, Reader::Resource("r1".into()), Reader::DataSet("s1".into())] },
    ];
    // a member written to a file of its own while the store is serialised
    v.push(Scenario { name: "store|dataset-file".into(), nres: 1, standoff_res: vec![0], nsets: 2, standoff_sets: vec![1], settled: true, readers: vec![Reader::Store, Reader::DataSetFile("s1".into())] });
    v.push(Scenario { name: "store|resource-file".into(), nres: 2, standoff_res: vec![1], nsets: 1, standoff_sets: vec![0], settled: true, readers: vec![Reader::Store, Reader::ResourceFile("r1".into())] });
    v.push(Scenario { name: "dataset|dataset-file".into(), nres: 1, standoff_res: vec![], nsets: 2, standoff_sets: vec![0, 1], settled: true, readers: vec![Reader::DataSet("s0".into()), Reader::DataSetFile("s1".into())] });
    if thorough {
        v.push(Scenario { name: "store|store|resource".into(), nres: 3, standoff_res: vec![0, 2], nsets: 1, standoff_sets: vec![0], settled: true, readers: vec![Reader::Store, Reader::Store, Reader::Resource("r2".into())] });
        v.push(Scenario { name: "big store|resource".into(), nres: 4, standoff_res: vec![0, 1, 2, 3], nsets: 2, standoff_sets: vec![0, 1], settled: true, readers: vec![Reader::Store, Reader::Resource("r3".into())] });
    }
    v
}

pub fn replay(lines: &[String]) {
    let sc = match lines.iter().find(|l| l.starts_with("ccfg")).and_then(|l| Scenario::parse(l)) { Some(s) => s, None => return };
    let sched: Option<Vec<usize>> = lines.iter().find(|l| l.starts_with("ccsched")).and_then(|l| l.split("schedule=").nth(1)).map(|s| s.chars().filter_map(|c| c.to_digit(10).map(|d| d as usize)).collect());
    let mut r = Report::new("replay", "");
    let mut rng = Rng::new(1);
    check_scenario(&mut r, &sc, 1, &mut rng, 999, sched);
    for f in &r.failures { println!("  ORACLE: {} {} alone={} interleaved={}", f.kind, f.signature, f.expected, f.got); }
    r.run_model("/verif/lean/.lake/build/bin/stamdriver");
    for f in r.failures.iter().filter(|f| f.kind == "model") { println!("  MODEL DISAGREES: model={} implementation={}", f.expected, f.got); }
    if r.failures.is_empty() { println!("  every reader obtained its sequential result under this schedule; the model agrees"); }
}

pub fn run(opts: &Opts) -> Report {
    let mut rep = Report::new(
        "concurrent",
        "two or three reader threads on one shared store (serialising the store, a stand-off or inline resource, a dataset through ToJson::to_json_string; text search; a query), stores with inline and stand-off members, saved (changed flags clear) and unsaved; \
         a deterministic scheduler enumerates every interleaving of the threads at the yield points (serialisation-mode reads/writes; then also changed-flag reads/writes), up to a limit per scenario beyond which interleavings are sampled; \
         non-trivial = the schedule switches threads more than once; distinct = (scenario, yield-point set, schedule)",
    );
    let mut rng = Rng::new(opts.seed);
    let limit = if opts.thorough() { 4000 } else { 400 };
    for (i, sc) in scenarios(opts.thorough()).iter().enumerate() {
        check_scenario(&mut rep, sc, limit, &mut rng, i, None);
    }
    rep.sample(json!({"scenarios": scenarios(opts.thorough()).iter().map(|s| s.line()).collect::<Vec<_>>()}));
    failed_standoff_write(&mut rep);
    stress(&mut rep, opts);
    rep
}

/// A reader whose serialisation fails half-way (a stand-off member whose file cannot be written) leaves the shared state
/// as it found it: a reader that comes after it — another thread, the first one long finished — obtains what it would
/// obtain running alone (here: the same error), not a document whose `@include` names a file nobody wrote.
fn failed_standoff_write(rep: &mut Report) {
    for (what, res, set) in [("dataset", false, true), ("resource", true, false), ("both", true, true)] {
        let make = |tag: usize| -> AnnotationStore {
            let dir = scratch_dir(7000 + tag);
            let mut store = build(&dir, 2, &[], 2, &[], false);
            // (a directory that does not exist: the stand-off file cannot be created)
            if res { let r: &mut TextResource = store.get_mut(TextResourceHandle::new(0)).unwrap(); r.set_filename("no-such-directory/r0.txt"); }
            if set { let s: &mut AnnotationDataSet = store.get_mut(AnnotationDataSetHandle::new(0)).unwrap(); s.set_filename("no-such-directory/s0.dataset.stam.json"); }
            store
        };
        let class = |r: &Result<String, String>| match r { Ok(doc) => format!("ok ({} @include)", doc.matches("@include").count()), Err(_) => "error".to_string() };
        let ser = |st: &Arc<AnnotationStore>| -> Result<String, String> { let st = st.clone(); std::thread::spawn(move || st.to_json_string(st.config()).map_err(|e| format!("{}", e))).join().unwrap_or_else(|_| Err("panic".into())) };
        let alone = Arc::new(make(0));
        let want = class(&ser(&alone));
        let shared = Arc::new(make(1));
        let first = class(&ser(&shared));
        let second = class(&ser(&shared));
        rep.count(&format!("failed-standoff-write:{}", what));
        rep.case(Some(&format!("failed stand-off write {}", what)));
        if first != want || second != want {
            rep.fail("oracle", &format!("C20/reader-after-a-failed-stand-off-write/{}", what), vec![format!("a store whose stand-off {} has a file name in a directory that does not exist; two reader threads serialise it one after the other", what)], &format!("each: {} (what one reader obtains alone)", want), &format!("first: {}, second: {}", first, second));
        }
        for t in [0usize, 1] { std::fs::remove_dir_all(scratch_dir(7000 + t)).ok(); }
    }
}

/// Free-running readers (no scheduler): four threads run a menu of read-only operations on one shared store, over and
/// over, and every answer is compared with the answer the same operation gives alone. State that read-only operations
/// share and update (a cache, a lazily built index) shows up as an answer that differs; what the OS scheduler happens
/// to interleave is not controlled, so this can miss, but it cannot raise a false alarm on a library whose readers
/// are independent.
#[derive(Clone)]
enum SOp { Observe, Consistency, Transpose(String), SegPos(usize), FindData(String), WebAnno(String, bool), Validate(String), SubQuery(String), Find(usize, String), NoCase(usize, String), Seq(usize, Vec<String>), Text(usize, usize, usize), Query(String), Json, AnnText(String), Related(String), Regex(usize, String), Split(usize) }

fn sop_name(op: &SOp) -> String {
    match op {
        SOp::Observe => "the whole observation of the store (every item, its data, text, reverse indices)".into(),
        SOp::Consistency => "the consistency walk over indices, id maps and text selections".into(),
        SOp::Transpose(a) => format!("transpose {} over the transposition 'via' (result not added)", a),
        SOp::SegPos(r) => format!("segmentation and positions of resource {}", r),
        SOp::FindData(k) => format!("find_data / key.data / data.annotations for key {}", k),
        SOp::WebAnno(a, t) => format!("to_webannotation of {}{}", a, if *t { " with an extra-target template" } else { "" }),
        SOp::Validate(a) => format!("validate_text of {}", a),
        SOp::SubQuery(q) => q.clone(),
        SOp::Find(r, w) => format!("find_text({:?}) in resource {}", w, r),
        SOp::NoCase(r, w) => format!("find_text_nocase({:?}) in resource {}", w, r),
        SOp::Seq(r, f) => format!("find_text_sequence({:?}, case-insensitive) in resource {}", f, r),
        SOp::Text(r, b, e) => format!("text {}..{} of resource {}", b, e, r),
        SOp::Query(q) => q.clone(),
        SOp::Json => "to_json_string".into(),
        SOp::AnnText(a) => format!("text of {}", a),
        SOp::Related(a) => format!("related_text(overlaps) of {}", a),
        SOp::Regex(r, p) => format!("find_text_regex({:?}) in resource {}", p, r),
        SOp::Split(r) => format!("split_text in resource {}", r),
    }
}

fn sop_run(store: &AnnotationStore, op: &SOp) -> String {
    let res = |k: &usize| store.resource(format!("big{}", k).as_str()).expect("resource");
    match op {
        SOp::Observe => format!("fnv {}", fnv(&crate::fam::store::observe(store))),
        SOp::Consistency => format!("{:?}", crate::fam::store::consistency(store).iter().map(|x| x.0.clone()).collect::<Vec<_>>()),
        SOp::Transpose(id) => { let via = store.annotation("via"); let src = store.annotation(id.as_str()); match (via, src) { (Some(via), Some(src)) => match src.transpose(&via, TransposeConfig::default()) { Ok(v) => format!("{} builders", v.len()), Err(e) => format!("error {}", e) }, _ => "missing".into() } }
        SOp::SegPos(r) => { let x = res(r); format!("{:?} | {:?}", x.segmentation().map(|t| (t.begin(), t.end())).collect::<Vec<_>>(), x.as_ref().positions(PositionMode::Both).cloned().collect::<Vec<_>>()) }
        SOp::FindData(k) => format!("{:?} | {:?}", store.find_data("s", k.as_str(), DataOperator::Any).map(|d| (d.handle().as_usize(), d.annotations().count())).collect::<Vec<_>>(), store.key("s", k.as_str()).map(|key| key.data().count())),
        SOp::WebAnno(id, t) => { let cfg = WebAnnoConfig { auto_generated: false, extra_target_template: if *t { Some("{resource}/{begin}/{end}".to_string()) } else { None }, ..Default::default() }; store.annotation(id.as_str()).map(|a| a.to_webannotation(&cfg)).unwrap_or_default() }
        SOp::Validate(id) => store.annotation(id.as_str()).map(|a| format!("{:?}", a.validate_text())).unwrap_or_default(),
        SOp::SubQuery(q) => match Query::try_from(q.as_str()).and_then(|q| store.query(q)) { Ok(it) => format!("{:?}", it.map(|row| row.iter().map(|x| match x { QueryResultItem::Annotation(a) => a.handle().as_usize(), QueryResultItem::TextSelection(t) => t.begin(), _ => 0 }).collect::<Vec<_>>()).collect::<Vec<_>>()), Err(e) => format!("error {}", e) },
        SOp::Find(r, w) => format!("{:?}", res(r).find_text(w).map(|t| (t.begin(), t.end())).collect::<Vec<_>>()),
        SOp::NoCase(r, w) => format!("{:?}", res(r).find_text_nocase(w).map(|t| (t.begin(), t.end(), t.text().to_string())).collect::<Vec<_>>()),
        SOp::Seq(r, f) => { let fr: Vec<&str> = f.iter().map(|x| x.as_str()).collect(); format!("{:?}", res(r).find_text_sequence(&fr, |c| !c.is_alphanumeric(), false).map(|v| v.iter().map(|t| (t.begin(), t.end())).collect::<Vec<_>>())) }
        SOp::Text(r, b, e) => res(r).textselection(&Offset::simple(*b, *e)).map(|t| t.text().to_string()).unwrap_or_else(|e| format!("error {}", e)),
        SOp::Query(q) => match Query::try_from(q.as_str()).and_then(|q| store.query(q)) { Ok(it) => format!("{:?}", it.map(|row| row.iter().map(|x| match x { QueryResultItem::Annotation(a) => a.handle().as_usize(), QueryResultItem::TextSelection(t) => t.begin(), _ => 0 }).collect::<Vec<_>>()).collect::<Vec<_>>()), Err(e) => format!("error {}", e) },
        SOp::Json => store.to_json_string(store.config()).map(|s| format!("{} bytes, fnv {}", s.len(), fnv(&s))).unwrap_or_else(|e| format!("error {}", e)),
        SOp::AnnText(id) => store.annotation(id.as_str()).map(|a| a.text_join("|")).unwrap_or_default(),
        SOp::Related(id) => store.annotation(id.as_str()).map(|a| format!("{:?}", a.related_text(TextSelectionOperator::overlaps()).map(|t| (t.begin(), t.end())).collect::<Vec<_>>())).unwrap_or_default(),
        SOp::Regex(r, p) => match regex::Regex::new(p) { Ok(re) => res(r).find_text_regex(&[re], None, true).map(|it| format!("{:?}", it.map(|m| m.textselections().iter().map(|t| (t.begin(), t.end())).collect::<Vec<_>>()).collect::<Vec<_>>())).unwrap_or_else(|e| format!("error {}", e)), Err(_) => "bad regex".into() },
        SOp::Split(r) => format!("{:?}", res(r).split_text(" \u{1F600} ").map(|t| (t.begin(), t.end())).take(80).collect::<Vec<_>>()),
    }
}

/// free-running reader threads over one store with three resources: every read-only operation of every thread must
/// give what it gives when run alone (each thread favours a resource of its own, so that state shared between
/// searches of different resources shows)
fn stress(rep: &mut Report, opts: &Opts) {
    let mut ex = crate::fam::store::Exec::new();
    // multi-byte texts longer than a few milestones, of different lengths, words to search for, annotations with data
    let nres = 3usize;
    let mut words: Vec<Vec<String>> = vec![];
    for k in 0..nres {
        let w: Vec<String> = (0..(60 - 17 * k)).map(|i| if k == 0 { format!("w\u{f6}rd{}\u{e9}", i) } else { format!("{}Need{}le\u{c9}", ["x", "Yy", "zzz"][k], i) }).collect();
        let text = w.join(if k == 1 { " \u{1F600}\u{1F600} " } else { " \u{1F600} " });
        ex.store.add_resource(TextResourceBuilder::new().with_id(format!("big{}", k)).with_text(text)).ok();
        let sep = if k == 1 { 4 } else { 3 };
        let mut pos = 0usize;
        for (i, x) in w.iter().enumerate() {
            let n = x.chars().count();
            if i % 3 == 0 { ex.store.annotate(AnnotationBuilder::new().with_id(format!("a{}_{}", k, i)).with_target(SelectorBuilder::textselector(format!("big{}", k), Offset::simple(pos, pos + n))).with_data("s", "k", (i % 5) as isize)).ok(); }
            if i % 6 == 0 && pos >= 2 { ex.store.annotate(AnnotationBuilder::new().with_id(format!("o{}_{}", k, i)).with_target(SelectorBuilder::textselector(format!("big{}", k), Offset::simple(pos - 2, pos + 2))).with_data("s", "o", "x")).ok(); }
            pos += n + sep;
        }
        // an annotation with a complex target (three words of this resource)
        let starts: Vec<(usize, usize)> = { let mut p = 0usize; w.iter().map(|x| { let n = x.chars().count(); let r = (p, p + n); p += n + sep; r }).collect() };
        ex.store.annotate(AnnotationBuilder::new().with_id(format!("cx{}", k)).with_target(SelectorBuilder::compositeselector(vec![SelectorBuilder::textselector(format!("big{}", k), Offset::simple(starts[1].0, starts[1].1)), SelectorBuilder::textselector(format!("big{}", k), Offset::simple(starts[4].0, starts[4].1)), SelectorBuilder::textselector(format!("big{}", k), Offset::simple(starts[7].0, starts[7].1))])).with_data("s", "c", "x")).ok();
        words.push(w);
    }
    // a simple transposition between the first words of resources 0 and 2 ("word0é" has no counterpart: only its length matters)
    {
        let n0 = words[0][0].chars().count().min(words[2][0].chars().count());
        ex.store.annotate(AnnotationBuilder::new().with_id("via").with_target(SelectorBuilder::directionalselector(vec![SelectorBuilder::textselector("big0", Offset::simple(0, n0)), SelectorBuilder::textselector("big2", Offset::simple(0, n0))])).with_data("https://w3id.org/stam/extensions/stam-transpose/", "Transposition", DataValue::Null)).ok();
        ex.store.annotate(AnnotationBuilder::new().with_id("tsrc").with_target(SelectorBuilder::textselector("big0", Offset::simple(1, n0 - 1))).with_data("s", "t", "x")).ok();
    }
    // validation information for every annotation (written before the store is shared)
    let _ = ex.store.protect_text(TextValidationMode::Auto);
    let store = Arc::new(ex.store);
    let mut ops: Vec<SOp> = vec![SOp::Json, SOp::Query("SELECT ANNOTATION ?a WHERE DATA \"s\" \"k\" = 2;".into()), SOp::Query("SELECT TEXT ?t WHERE RESOURCE \"big0\"; DATA \"s\" \"k\" > 1;".into())];
    ops.push(SOp::SubQuery("SELECT ANNOTATION ?a WHERE DATA \"s\" \"k\" = 2; { SELECT ANNOTATION ?o WHERE RELATION ?a OVERLAPS; DATA \"s\" \"o\" = \"x\"; }".into()));
    ops.push(SOp::SubQuery("SELECT RESOURCE ?r { SELECT ANNOTATION ?c WHERE RESOURCE ?r; DATA \"s\" \"c\" = \"x\"; }".into()));
    ops.push(SOp::Observe); ops.push(SOp::Consistency); ops.push(SOp::Transpose("tsrc".into()));
    for k in ["k", "o", "c", "t"] { ops.push(SOp::FindData(k.to_string())); }
    for k in 0..nres {
        ops.push(SOp::SegPos(k));
        for t in [false, true] { ops.push(SOp::WebAnno(format!("cx{}", k), t)); ops.push(SOp::WebAnno(format!("a{}_0", k), t)); ops.push(SOp::WebAnno(format!("o{}_6", k), t)); }
        ops.push(SOp::Validate(format!("cx{}", k))); ops.push(SOp::Validate(format!("a{}_3", k)));
        ops.push(SOp::Split(k));
        ops.push(SOp::Regex(k, if k == 0 { "w\u{f6}rd[0-9]+".into() } else { "Need[0-9]+le".into() }));
        ops.push(SOp::Regex(k, "\u{e9} ".into()));
        ops.push(SOp::NoCase(k, if k == 0 { "W\u{d6}RD".into() } else { "needle".into() }));
        ops.push(SOp::NoCase(k, "LE\u{e9}".into()));
        ops.push(SOp::Seq(k, if k == 0 { vec!["W\u{d6}RD3\u{c9}".into(), "\u{1F600}".into(), "w\u{f6}rd4\u{e9}".into()] } else { vec![words[k][2].to_uppercase(), "\u{1F600}".into()] }));
        ops.push(SOp::Query(format!("SELECT TEXT ?t WHERE RESOURCE \"big{}\"; TEXT \"{}\" AS NOCASE;", k, if k == 0 { "W\u{d6}RD6\u{c9}" } else { "need3le\u{e9}" })));
        for (i, w) in words[k].iter().enumerate() {
            if i % 2 == k % 2 { ops.push(SOp::Find(k, w.clone())); }
            if i % 5 == 0 { ops.push(SOp::NoCase(k, w.to_uppercase())); }
            if i % 3 == 0 { ops.push(SOp::AnnText(format!("a{}_{}", k, i))); }
            if i % 6 == 0 { ops.push(SOp::Related(format!("a{}_{}", k, i))); }
            if i % 7 == 0 { ops.push(SOp::Text(k, i * 3, i * 3 + 17)); }
        }
    }
    let alone: Vec<String> = ops.iter().map(|op| sop_run(&store, op)).collect();
    for (op, a) in ops.iter().zip(alone.iter()) { if a.starts_with("error") || a == "missing" { rep.count(&format!("stress:op-answers-with-an-error:{}", sop_name(op).chars().take(40).collect::<String>())); } }
    // the case-insensitive searches find something (so that a wrong answer is distinguishable)
    for (op, a) in ops.iter().zip(alone.iter()) { if let SOp::NoCase(..) = op { rep.count(if a == "[]" { "stress:nocase-empty" } else { "stress:nocase-found" }); } }
    let rounds = if opts.thorough() { 40 } else { 8 };
    let nthreads = 6;
    let mismatch: Arc<Mutex<Vec<(usize, String)>>> = Arc::new(Mutex::new(vec![]));
    let mut handles = vec![];
    for t in 0..nthreads {
        let (store, ops, alone, mismatch) = (store.clone(), ops.clone(), alone.clone(), mismatch.clone());
        handles.push(std::thread::spawn(move || {
            // threads 0-2 walk all operations in different orders; threads 3-5 stay on the operations of one resource
            let mine: Vec<usize> = (0..ops.len()).filter(|i| t < 3 || match &ops[*i] { SOp::Find(r, _) | SOp::NoCase(r, _) | SOp::Seq(r, _) | SOp::Text(r, _, _) | SOp::Regex(r, _) | SOp::Split(r) => *r == t - 3, SOp::Query(q) => q.contains(&format!("big{}", t - 3)), SOp::WebAnno(a, _) | SOp::Validate(a) => a.contains(&format!("{}", t - 3)), _ => false }).collect();
            let r = std::panic::catch_unwind(std::panic::AssertUnwindSafe(|| {
                for round in 0..rounds * (if t < 3 { 1 } else { 3 }) {
                    for k in 0..mine.len() {
                        let i = mine[(k * (2 * t + 1) + round * 7 + t * 13) % mine.len()];
                        let got = sop_run(&store, &ops[i]);
                        if got != alone[i] { let mut m = mismatch.lock().unwrap(); if m.len() < 5 { m.push((i, got)); } return; }
                    }
                }
            }));
            if r.is_err() { mismatch.lock().unwrap().push((usize::MAX, "a reader thread panicked".into())); }
        }));
    }
    for h in handles { let _ = h.join(); }
    rep.count("stress:rounds");
    rep.case(Some("stress"));
    let m = mismatch.lock().unwrap();
    if let Some((i, got)) = m.first() {
        let (what, want) = if *i == usize::MAX { ("a reader".to_string(), "no panic".to_string()) } else { (sop_name(&ops[*i]), alone[*i].clone()) };
        rep.fail("oracle", "C20/free-running-readers-differ-from-sequential", vec![format!("stress: {} threads x {} rounds over {} read-only operations on one store with {} resources; {}", nthreads, rounds, ops.len(), nres, what)], &want.chars().take(200).collect::<String>(), &got.chars().take(200).collect::<String>());
    }
}
