//! C06: related-text search returns exactly the known selections in the relation.
use crate::common::*;
use crate::fam::rel::{all_ops, naive, OpSpec, K};
use serde_json::json;
use stam::*;

type R = (usize, usize);

fn fmt_ranges(v: &[R]) -> String {
    if v.is_empty() {
        "-".into()
    } else {
        v.iter().map(|(b, e)| format!("{}-{}", b, e)).collect::<Vec<_>>().join(",")
    }
}
fn parse_ranges(s: &str) -> Vec<R> {
    if s == "-" {
        return vec![];
    }
    s.split(',').filter_map(|x| x.split_once('-').map(|(b, e)| (b.parse().unwrap_or(0), e.parse().unwrap_or(0)))).collect()
}

struct W {
    store: AnnotationStore,
    chars: Vec<char>,
    wsbits: String,
    known: Vec<R>, // in handle (insertion) order
}

fn world(text: &str, known: &[R]) -> W {
    let mut store = new_store();
    store.add_resource(TextResourceBuilder::new().with_id("r").with_text(text)).unwrap();
    let mut k: Vec<R> = vec![];
    for r in known {
        if !k.contains(r) {
            store
                .annotate(AnnotationBuilder::new().with_target(SelectorBuilder::textselector("r", Offset::simple(r.0, r.1))))
                .expect("annotate");
            k.push(*r);
        }
    }
    let chars: Vec<char> = text.chars().collect();
    let wsbits = if chars.is_empty() { "-".into() } else { chars.iter().map(|c| crate::fam::rel::wsbit(*c)).collect() };
    W { store, chars, wsbits, known: k }
}

/// run the search; canonical answer "b-e,b-e" in the order returned
fn search(w: &W, op: &OpSpec, refs: &[R]) -> Result<Vec<R>, String> {
    let store = &w.store;
    guarded(std::panic::AssertUnwindSafe(|| {
        let res = store.resource("r").unwrap();
        let tset: TextSelectionSet = refs.iter().map(|r| res.textselection(&Offset::simple(r.0, r.1)).expect("ref")).collect();
        res.related_text(op.to_op(), tset).map(|t| (t.begin(), t.end())).collect::<Vec<R>>()
    }))
}

/// expected: all known selections for which `refset OP t` holds, the references themselves excluded
fn expected(w: &W, op: &OpSpec, refs: &[R]) -> Result<Vec<R>, String> {
    let store = &w.store;
    let chars = &w.chars;
    let known = &w.known;
    guarded(std::panic::AssertUnwindSafe(|| {
        let resitem = store.resource("r").unwrap();
        let res: &TextResource = resitem.as_ref();
        let mut out = vec![];
        for t in known {
            if refs.contains(t) {
                continue;
            }
            let holds = if refs.len() == 1 {
                naive(op, refs[0], *t, chars)
            } else {
                // set-level reference: the library's own set-level test is the definition (checked by C13)
                let mut s = TextSelectionSet::new(res.handle().unwrap());
                for r in refs {
                    s.add(res.textselection_by_offset(&Offset::simple(r.0, r.1)).unwrap());
                }
                let tt = res.textselection_by_offset(&Offset::simple(t.0, t.1)).unwrap();
                s.test(&op.to_op(), &tt, res)
            };
            if holds {
                out.push(*t);
            }
        }
        out.sort();
        out
    }))
}

/// "Only the equality relation also returns the reference selection itself": with or without the `all` modifier when
/// there is one reference (for a single reference `all` changes nothing)
fn is_equals_special(op: &OpSpec, refs: &[R]) -> bool {
    op.k == K::Equals && !op.neg && (!op.all || refs.len() == 1)
}

fn geometry_class(w: &W, refs: &[R], t: &R) -> &'static str {
    let n = w.chars.len();
    if t.1 == n || t.0 == n {
        "touches-textend"
    } else if t.0 == t.1 {
        "zero-width"
    } else if refs.len() > 1 {
        "multi-ref"
    } else if refs[0].0 > n / 2 {
        "ref-second-half"
    } else {
        "general"
    }
}

fn check(rep: &mut Report, w: &W, text: &str, op: &OpSpec, refs_as_given: &[R]) {
    // the search and the model get the reference set as it is given (a selection may be in it more than once); what is
    // expected is stated for the set of its distinct members ("each once"; a reference set is a set)
    let got = search(w, op, refs_as_given);
    let line = format!("find {} {} {} {}", w.wsbits, op.proto(), fmt_ranges(refs_as_given), fmt_ranges(&w.known));
    let distinct: Vec<R> = { let mut d: Vec<R> = vec![]; for r in refs_as_given { if !d.contains(r) { d.push(*r); } } d };
    let refs: &[R] = &distinct;
    let ctx = vec![format!("text={:?}", text), line.clone()];
    let key = format!("{} {}", text, line);
    let got_s = match &got {
        Ok(v) => fmt_ranges(v),
        Err(m) => format!("panic:{}", m.chars().take(50).collect::<String>()),
    };
    rep.count(&format!("find:{}", op.name()));
    let mut nontrivial = false;
    if is_equals_special(op, refs) {
        // equality: exactly the known selections with the references' ranges (single reference: the oracle is plain)
        if refs.len() == 1 {
            let want: Vec<R> = w.known.iter().filter(|t| **t == refs[0]).cloned().collect();
            nontrivial = !want.is_empty();
            if got.as_ref().ok() != Some(&want) {
                rep.fail(if got.is_err() { "panic" } else { "oracle" }, "equals", ctx.clone(), &fmt_ranges(&want), &got_s);
            }
        }
    } else {
        match (expected(w, op, refs), &got) {
            (Ok(want), Ok(g)) => {
                nontrivial = !want.is_empty();
                let mut gs = g.clone();
                gs.sort();
                if gs != want {
                    // classify by the first differing selection
                    let missing: Vec<&R> = want.iter().filter(|t| !gs.contains(t)).collect();
                    let extra: Vec<&R> = gs.iter().filter(|t| !want.contains(t)).collect();
                    let (what, cls) = if let Some(t) = missing.first() {
                        ("missing", geometry_class(w, refs, t))
                    } else if let Some(t) = extra.first() {
                        ("extra", geometry_class(w, refs, t))
                    } else {
                        ("duplicate", if refs.len() > 1 { "multi-ref" } else { "general" })
                    };
                    rep.fail("oracle", &format!("{}/{}/{}", op.sig(), what, cls), ctx.clone(), &fmt_ranges(&want), &got_s);
                }
            }
            (_, Err(m)) => rep.fail("panic", &format!("{}/panic", op.sig()), ctx.clone(), "a list of selections", m),
            (Err(m), _) => rep.fail("panic", &format!("{}/oracle-panic", op.sig()), ctx.clone(), "the relation test to answer", &m),
        }
    }
    // the other entry points give the same answer as the resource-level search: the selection itself (bound when it is a
    // known selection, unbound otherwise), the set of selections, the annotation on the reference, and a RELATION
    // constraint in a query with the reference bound to the variable
    if let Ok(g) = &got {
        let store = &w.store;
        let via: Result<Vec<(&'static str, Vec<R>)>, String> = guarded(std::panic::AssertUnwindSafe(|| {
            let res = store.resource("r").unwrap();
            let mut out: Vec<(&'static str, Vec<R>)> = vec![];
            let sels: Vec<ResultTextSelection> = refs.iter().map(|r| res.textselection(&Offset::simple(r.0, r.1)).expect("ref")).collect();
            if refs.len() == 1 {
                out.push(("ResultTextSelection::related_text", sels[0].related_text(op.to_op()).map(|t| (t.begin(), t.end())).collect()));
                if let Some(a) = sels[0].annotations().next() {
                    out.push(("ResultItem<Annotation>::related_text", a.related_text(op.to_op()).map(|t| (t.begin(), t.end())).collect()));
                }
                let q = format!("SELECT TEXT ?t WHERE RELATION ?x {};", op.to_op().as_str());
                if !op.all && !op.neg && op.limit.is_none() && !(matches!(op.k, K::Precedes | K::Succeeds) && !op.ws) {
                    if let Ok(mut query) = Query::try_from(q.as_str()) {
                        query.bind_textvar("x", &sels[0]);
                        if let Ok(it) = store.query(query) {
                            let mut v: Vec<R> = it.filter_map(|row| row.iter().next().and_then(|x| if let QueryResultItem::TextSelection(t) = x { Some((t.begin(), t.end())) } else { None })).collect();
                            v.sort(); v.dedup();
                            let mut gg = g.clone(); gg.sort(); gg.dedup();
                            if v != gg { out.push(("RELATION constraint in a query (as a set)", v)); }
                        }
                    }
                }
            }
            let set: ResultTextSelectionSet = sels.iter().cloned().collect();
            out.push(("ResultTextSelectionSet::related_text", set.related_text(op.to_op()).map(|t| (t.begin(), t.end())).collect()));
            // the references as copies without a handle (what `intersection()` or `textselection_by_offset()` hand out, also
            // for ranges the resource knows): a reference is what it selects
            {
                let rr: &TextResource = res.as_ref();
                let mut unbound = TextSelectionSet::new(rr.handle().unwrap());
                for r in refs_as_given {
                    let t = rr.textselection_by_offset(&Offset::simple(r.0, r.1)).expect("unbound ref");
                    // (the intersection of a selection with itself: the same range, never a handle)
                    unbound.add(t.intersection(&t).map(|x| x.0).filter(|x| x.handle().is_none() && x.begin() == r.0 && x.end() == r.1).unwrap_or(t));
                }
                out.push(("related_text with references that are copies without a handle", res.related_text(op.to_op(), unbound).map(|t| (t.begin(), t.end())).collect()));
            }
            out
        }));
        match via {
            Ok(v) => for (how, r) in v { if how.starts_with("RELATION") || r != *g { rep.fail("oracle", &format!("{}/entry-points-differ/{}", op.sig(), how.split(':').next().unwrap_or(how).replace(' ', "-")), ctx.clone(), &format!("resource.related_text: {}", got_s), &format!("{}: {}", how, fmt_ranges(&r))); } },
            Err(m) => rep.fail("panic", &format!("{}/entry-point-panics", op.sig()), ctx.clone(), &got_s, &m),
        }
    }
    // the iterator form (`TextSelectionIterator::related_text`) over several references is the union of the searches from
    // each reference alone, in textual order and without repetitions
    if refs.len() > 1 && got.is_ok() {
        let store = &w.store;
        let each: Result<Vec<Vec<R>>, String> = refs.iter().map(|r| search(w, op, &[*r])).collect();
        let viaiter = guarded(std::panic::AssertUnwindSafe(|| {
            let res = store.resource("r").unwrap();
            let sels: Vec<ResultTextSelection> = refs.iter().map(|r| res.textselection(&Offset::simple(r.0, r.1)).expect("ref")).collect();
            sels.into_iter().related_text(op.to_op()).map(|t| (t.begin(), t.end())).collect::<Vec<R>>()
        }));
        if let Ok(each) = each {
            let mut want: Vec<R> = each.into_iter().flatten().collect();
            want.sort(); want.dedup();
            match viaiter {
                Ok(v) => if v != want { rep.fail("oracle", &format!("{}/iterator-over-references-differs/{}", op.sig(), if { let mut x = v.clone(); x.sort(); x.dedup(); x == want } { "order-or-repetition" } else { "content" }), ctx.clone(), &fmt_ranges(&want), &fmt_ranges(&v)); },
                Err(m) => rep.fail("panic", &format!("{}/iterator-over-references-panics", op.sig()), ctx.clone(), &fmt_ranges(&want), &m),
            }
        }
    }
    rep.case(if nontrivial { Some(&key) } else { None });
    rep.model_case(vec![line], vec![got_s], &format!("{}", op.sig()));
}

pub fn exec_line(line: &str) -> String {
    let t: Vec<&str> = line.split_whitespace().collect();
    if t.len() != 8 {
        return "bad-op".into();
    }
    let text: String = if t[1] == "-" { String::new() } else { t[1].chars().map(crate::fam::rel::unwsbit).collect() };
    let proto = format!("rel tt {} {} {} {} {} u:0-0 u:0-0", t[1], t[2], t[3], t[4], t[5]);
    let op = match parse_op(&proto) {
        Some(o) => o,
        None => return "bad-op".into(),
    };
    let refs = parse_ranges(t[6]);
    let known = parse_ranges(t[7]);
    let w = world(&text, &known);
    match search(&w, &op, &refs) {
        Ok(v) => fmt_ranges(&v),
        Err(m) => format!("panic:{}", m.chars().take(50).collect::<String>()),
    }
}

fn parse_op(rel_line: &str) -> Option<OpSpec> {
    let t: Vec<&str> = rel_line.split_whitespace().collect();
    let k = *crate::fam::rel::KINDS.iter().find(|k| OpSpec { k: **k, all: false, neg: false, limit: None, ws: false }.name() == t[3])?;
    Some(OpSpec {
        k,
        all: t[4] == "1",
        neg: t[5] == "1",
        limit: if matches!(k, K::Embedded | K::Before | K::After) { t[6].parse().ok() } else { None },
        ws: matches!(k, K::Precedes | K::Succeeds) && t[6] == "1",
    })
}

fn all_ranges(n: usize) -> Vec<R> {
    let mut v = vec![];
    for b in 0..=n {
        for e in b..=n {
            v.push((b, e));
        }
    }
    v
}

pub fn run(opts: &Opts) -> Report {
    let mut rep = Report::new(
        "related",
        "exhaustive: every set of <=2 known selections over a short text x every reference (each known one, plus unknown ranges) x every operator/modifier; \
         seeded random: longer texts with whitespace, up to 12 known selections (nested, crossing, adjacent, zero-width, touching the end, both halves), reference sets of 1-3; \
         non-trivial = the expected result is non-empty; distinct = distinct (text, known set, reference set, operator)",
    );
    let ops = all_ops(&[None, Some(0), Some(2), Some(usize::MAX)]);
    let mut rng = Rng::new(opts.seed);
    // ---------- exhaustive part ----------
    let n = if opts.thorough() { 5 } else { 4 };
    let text: String = "ab cd e".chars().take(n).collect();
    let rs = all_ranges(n);
    let mut sets: Vec<Vec<R>> = vec![];
    for i in 0..rs.len() {
        sets.push(vec![rs[i]]);
        for j in 0..rs.len() {
            if i != j {
                sets.push(vec![rs[i], rs[j]]);
            }
        }
    }
    for known in &sets {
        let w = world(&text, known);
        let mut refs: Vec<Vec<R>> = known.iter().map(|r| vec![*r]).collect();
        // an unknown reference and a pair
        refs.push(vec![*rng.pick(&rs)]);
        if known.len() == 2 {
            refs.push(known.clone());
        }
        for r in &refs {
            for op in &ops {
                // thin out the operator table for pair references in quick mode
                if !opts.thorough() && r.len() > 1 && rng.chance(50) {
                    continue;
                }
                check(&mut rep, &w, &text, op, r);
            }
        }
    }
    // ---------- random geometries ----------
    let rounds = if opts.thorough() { 1500 } else { 150 };
    let alphabet = ['a', 'b', ' ', '\u{00a0}', 'c', '\u{e9}'];
    for _ in 0..rounds {
        let n = 6 + rng.below(if opts.thorough() { 34 } else { 10 });
        let text: String = (0..n).map(|_| *rng.pick(&alphabet)).collect();
        let k = 2 + rng.below(11);
        let mut known: Vec<R> = vec![];
        for _ in 0..k {
            let r = match rng.below(6) {
                0 => { let b = rng.below(n + 1); (b, b) }                         // zero-width
                1 => { let b = rng.below(n + 1); (b, n) }                         // touches the end
                2 => { let b = n / 2 + rng.below(n - n / 2 + 1); (b, b + rng.below(n - b + 1)) } // second half
                3 if !known.is_empty() => { let p = *rng.pick(&known); (p.1, p.1 + rng.below(n - p.1 + 1)) } // adjacent to a previous one
                4 if !known.is_empty() => { let p = *rng.pick(&known); let b = p.0 + rng.below(p.1 - p.0 + 1); (b, b + rng.below(p.1 - b + 1)) } // nested
                _ => { let b = rng.below(n + 1); (b, b + rng.below(n - b + 1)) }
            };
            known.push(r);
        }
        let w = world(&text, &known);
        for _ in 0..3 {
            let nrefs = if rng.chance(70) { 1 } else { 2 + rng.below(2) };
            let mut refs: Vec<R> = vec![];
            for _ in 0..nrefs {
                let r = if rng.chance(80) { *rng.pick(&w.known) } else { let b = rng.below(n + 1); (b, b + rng.below(n - b + 1)) };
                if !refs.contains(&r) {
                    refs.push(r);
                }
            }
            // (a reference set may hold a selection more than once: it counts once)
            if rng.chance(20) { let d = *rng.pick(&refs); refs.push(d); if rng.chance(30) { refs.insert(0, d); } rep.count("reference-set-with-a-repeated-member"); }
            for op in &ops {
                if rng.chance(if opts.thorough() { 60 } else { 35 }) {
                    check(&mut rep, &w, &text, op, &refs);
                }
            }
        }
    }
    rep.sample(json!({"text": "ab c", "known": [[0,2],[1,4]], "reference": [[0,2]], "operator": "overlaps", "expected": [[1,4]]}));
    rep.sample(json!({"text": "ab c", "known": [[4,4],[0,4]], "reference": [[0,4]], "operator": "embeds", "expected": [[4,4]], "note": "zero-width selection at the very end of the text"}));
    // an annotation that selects no text (a dataset target), in a store without any resource: its related text is nothing
    {
        rep.count("annotation-without-text");
        let got = guarded(std::panic::AssertUnwindSafe(|| -> Result<usize, StamError> {
            let mut st = AnnotationStore::default();
            st.add_dataset(AnnotationDataSetBuilder::new().with_id("set"))?;
            st.annotate(AnnotationBuilder::new().with_id("m").with_target(SelectorBuilder::datasetselector("set")).with_data("set", "k", "v"))?;
            let a = st.annotation("m").expect("annotation");
            Ok(a.related_text(TextSelectionOperator::overlaps()).count() + a.related_text(TextSelectionOperator::equals()).count())
        }));
        match got {
            Ok(Ok(0)) => {}
            Ok(other) => rep.fail("oracle", "annotation-without-text/finds-something", vec!["a store with a dataset only; an annotation on the dataset; related_text(overlaps)".into()], "nothing", &format!("{:?}", other.map_err(|e| format!("{}", e)))),
            Err(m) => rep.fail("panic", "annotation-without-text/panic", vec!["a store with a dataset only; an annotation on the dataset; related_text(overlaps)".into()], "nothing", &m),
        }
    }
    // a reference drawn from another resource: the same text and the same selections in two resources; a search in one
    // with a reference from the other finds nothing (selections of different resources stand in no relation)
    {
        let text = "ab cd ef gh";
        let known: [R; 6] = [(0, 2), (3, 5), (0, 5), (6, 8), (3, 8), (9, 11)];
        let built = guarded(std::panic::AssertUnwindSafe(|| -> Result<AnnotationStore, StamError> {
            let mut st = new_store();
            st.add_resource(TextResourceBuilder::new().with_id("r").with_text(text))?;
            st.add_resource(TextResourceBuilder::new().with_id("q").with_text(text))?;
            // (the handles differ between the two resources: q gets its selections in reverse)
            for r in known.iter() { st.annotate(AnnotationBuilder::new().with_target(SelectorBuilder::textselector("r", Offset::simple(r.0, r.1))))?; }
            for r in known.iter().rev() { st.annotate(AnnotationBuilder::new().with_target(SelectorBuilder::textselector("q", Offset::simple(r.0, r.1))))?; }
            Ok(st)
        }));
        if let Ok(Ok(st)) = built {
            for op in &ops {
                if op.ws { continue; }
                for refs in [vec![(3usize, 5usize)], vec![(0, 5)], vec![(0, 2), (6, 8)], vec![(4, 7)]] {
                    for (here, there) in [("r", "q"), ("q", "r")] {
                        rep.count("reference-from-another-resource");
                        let got = guarded(std::panic::AssertUnwindSafe(|| {
                            let (a, b) = (st.resource(here).unwrap(), st.resource(there).unwrap());
                            let tset: TextSelectionSet = refs.iter().map(|r| b.textselection(&Offset::simple(r.0, r.1)).expect("ref")).collect();
                            a.related_text(op.to_op(), tset).map(|t| (t.begin(), t.end())).collect::<Vec<R>>()
                        }));
                        if got != Ok(vec![]) {
                            rep.fail(if got.is_err() { "panic" } else { "oracle" }, &format!("reference-from-another-resource/{}", op.sig()), vec![format!("two resources with the text {:?} and the selections {:?}; search in {} with the reference {:?} of {}; operator {}", text, known, here, refs, there, op.proto())], "nothing", &format!("{:?}", got));
                        }
                    }
                }
            }
        } else { rep.fail("oracle", "reference-from-another-resource/build", vec![], "a store", "failed"); }
    }
    crate::fam::related_crafted::run_all(&mut rep);
    rep
}
