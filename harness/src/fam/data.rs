//! C10: data is a deduplicated vocabulary; data search equals a scan with the documented comparison.
use crate::common::*;
use crate::fam::store::{parse_value, show_value, Exec};
use serde_json::json;
use stam::*;

/// operator in prefix tokens: any null true false eq:<hex> eqi:<n> eqf:<q> gt:<n> ge:<n> lt:<n> le:<n>
/// gtf:<q> gef:<q> ltf:<q> lef:<q> has:<hex> hasi:<n> hasf:<q> (ts = unix milliseconds) dte:<ts> dta:<ts> dtb:<ts> dtae:<ts> dtbe:<ts>
/// not <op> | and <k> <op>… | or <k> <op>…
pub fn parse_op(t: &[&str], pos: &mut usize) -> Option<DataOperator<'static>> {
    let tok = *t.get(*pos)?;
    *pos += 1;
    let q = |v: &str| -> Option<f64> { v.parse::<i64>().ok().map(|x| x as f64 / 4.0) };
    let ts = |v: &str| -> Option<DateTime<FixedOffset>> { DateTime::from_timestamp_millis(v.parse().ok()?).map(|d| d.fixed_offset()) };
    Some(match tok {
        "any" => DataOperator::Any,
        "null" => DataOperator::Null,
        "true" => DataOperator::True,
        "false" => DataOperator::False,
        "not" => DataOperator::Not(Box::new(parse_op(t, pos)?)),
        "and" | "or" => {
            let k: usize = t.get(*pos)?.parse().ok()?;
            *pos += 1;
            let mut v = vec![];
            for _ in 0..k {
                v.push(parse_op(t, pos)?);
            }
            if tok == "and" { DataOperator::And(v) } else { DataOperator::Or(v) }
        }
        other => {
            let (k, v) = other.split_once(':')?;
            match k {
                "eq" => DataOperator::Equals(crate::fam::store::unhex_s(v).into()),
                "eqi" => DataOperator::EqualsInt(v.parse().ok()?),
                "eqf" => DataOperator::EqualsFloat(q(v)?),
                "gt" => DataOperator::GreaterThan(v.parse().ok()?),
                "ge" => DataOperator::GreaterThanOrEqual(v.parse().ok()?),
                "lt" => DataOperator::LessThan(v.parse().ok()?),
                "le" => DataOperator::LessThanOrEqual(v.parse().ok()?),
                "gtf" => DataOperator::GreaterThanFloat(q(v)?),
                "gef" => DataOperator::GreaterThanOrEqualFloat(q(v)?),
                "ltf" => DataOperator::LessThanFloat(q(v)?),
                "lef" => DataOperator::LessThanOrEqualFloat(q(v)?),
                "has" => DataOperator::HasElement(crate::fam::store::unhex_s(v).into()),
                "hasi" => DataOperator::HasElementInt(v.parse().ok()?),
                "hasf" => DataOperator::HasElementFloat(q(v)?),
                "dte" => DataOperator::ExactDatetime(ts(v)?),
                "dta" => DataOperator::AfterDatetime(ts(v)?),
                "dtb" => DataOperator::BeforeDatetime(ts(v)?),
                "dtae" => DataOperator::AtOrAfterDatetime(ts(v)?),
                "dtbe" => DataOperator::AtOrBeforeDatetime(ts(v)?),
                _ => return None,
            }
        }
    })
}

/// an integer against a float, by value (for an integer n: n < f iff n < ceil(f), n > f iff n > floor(f); the casts
/// of the rounded floats saturate, which is what the comparison needs)
pub fn int_vs_float(n: i128, f: f64) -> Option<std::cmp::Ordering> {
    if f.is_nan() { return None; }
    Some(if n < f.ceil() as i128 || f == f64::INFINITY { std::cmp::Ordering::Less } else if n > f.floor() as i128 || f == f64::NEG_INFINITY { std::cmp::Ordering::Greater } else { std::cmp::Ordering::Equal })
}

/// the documented comparison semantics, written independently of the library:
/// equality tests succeed between a value and an operator of the same type family
/// (string/int/float/bool/datetime/list), `Equals` with a string also compares numbers and booleans
/// by their textual form, the ordering operators hold when "the datavalue is numeric and greater (less) than the value
/// with the operator" (integer or float on either side), `Any` always holds, and Not/And/Or are the boolean connectives.
fn naive(v: &DataValue, t: &[&str], pos: &mut usize) -> Option<bool> {
    let tok = *t.get(*pos)?;
    *pos += 1;
    let qv = |x: &str| -> Option<i64> { x.parse::<i64>().ok() };
    Some(match tok {
        "any" => true,
        "null" => matches!(v, DataValue::Null),
        "true" => matches!(v, DataValue::Bool(true)),
        "false" => matches!(v, DataValue::Bool(false)),
        "not" => !naive(v, t, pos)?,
        "and" | "or" => {
            let k: usize = t.get(*pos)?.parse().ok()?;
            *pos += 1;
            let mut rs = vec![];
            for _ in 0..k {
                rs.push(naive(v, t, pos)?);
            }
            if tok == "and" { rs.iter().all(|x| *x) } else { rs.iter().any(|x| *x) }
        }
        other => {
            let (k, a) = other.split_once(':')?;
            match (v, k) {
                (DataValue::String(s), "eq") => *s == crate::fam::store::unhex_s(a),
                (DataValue::Bool(b), "eq") => {
                    let truthy = matches!(crate::fam::store::unhex_s(a).to_lowercase().as_str(), "yes" | "1" | "enable" | "enabled" | "on" | "true");
                    *b == truthy
                }
                (DataValue::Int(n), "eq") => crate::fam::store::unhex_s(a).parse::<isize>().map(|m| m == *n).unwrap_or(false),
                (DataValue::Float(f), "eq") => crate::fam::store::unhex_s(a).parse::<f64>().map(|m| m == *f).unwrap_or(false),
                (DataValue::Int(n), "eqi") => *n as i64 == qv(a)?,
                (DataValue::Int(n), "gt") => (*n as i64) > qv(a)?,
                (DataValue::Int(n), "ge") => (*n as i64) >= qv(a)?,
                (DataValue::Int(n), "lt") => (*n as i64) < qv(a)?,
                (DataValue::Int(n), "le") => (*n as i64) <= qv(a)?,
                (DataValue::Float(f), "gt") => int_vs_float(qv(a)? as i128, *f) == Some(std::cmp::Ordering::Less),
                (DataValue::Float(f), "ge") => matches!(int_vs_float(qv(a)? as i128, *f), Some(std::cmp::Ordering::Less) | Some(std::cmp::Ordering::Equal)),
                (DataValue::Float(f), "lt") => int_vs_float(qv(a)? as i128, *f) == Some(std::cmp::Ordering::Greater),
                (DataValue::Float(f), "le") => matches!(int_vs_float(qv(a)? as i128, *f), Some(std::cmp::Ordering::Greater) | Some(std::cmp::Ordering::Equal)),
                (DataValue::Int(n), "gtf") => int_vs_float(*n as i128, qv(a)? as f64 / 4.0) == Some(std::cmp::Ordering::Greater),
                (DataValue::Int(n), "gef") => matches!(int_vs_float(*n as i128, qv(a)? as f64 / 4.0), Some(std::cmp::Ordering::Greater) | Some(std::cmp::Ordering::Equal)),
                (DataValue::Int(n), "ltf") => int_vs_float(*n as i128, qv(a)? as f64 / 4.0) == Some(std::cmp::Ordering::Less),
                (DataValue::Int(n), "lef") => matches!(int_vs_float(*n as i128, qv(a)? as f64 / 4.0), Some(std::cmp::Ordering::Less) | Some(std::cmp::Ordering::Equal)),
                (DataValue::Float(f), "eqf") => (*f * 4.0) as i64 == qv(a)?,
                (DataValue::Float(f), "gtf") => ((*f * 4.0) as i64) > qv(a)?,
                (DataValue::Float(f), "gef") => ((*f * 4.0) as i64) >= qv(a)?,
                (DataValue::Float(f), "ltf") => ((*f * 4.0) as i64) < qv(a)?,
                (DataValue::Float(f), "lef") => ((*f * 4.0) as i64) <= qv(a)?,
                (DataValue::Datetime(d), "dte") => d.timestamp_millis() == qv(a)?,
                (DataValue::Datetime(d), "dta") => d.timestamp_millis() > qv(a)?,
                (DataValue::Datetime(d), "dtb") => d.timestamp_millis() < qv(a)?,
                (DataValue::Datetime(d), "dtae") => d.timestamp_millis() >= qv(a)?,
                (DataValue::Datetime(d), "dtbe") => d.timestamp_millis() <= qv(a)?,
                (DataValue::List(l), "has") => { let s = crate::fam::store::unhex_s(a); l.iter().any(|e| { let tk = format!("eq:{}", hex(&s)); naive(e, &[tk.as_str()], &mut 0).unwrap_or(false) }) }
                (DataValue::List(l), "hasi") => l.iter().any(|e| matches!(e, DataValue::Int(n) if Some(*n as i64) == qv(a))),
                (DataValue::List(l), "hasf") => l.iter().any(|e| matches!(e, DataValue::Float(f) if Some((*f * 4.0) as i64) == qv(a))),
                _ => false,
            }
        }
    })
}

fn values_menu() -> Vec<String> {
    let mut v: Vec<String> = vec!["n".into(), "b:0".into(), "b:1".into()];
    for i in [-2, 0, 1, 3] { v.push(format!("i:{}", i)); }
    for q in [-3, 0, 2, 4, 13] { v.push(format!("f:{}", q)); }
    for s in ["v0", "v1", "3", "true", "yes", "", "TRUE"] { if !s.is_empty() { v.push(format!("s:{}", s)); } }
    for d in [0i64, 100, 1700000000250, 1700000000000] { v.push(format!("d:{}", d)); }
    for l in ["i:1|s:v0", "f:4|i:3|b:1", "s:3|n"] { v.push(format!("l:{}", l)); }
    v
}

fn ops_menu(rng: &mut Rng) -> Vec<String> {
    let mut base: Vec<String> = vec!["any".into(), "null".into(), "true".into(), "false".into()];
    for s in ["v0", "v1", "3", "1", "true", "yes", "off", "x y"] { base.push(format!("eq:{}", hex(s))); base.push(format!("has:{}", hex(s))); }
    for n in [-2, 0, 1, 3] { for k in ["eqi", "gt", "ge", "lt", "le", "hasi"] { base.push(format!("{}:{}", k, n)); } }
    for q in [-3, 0, 4, 12, 13] { for k in ["eqf", "gtf", "gef", "ltf", "lef", "hasf"] { base.push(format!("{}:{}", k, q)); } }
    for d in [0i64, 100, 1700000000250, 1700000000000] { for k in ["dte", "dta", "dtb", "dtae", "dtbe"] { base.push(format!("{}:{}", k, d)); } }
    let mut v = base.clone();
    for _ in 0..40 {
        let a = rng.pick(&base).clone();
        let b = rng.pick(&base).clone();
        let c = rng.pick(&base).clone();
        match rng.below(5) {
            0 => v.push(format!("not {}", a)),
            1 => v.push(format!("and 2 {} {}", a, b)),
            2 => v.push(format!("or 3 {} {} {}", a, b, c)),
            3 => v.push(format!("not and 2 {} not {}", a, b)),
            _ => v.push(format!("or 2 and 2 {} {} {}", a, b, c)),
        }
    }
    v.push("and 0".into());
    v.push("or 0".into());
    v
}

pub fn exec_line(line: &str) -> String {
    let t: Vec<&str> = line.split_whitespace().collect();
    if t.len() < 4 || t[1] != "test" {
        return "bad-op".into();
    }
    let v = parse_value(&crate::fam::store::unhex_s(t[2]));
    let mut pos = 3;
    match parse_op(&t, &mut pos) {
        Some(op) => match guarded(std::panic::AssertUnwindSafe(|| v.test(&op))) {
            Ok(b) => b.to_string(),
            Err(m) => format!("panic:{}", m.chars().take(50).collect::<String>()),
        },
        None => "bad-op".into(),
    }
}

pub fn run(opts: &Opts) -> Report {
    let mut rep = Report::new(
        "data",
        "value x operator table: every value of every type (null, bool, int, float as quarters, string, datetime, flat list) against every operator incl. negation, conjunction, disjunction, cross-type pairs (exhaustive over the menus); \
         stores built from seeded data insertions/removals, then find_data over (set|any) x (key|any) x operator against a full scan; vocabulary invariants after every insertion; \
         non-trivial = the test is true or the operator is composite; distinct = distinct (value, operator) / (store, query)",
    );
    let mut rng = Rng::new(opts.seed);
    let values = values_menu();
    let ops = ops_menu(&mut rng);
    // ---------- integers against floats at the edges of both ranges (beyond the model's quarters): by value, the
    // integer is not rounded to a float first ----------
    {
        use std::cmp::Ordering::*;
        let ints: [isize; 13] = [isize::MIN, isize::MIN + 1, -9007199254740993, -9007199254740992, -4, -3, 0, 3, 4, 9007199254740992, 9007199254740993, isize::MAX - 1, isize::MAX];
        let floats: [f64; 22] = [f64::NEG_INFINITY, -1e300, -9223372036854777856.0, -9223372036854775808.0, -9223372036854774784.0, -9007199254740994.0, -9007199254740992.0, -3.5, -3.0, -0.0, 0.0, 5e-324, 2.9999999999999996, 3.0, 3.5, 9007199254740992.0, 9007199254740994.0, 9223372036854774784.0, 9223372036854775808.0, 1e300, f64::INFINITY, f64::NAN];
        for n in ints { for f in floats {
            let want = int_vs_float(n as i128, f); // the integer against the float
            let table: [(&str, DataValue, DataOperator, bool); 8] = [
                ("float>int", DataValue::Float(f), DataOperator::GreaterThan(n), want == Some(Less)),
                ("float>=int", DataValue::Float(f), DataOperator::GreaterThanOrEqual(n), matches!(want, Some(Less) | Some(Equal))),
                ("float<int", DataValue::Float(f), DataOperator::LessThan(n), want == Some(Greater)),
                ("float<=int", DataValue::Float(f), DataOperator::LessThanOrEqual(n), matches!(want, Some(Greater) | Some(Equal))),
                ("int>float", DataValue::Int(n), DataOperator::GreaterThanFloat(f), want == Some(Greater)),
                ("int>=float", DataValue::Int(n), DataOperator::GreaterThanOrEqualFloat(f), matches!(want, Some(Greater) | Some(Equal))),
                ("int<float", DataValue::Int(n), DataOperator::LessThanFloat(f), want == Some(Less)),
                ("int<=float", DataValue::Int(n), DataOperator::LessThanOrEqualFloat(f), matches!(want, Some(Less) | Some(Equal))),
            ];
            for (name, v, op, w) in table {
                rep.count("test:integer-against-float-at-the-edges");
                rep.case(Some(&format!("edge {} {} {:?}", name, n, f)));
                let got = guarded(std::panic::AssertUnwindSafe(|| v.test(&op)));
                if got != Ok(w) { rep.fail(if got.is_err() { "panic" } else { "oracle" }, &format!("test/numeric-cross-type/{}", name), vec![format!("value={:?} operator={:?}", v, op)], &w.to_string(), &format!("{:?}", got)); }
            }
        } }
    }
    // ---------- the comparison table ----------
    for vs in &values {
        let v = parse_value(vs);
        if show_value(&v) != *vs {
            rep.fail("oracle", "harness/value-rendering", vec![vs.clone()], vs, &show_value(&v));
        }
        for os in &ops {
            let t: Vec<&str> = os.split_whitespace().collect();
            let want = naive(&v, &t, &mut 0).expect("menu operator");
            let op = parse_op(&t, &mut 0).expect("menu operator");
            let got = guarded(std::panic::AssertUnwindSafe(|| v.test(&op)));
            let line = format!("dv test {} {}", hex(vs), os);
            rep.case(if want || t.len() > 1 { Some(&line) } else { None });
            rep.count("test");
            if got != Ok(want) {
                let cls = format!("{}/{}", vs.split(':').next().unwrap(), t[0].split(':').next().unwrap());
                rep.fail(if got.is_err() { "panic" } else { "oracle" }, &format!("test/{}", cls), vec![format!("value={} operator={}", vs, os), line.clone()], &want.to_string(), &format!("{:?}", got));
            }
            // negation is the exact complement
            let gn = guarded(std::panic::AssertUnwindSafe(|| v.test(&DataOperator::Not(Box::new(op.clone())))));
            if let (Ok(g), Ok(n)) = (&got, &gn) {
                if *g == *n {
                    rep.fail("oracle", "test/not-complement", vec![format!("value={} operator={}", vs, os)], &(!*g).to_string(), &n.to_string());
                }
            }
            rep.model_case(vec![line], vec![match &got { Ok(b) => b.to_string(), Err(m) => format!("panic:{}", m) }], "test");
        }
    }
    // ---------- the same (key, value) through every way of building a set: one id-less item ----------
    {
        let pairs: [(&str, &str); 4] = [("pos", "noun"), ("pos", "verb"), ("lemma", "noun"), ("pos", "noun")];
        let count_idless = |ds: &ResultItem<AnnotationDataSet>, k: &str, v: &str| ds.data().filter(|d| d.id().is_none() && d.key().id() == Some(k) && d.value() == &DataValue::String(v.to_string())).count();
        let mut check = |rep: &mut Report, how: &str, store: Result<AnnotationStore, String>| {
            rep.count(&format!("dedup-path:{}", how));
            rep.case(Some(&format!("dedup-path {}", how)));
            let ctx = vec![format!("a dataset holding {:?} without identifiers, built through {}", pairs, how)];
            match store {
                Err(e) => rep.fail("oracle", &format!("vocabulary/dedup-path/{}/refused", how), ctx, "a dataset", &e),
                Ok(st) => match st.dataset("set") {
                    None => rep.fail("oracle", &format!("vocabulary/dedup-path/{}/no-dataset", how), ctx, "a dataset", "none"),
                    Some(ds) => { for (k, v) in [("pos", "noun"), ("pos", "verb"), ("lemma", "noun")] { let n = count_idless(&ds, k, v); if n != 1 { rep.fail("oracle", &format!("vocabulary/dedup-path/{}", how), ctx.clone(), &format!("one id-less item for ({}, {})", k, v), &format!("{} items; all data: {:?}", n, ds.data().map(|d| format!("{:?}:{}={:?}", d.id(), d.key().id().unwrap_or("?"), d.value())).collect::<Vec<_>>())); break; } } }
                }
            }
        };
        let guardb = |f: &dyn Fn() -> Result<AnnotationStore, StamError>| -> Result<AnnotationStore, String> { match guarded(std::panic::AssertUnwindSafe(|| f())) { Ok(Ok(s)) => Ok(s), Ok(Err(e)) => Err(format!("{}", e)), Err(m) => Err(format!("PANIC {}", m)) } };
        check(&mut rep, "AnnotationDataSetBuilder::with_key_value", guardb(&|| { let mut b = AnnotationDataSetBuilder::new().with_id("set"); for (k, v) in pairs { b = b.with_key_value(k, v); } let mut st = AnnotationStore::default(); st.add_dataset(b)?; Ok(st) }));
        check(&mut rep, "AnnotationDataSetBuilder::with_data", guardb(&|| { let mut b = AnnotationDataSetBuilder::new().with_id("set"); for (k, v) in pairs { b = b.with_data(AnnotationDataBuilder::new().with_key(k.into()).with_value(v.into())); } let mut st = AnnotationStore::default(); st.add_dataset(b)?; Ok(st) }));
        check(&mut rep, "AnnotationStore::insert_data", guardb(&|| { let mut st = AnnotationStore::default(); st.add_dataset(AnnotationDataSetBuilder::new().with_id("set"))?; for (k, v) in pairs { st.insert_data(AnnotationDataBuilder::new().with_dataset("set".into()).with_key(k.into()).with_value(v.into()))?; } Ok(st) }));
        check(&mut rep, "annotate(with_data)", guardb(&|| { let mut st = AnnotationStore::default().with_resource(TextResourceBuilder::new().with_id("r").with_text("hello world"))?; for (i, (k, v)) in pairs.iter().enumerate() { st.annotate(AnnotationBuilder::new().with_target(SelectorBuilder::textselector("r", Offset::simple(i, i + 1))).with_data("set", *k, *v))?; } Ok(st) }));
        check(&mut rep, "one annotation naming the pair twice", guardb(&|| { let mut st = AnnotationStore::default().with_resource(TextResourceBuilder::new().with_id("r").with_text("hello world"))?; let mut b = AnnotationBuilder::new().with_target(SelectorBuilder::textselector("r", Offset::simple(0, 1))); for (k, v) in pairs { b = b.with_data("set", k, v); } st.annotate(b)?; Ok(st) }));
    }
    // ---------- data naming no dataset (the library supplies one), twice; a test against a key that does not exist ----------
    {
        rep.count("dedup-path:data-without-a-dataset-twice");
        rep.case(Some("dedup-path data-without-a-dataset-twice"));
        let ctx = vec!["two annotations whose data names no dataset: with_data_builder(AnnotationDataBuilder::new().with_key(\"pos\").with_value(\"noun\"))".to_string()];
        let r = guarded(std::panic::AssertUnwindSafe(|| -> Result<(usize, usize), StamError> {
            let mut st = AnnotationStore::default().with_resource(TextResourceBuilder::new().with_id("r").with_text("hello world"))?;
            for i in 0..2 { st.annotate(AnnotationBuilder::new().with_id(format!("a{}", i)).with_target(SelectorBuilder::textselector("r", Offset::simple(i, i + 1))).with_data_builder(AnnotationDataBuilder::new().with_key("pos".into()).with_value("noun".into())))?; }
            Ok((st.datasets().count(), st.datasets().map(|d| d.data().count()).sum()))
        }));
        match r {
            Ok(Ok((1, 1))) => {}
            Ok(Ok(other)) => rep.fail("oracle", "vocabulary/dedup-path/no-dataset-named", ctx, "one dataset holding one item", &format!("{:?} (datasets, items)", other)),
            Ok(Err(e)) => rep.fail("oracle", "vocabulary/dedup-path/no-dataset-named/refused", ctx, "one dataset holding one item", &format!("{}", e)),
            Err(m) => rep.fail("panic", "vocabulary/dedup-path/no-dataset-named/panic", ctx, "one dataset holding one item", &m),
        }
        rep.count("test:key-that-does-not-exist");
        rep.case(Some("test key-that-does-not-exist"));
        let r = guarded(std::panic::AssertUnwindSafe(|| -> Result<(bool, bool, bool), StamError> {
            let mut st = AnnotationStore::default();
            st.add_dataset(AnnotationDataSetBuilder::new().with_id("set").with_key_value("pos", "noun"))?;
            let ds = st.dataset("set").expect("dataset");
            let d = ds.data().next().expect("item");
            Ok((d.test("pos", &DataOperator::Equals("noun".into())), d.test("nokey", &DataOperator::Equals("noun".into())), d.key().test("nokey")))
        }));
        let ctx = vec!["data (pos, noun): data.test(\"pos\", =noun), data.test(\"nokey\", =noun), data.key().test(\"nokey\")".to_string()];
        match r {
            Ok(Ok((true, false, false))) => {}
            Ok(Ok(other)) => rep.fail("oracle", "test/unknown-key", ctx, "(true, false, false)", &format!("{:?}", other)),
            Ok(Err(e)) => rep.fail("oracle", "test/unknown-key", ctx, "(true, false, false)", &format!("{}", e)),
            Err(m) => rep.fail("panic", "test/unknown-key/panic", ctx, "(true, false, false)", &m),
        }
    }
    // ---------- a key of another dataset: no data of this dataset carries it ----------
    {
        rep.count("find_data:key-of-another-dataset");
        let ctx = vec!["set1 has the key a (handle 0) with data (a, x); set2 has the key b (handle 0) with data (b, 1): set2.find_data(key a of set1, any), store.find_data(\"set2\", key a, any), key b .test(key a), data (b, 1) .test(key a, any)".to_string()];
        let got = guarded(std::panic::AssertUnwindSafe(|| -> Result<(usize, usize, bool, bool, usize), StamError> {
            let mut st = AnnotationStore::default().with_id("s");
            st.add_resource(TextResourceBuilder::new().with_id("r").with_text("hello"))?;
            st.annotate(AnnotationBuilder::new().with_target(SelectorBuilder::textselector("r", Offset::simple(0, 1))).with_data("set1", "a", "x"))?;
            st.annotate(AnnotationBuilder::new().with_target(SelectorBuilder::textselector("r", Offset::simple(1, 2))).with_data("set2", "b", 1))?;
            let key_a = st.key("set1", "a").expect("key a");
            let set2 = st.dataset("set2").expect("set2");
            let key_b = set2.key("b").expect("key b");
            let data_b = set2.data().next().expect("data");
            Ok((set2.find_data(&key_a, DataOperator::Any).count(), st.find_data("set2", &key_a, DataOperator::Any).count(), key_b.test(&key_a), data_b.test(&key_a, &DataOperator::Any),
                // (control: the key of the set itself finds its data)
                set2.find_data(&key_b, DataOperator::Any).count()))
        }));
        match got {
            Ok(Ok((0, 0, false, false, 1))) => {}
            Ok(Ok(other)) => rep.fail("oracle", "find_data/key-of-another-dataset", ctx, "(0, 0, false, false, 1)", &format!("{:?}", other)),
            Ok(Err(e)) => rep.fail("oracle", "find_data/key-of-another-dataset", ctx, "(0, 0, false, false, 1)", &format!("{}", e)),
            Err(m) => rep.fail("panic", "find_data/key-of-another-dataset/panic", ctx, "(0, 0, false, false, 1)", &m),
        }
    }
    // ---------- one dataset arriving twice (a second store document merged into the first) ----------
    {
        let doc = |data: &str| format!("{{\"@type\": \"AnnotationStore\", \"resources\": [], \"annotationsets\": [{{\"@type\": \"AnnotationDataSet\", \"@id\": \"set\", \"keys\": [{{\"@type\": \"DataKey\", \"@id\": \"pos\"}}, {{\"@type\": \"DataKey\", \"@id\": \"lemma\"}}], \"data\": [{}]}}], \"annotations\": []}}", data);
        let item = |id: Option<&str>, key: &str, val: &str| format!("{{\"@type\": \"AnnotationData\"{}, \"key\": \"{}\", \"value\": {{\"@type\": \"String\", \"value\": \"{}\"}}}}", id.map(|i| format!(", \"@id\": \"{}\"", i)).unwrap_or_default(), key, val);
        // what each key says it holds against a scan of the items, and the id-less (key, value) pairs that occur twice
        let audit = |st: &AnnotationStore| -> Vec<String> {
            let mut bad = vec![];
            if let Some(ds) = st.dataset("set") {
                for k in ds.keys() {
                    let mut listed: Vec<usize> = k.data().map(|d| d.handle().as_usize()).collect(); listed.sort();
                    let mut scanned: Vec<usize> = ds.data().filter(|d| d.key().handle() == k.handle()).map(|d| d.handle().as_usize()).collect(); scanned.sort();
                    if listed != scanned { bad.push(format!("key-index: key {:?} lists the items {:?}, the items carrying it are {:?}", k.id(), listed, scanned)); }
                }
                let idless: Vec<String> = ds.data().filter(|d| d.id().is_none()).map(|d| format!("{}={:?}", d.key().id().unwrap_or("?"), d.value())).collect();
                for (i, x) in idless.iter().enumerate() { if idless[..i].contains(x) { bad.push(format!("twice: the id-less item {} occurs twice", x)); } }
            } else { bad.push("no dataset".into()); }
            bad
        };
        let cases: Vec<(&str, String, Option<String>)> = vec![
            ("same-document-merged-twice", doc(&[item(None, "pos", "noun"), item(Some("D1"), "pos", "verb")].join(", ")), Some(doc(&[item(None, "pos", "noun"), item(Some("D1"), "pos", "verb")].join(", ")))),
            ("second-document-moves-an-item-to-another-key", doc(&item(Some("D1"), "pos", "noun")), Some(doc(&item(Some("D1"), "lemma", "noun")))),
            ("second-document-repeats-an-idless-item", doc(&item(None, "pos", "noun")), Some(doc(&[item(None, "lemma", "x"), item(None, "pos", "noun")].join(", ")))),
            ("one-document-lists-an-idless-item-twice", doc(&[item(None, "pos", "noun"), item(None, "pos", "noun")].join(", ")), None),
        ];
        for (name, first, second) in cases {
            rep.count(&format!("dedup-path:merge:{}", name));
            rep.case(Some(&format!("dedup-path merge {}", name)));
            let ctx = vec![format!("first document: {}", first), format!("merged into it: {}", second.clone().unwrap_or("(nothing)".into()))];
            let r = guarded(std::panic::AssertUnwindSafe(|| -> Result<Vec<String>, StamError> {
                let mut st = AnnotationStore::from_str(&first, Config::default())?;
                if let Some(second) = &second { st.merge_json_str(second)?; }
                Ok(audit(&st))
            }));
            match r {
                Ok(Ok(bad)) => { if let Some(b) = bad.first() { rep.fail("oracle", &format!("vocabulary/merge/{}/{}", name, b.split(':').next().unwrap_or("?")), ctx, "every key lists exactly the items carrying it; no id-less (key, value) twice", b); } }
                Ok(Err(e)) => rep.fail("oracle", &format!("vocabulary/merge/{}/refused", name), ctx, "merged", &format!("{}", e)),
                Err(m) => rep.fail("panic", &format!("vocabulary/merge/{}/panic", name), ctx, "merged", &m),
            }
        }
        // a key of the second document whose identifier has the shape of a temporary one (`!K0`, `!K1`): one more key, not
        // the key with that handle under another name
        for tid in ["!K0", "!K1", "!K7"] {
            rep.count("dedup-path:merge:key-named-like-a-temporary-identifier");
            let first = doc(&item(Some("D1"), "pos", "noun"));
            let second = doc(&item(Some("D2"), tid, "x")).replace("{\"@type\": \"DataKey\", \"@id\": \"pos\"}, {\"@type\": \"DataKey\", \"@id\": \"lemma\"}", &format!("{{\"@type\": \"DataKey\", \"@id\": \"{}\"}}", tid));
            let ctx = vec![format!("first document: {}", first), format!("merged into it: {}", second)];
            let r = guarded(std::panic::AssertUnwindSafe(|| -> Result<(Vec<String>, Vec<String>), StamError> {
                let mut st = AnnotationStore::from_str(&first, Config::default())?;
                st.merge_json_str(&second)?;
                let ds = st.dataset("set").expect("dataset");
                let mut keys: Vec<String> = ds.keys().map(|k| k.id().unwrap_or("?").to_string()).collect(); keys.sort();
                let mut items: Vec<String> = ds.data().map(|d| format!("{}:{}={:?}", d.id().unwrap_or("-"), d.key().id().unwrap_or("?"), d.value())).collect(); items.sort();
                let mut bad = audit(&st);
                bad.extend(keys.iter().map(|k| format!("key {}", k)));
                Ok((bad, items))
            }));
            let want = ({ let mut k = vec!["key lemma".to_string(), "key pos".to_string(), format!("key {}", tid)]; k.sort(); k }, { let mut i = vec!["D1:pos=String(\"noun\")".to_string(), format!("D2:{}=String(\"x\")", tid)]; i.sort(); i });
            match r {
                Ok(Ok(got)) => { let mut g = got.clone(); g.0.sort(); if g != want { rep.fail("oracle", "vocabulary/merge/key-named-like-a-temporary-identifier", ctx, &format!("{:?}", want), &format!("{:?}", g)); } }
                Ok(Err(e)) => rep.fail("oracle", "vocabulary/merge/key-named-like-a-temporary-identifier/refused", ctx, "merged", &format!("{}", e)),
                Err(m) => rep.fail("panic", "vocabulary/merge/key-named-like-a-temporary-identifier/panic", ctx, "merged", &m),
            }
        }
    }
    // ---------- one dataset as a vocabulary under insertions, removals and merges: the Lean model `Vocab` (the key -> data
    // index the code keeps), and its invariants checked on the implementation's own dump ----------
    {
        let n = if opts.thorough() { 6000 } else { 800 };
        for i in 0..n {
            let nops = 2 + rng.below(14);
            let mut ops: Vec<String> = vec![];
            let mut merged = false;
            for _ in 0..nops {
                let r = rng.below(100);
                let reg = if rng.chance(35) { 1 } else { 0 };
                if r < 62 {
                    let id = if rng.chance(45) { format!("D{}", rng.below(5)) } else { "-".to_string() };
                    ops.push(format!("i{},{},k{},v{},{}", reg, id, rng.below(4), rng.below(3), if rng.chance(85) { 1 } else { 0 }));
                } else if r < 76 { ops.push(format!("d{},{}", reg, rng.below(8))); }
                else if r < 84 { ops.push(format!("k0,{}", rng.below(5))); }
                else { ops.push("m".into()); merged = true; }
            }
            let line = format!("vo {}", ops.join(" "));
            rep.count(if merged { "vocab:with-merge" } else { "vocab:no-merge" });
            rep.case(Some(&line));
            match guarded(std::panic::AssertUnwindSafe(|| vocab_exec(&ops))) {
                Ok((dump, bad)) => {
                    if let Some(b) = bad.first() { rep.fail("oracle", &format!("vocabulary/operations/{}", b.split(':').next().unwrap_or("?")), vec![line.clone()], "keys unique, identifiers unique, every key lists exactly the items carrying it (each once, in order), every item's key exists", b); }
                    rep.model_case(vec![line], vec![dump], "vocab");
                }
                Err(m) => rep.fail("panic", "vocabulary/operations/panic", vec![line.clone()], "no panic", &m),
            }
            let _ = i;
        }
    }
    // ---------- find_data = scan ----------
    let nstores = if opts.thorough() { 400 } else { 60 };
    for si in 0..nstores {
        let mut ex = Exec::new();
        let mut lines: Vec<String> = vec![];
        let mut outs: Vec<String> = vec![];
        let nops = 6 + rng.below(20);
        for _ in 0..nops {
            let set = format!("s{}", rng.below(2));
            let key = format!("k{}", rng.below(3));
            let val = rng.pick(&values).clone();
            let line = match rng.below(10) {
                0 => format!("st rmdata {} #{} {}", set, rng.below(6), rng.below(2)),
                1 => format!("st rmkey {} {} {}", set, key, rng.below(2)),
                2 => format!("st adddata {} d{} {} {}", set, rng.below(4), key, val),
                _ => format!("st adddata {} ~ {} {}", set, key, val),
            };
            // lists and empty-ish values contain '|' and ':' only; no spaces
            let before = all_data(&ex.store);
            let o = ex.exec(&line);
            let after = all_data(&ex.store);
            // dedup: inserting an existing (key, value) without id yields the existing item, nothing new
            if line.contains(" adddata ") && line.split_whitespace().nth(3) == Some("~") && o.starts_with("ok") {
                let kv = (set.clone(), key.clone(), val.clone());
                let existed = before.iter().any(|x| (x.0.clone(), x.1.clone(), x.2.clone()) == kv);
                let count_after = after.iter().filter(|x| (x.0.clone(), x.1.clone(), x.2.clone()) == kv).count();
                let idless_after = after.iter().filter(|x| (x.0.clone(), x.1.clone(), x.2.clone()) == kv && !x.3).count();
                if count_after < 1 || idless_after > 1 || (existed && after.len() != before.len()) {
                    rep.fail("oracle", "vocabulary/dedup", lines.iter().cloned().chain(std::iter::once(line.clone())).collect(), "exactly one id-less item per (key,value)", &format!("{} items, store size {} -> {}", count_after, before.len(), after.len()));
                }
            }
            lines.push(line);
            outs.push(o);
        }
        // queries
        let store = &ex.store;
        let sets: Vec<String> = vec!["*".into(), "s0".into(), "s1".into(), "s9".into()];
        let keys: Vec<String> = vec!["*".into(), "k0".into(), "k1".into(), "k2".into(), "k9".into()];
        let mut queries: Vec<(String, String, String)> = vec![];
        for _ in 0..(if opts.thorough() { 60 } else { 30 }) { queries.push((rng.pick(&sets).clone(), rng.pick(&keys).clone(), rng.pick(&ops).clone())); }
        // targeted: for the items of the store, the exact-match operator of their own value under their own set and key
        // (several items may carry the same key and value when they were given identifiers: all of them must be found)
        for (ds, dk, dv, _) in all_data(store).into_iter().take(16) {
            let exact = match dv.split_once(':') {
                Some(("i", n)) => format!("eqi:{}", n),
                Some(("f", q_)) => format!("eqf:{}", q_),
                Some(("s", x)) => format!("eq:{}", hex(x)),
                Some(("b", "1")) => "true".to_string(),
                Some(("b", _)) => "false".to_string(),
                Some(("d", t_)) => format!("dte:{}", t_),
                _ => if dv == "n" { "null".to_string() } else { continue },
            };
            if ds == "~" || dk == "~" { continue; }
            queries.push((ds.clone(), dk.clone(), exact.clone()));
            if rng.chance(30) { queries.push(("*".into(), "*".into(), exact)); }
        }
        for (set, key, os) in queries {
            let t: Vec<&str> = os.split_whitespace().collect();
            // scan
            let mut want: Vec<String> = vec![];
            for ds in store.datasets() {
                if set != "*" && ds.id() != Some(set.as_str()) { continue; }
                for d in ds.data() {
                    // (a key without a set is documented as invalid: the key is ignored with a warning)
                    if set != "*" && key != "*" && d.key().id() != Some(key.as_str()) { continue; }
                    if naive(d.value(), &t, &mut 0).unwrap_or(false) {
                        want.push(format!("{}.{}", ds.handle().as_usize(), d.handle().as_usize()));
                    }
                }
            }
            let line = format!("st finddata {} {} {}", set, key, os);
            let got = ex_exec(&ex, &line);
            let want_s = if want.is_empty() { "-".to_string() } else { want.join(",") };
            let ckey = format!("{} {}", si, line);
            rep.case(if want.is_empty() { None } else { Some(&ckey) });
            rep.count("find_data");
            let mut gs: Vec<&str> = got.split(',').collect();
            let mut ws: Vec<&str> = want_s.split(',').collect();
            gs.sort();
            ws.sort();
            if gs != ws {
                let mut c = lines.clone();
                c.push(line.clone());
                rep.fail(if got.starts_with("panic") { "panic" } else { "oracle" }, &format!("find_data/{}-{}", if set == "*" { "anyset" } else { "set" }, if key == "*" { "anykey" } else { "key" }), c, &want_s, &got);
            }
            lines.push(line);
            outs.push(got);
        }
        rep.model_case(lines, outs, "find_data");
    }
    rep.sample(json!({"value": "i:3", "operator": "or 2 eq:33 gt:5", "expected": true}));
    rep.sample(json!({"store": ["st adddata s0 ~ k0 i:3", "st adddata s0 ~ k0 i:3", "st adddata s0 ~ k1 s:v0"], "query": "st finddata s0 * ge:1", "expected": "0.0"}));
    crate::fam::data_crafted::run_all(&mut rep);
    rep
}

fn ex_exec(ex: &Exec, line: &str) -> String {
    // find_data does not mutate; the executor API takes &mut self
    let p = ex as *const Exec as *mut Exec;
    unsafe { (*p).exec(line) }
}

fn all_data(store: &AnnotationStore) -> Vec<(String, String, String, bool)> {
    let mut v = vec![];
    for ds in store.datasets() {
        for d in ds.data() {
            v.push((ds.id().unwrap_or("~").to_string(), d.key().id().unwrap_or("~").to_string(), show_value(d.value()), d.id().is_some()));
        }
    }
    v
}

/// the operations of a `vo` line on two real datasets (the first lives in a store, so that keys are removed by the
/// library's own `remove_key`); the dump the Lean driver prints, and what breaks the vocabulary's invariants
fn vocab_exec(ops: &[String]) -> (String, Vec<String>) {
    let mut store = AnnotationStore::default();
    store.add_dataset(AnnotationDataSetBuilder::new().with_id("a")).expect("dataset");
    let mut other = AnnotationDataSet::new(Config::default()).with_id("a");
    for op in ops {
        let f: Vec<&str> = op.split(',').collect();
        match f[0] {
            "i0" | "i1" => {
                let ds: &mut AnnotationDataSet = if f[0] == "i0" { store.get_mut("a").expect("dataset a") } else { &mut other };
                let id: BuildItem<AnnotationData> = if f[1] == "-" { BuildItem::None } else { BuildItem::Id(f[1].to_string()) };
                let _ = ds.insert_data(id, f[2], f[3], f[4] == "1");
            }
            "d0" | "d1" => {
                let ds: &mut AnnotationDataSet = if f[0] == "d0" { store.get_mut("a").expect("dataset a") } else { &mut other };
                let _ = <AnnotationDataSet as StoreFor<AnnotationData>>::remove(ds, AnnotationDataHandle::new(f[1].parse().unwrap()));
            }
            "k0" => { let _ = store.remove_key("a", DataKeyHandle::new(f[1].parse().unwrap()), true); }
            "m" => {
                let o = std::mem::replace(&mut other, AnnotationDataSet::new(Config::default()).with_id("a"));
                let ds: &mut AnnotationDataSet = store.get_mut("a").expect("dataset a");
                let _ = ds.merge(o);
            }
            _ => {}
        }
    }
    let show = |ds: &AnnotationDataSet| -> (String, Vec<String>) {
        let (kl, dl) = ds.verif_dump_slots();
        let keys: Vec<Option<String>> = kl.iter().enumerate().map(|(h, l)| if *l { let k: Result<&DataKey, _> = ds.get(DataKeyHandle::new(h)); k.ok().map(|k| k.as_str().to_string()) } else { None }).collect();
        let data: Vec<Option<(Option<String>, usize, String)>> = dl.iter().enumerate().map(|(h, l)| if *l { let d: Result<&AnnotationData, _> = ds.get(AnnotationDataHandle::new(h)); d.ok().map(|d| (d.id().map(|x| x.to_string()), d.key().as_usize(), match d.value() { DataValue::String(s) => s.clone(), v => format!("{:?}", v) })) } else { None }).collect();
        let idx: Vec<(usize, Vec<usize>)> = ds.verif_dump_key_data_map().into_iter().filter(|(_, v)| !v.is_empty()).collect();
        let dump = format!("K[{}] D[{}] X[{}]", keys.iter().map(|k| k.clone().unwrap_or("~".into())).collect::<Vec<_>>().join(","),
            data.iter().map(|d| match d { Some((id, k, v)) => format!("{}:{}={}", id.clone().unwrap_or("-".into()), k, v), None => "~".into() }).collect::<Vec<_>>().join(","),
            idx.iter().map(|(k, v)| format!("{}:{}", k, v.iter().map(|x| x.to_string()).collect::<Vec<_>>().join("."))).collect::<Vec<_>>().join(","));
        // the invariants, from the dump alone
        let mut bad = vec![];
        for (i, a) in keys.iter().enumerate() { for b in keys.iter().skip(i + 1) { if a.is_some() && a == b { bad.push(format!("keys-unique: the key {:?} exists twice", a)); } } }
        for (i, a) in data.iter().enumerate() { for b in data.iter().skip(i + 1) { if let (Some((Some(x), _, _)), Some((Some(y), _, _))) = (a, b) { if x == y { bad.push(format!("ids-unique: two items {} (first at {})", x, i)); } } } }
        for k in 0..keys.len().max(idx.iter().map(|(k, _)| k + 1).max().unwrap_or(0)) {
            let listed: Vec<usize> = idx.iter().find(|(kk, _)| *kk == k).map(|(_, v)| v.clone()).unwrap_or_default();
            let carrying: Vec<usize> = data.iter().enumerate().filter(|(_, d)| matches!(d, Some((_, kk, _)) if *kk == k)).map(|(h, _)| h).collect();
            if listed != carrying { bad.push(format!("key-index: key {} lists {:?}, the items carrying it are {:?}", k, listed, carrying)); }
        }
        for d in data.iter().flatten() { if !matches!(keys.get(d.1), Some(Some(_))) { bad.push(format!("key-exists: an item carries key {} which does not exist", d.1)); } }
        (dump, bad)
    };
    let a: &AnnotationDataSet = store.get("a").expect("dataset a");
    let (da, mut bad) = show(a);
    let (db, bad2) = show(&other);
    bad.extend(bad2);
    (format!("{} | {}", da, db), bad)
}
