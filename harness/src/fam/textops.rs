//! C07: text search, split, trim, sequence, regex and segmentation agree with plain string operations.
use crate::common::*;
use serde_json::json;
use stam::*;

type R = (usize, usize);

fn fmt_ranges(v: &[R]) -> String {
    if v.is_empty() { "-".into() } else { v.iter().map(|(b, e)| format!("{}-{}", b, e)).collect::<Vec<_>>().join(",") }
}

struct W {
    store: AnnotationStore,
    text: String,
    chars: Vec<char>,
}

fn world(text: &str, known: &[R]) -> W {
    let mut store = new_store();
    store.add_resource(TextResourceBuilder::new().with_id("r").with_text(text)).unwrap();
    for r in known {
        let _ = store.annotate(AnnotationBuilder::new().with_target(SelectorBuilder::textselector("r", Offset::simple(r.0, r.1))));
    }
    W { store, text: text.to_string(), chars: text.chars().collect() }
}

impl W {
    fn sub(&self, b: usize, e: usize) -> String {
        self.chars[b..e].iter().collect()
    }
    /// char index (absolute) of a byte offset inside sub-text starting at char b
    fn charpos(&self, b: usize, sub: &str, byte: usize) -> usize {
        b + sub[..byte].chars().count()
    }
}

fn res_s<T: std::fmt::Debug>(r: &Result<T, String>) -> String {
    match r {
        Ok(v) => format!("{:?}", v),
        Err(m) => format!("panic:{}", m.chars().take(60).collect::<String>()),
    }
}

/// run `f` on the resource (range None) or on the sub-selection
fn with_target<T>(w: &W, range: Option<R>, f: impl Fn(&dyn Fn(&str) -> Vec<R>, &ResultItem<TextResource>, Option<&ResultTextSelection>) -> T) -> T {
    let res = w.store.resource("r").unwrap();
    let dummy = |_: &str| vec![];
    match range {
        None => f(&dummy, &res, None),
        Some((b, e)) => {
            let sel = res.textselection(&Offset::simple(b, e)).expect("sub-selection");
            f(&dummy, &res, Some(&sel))
        }
    }
}

fn hexs(s: &str) -> String {
    hex(s)
}

#[allow(clippy::too_many_arguments)]
fn check_find(rep: &mut Report, w: &W, range: Option<R>, needle: &str) {
    let (b, e) = range.unwrap_or((0, w.chars.len()));
    let sub = w.sub(b, e);
    // oracle: iterated leftmost non-overlapping str::find on the plain sub-string
    let mut want: Vec<R> = vec![];
    let mut from = 0usize;
    while let Some(k) = sub[from..].find(needle) {
        let s = from + k;
        let en = s + needle.len();
        want.push((w.charpos(b, &sub, s), w.charpos(b, &sub, en)));
        from = en;
        if needle.is_empty() { break; }
    }
    let got = guarded(std::panic::AssertUnwindSafe(|| {
        with_target(w, range, |_, res, sel| match sel {
            None => res.find_text(needle).take(200).map(|t| (t.begin(), t.end())).collect::<Vec<R>>(),
            Some(s) => s.find_text(needle).take(200).map(|t| (t.begin(), t.end())).collect::<Vec<R>>(),
        })
    }));
    let line = format!("txt find {} {} {} {}", hexs(&w.text), b, e, hexs(needle));
    rep.case(if want.is_empty() { None } else { Some(&line) });
    rep.count("find_text");
    let got_s = match &got { Ok(v) => fmt_ranges(v), Err(m) => format!("panic:{}", m.chars().take(50).collect::<String>()) };
    if got.as_ref().ok() != Some(&want) {
        rep.fail(if got.is_err() { "panic" } else { "oracle" }, &format!("find_text/{}", if range.is_some() { "sub" } else { "res" }), vec![format!("text={:?} range={:?} needle={:?}", w.text, range, needle), line.clone()], &fmt_ranges(&want), &got_s);
    }
    rep.model_case(vec![line], vec![got_s], "find_text");
}

fn lower_changes_len(s: &str) -> bool {
    s.chars().any(|c| c.to_lowercase().map(|x| x.len_utf8()).sum::<usize>() != c.len_utf8() || c.to_lowercase().count() != 1)
}

fn check_find_nocase(rep: &mut Report, w: &W, range: Option<R>, needle: &str) {
    let (b, e) = range.unwrap_or((0, w.chars.len()));
    let cs: &[char] = &w.chars[b..e];
    let lneedle = needle.to_lowercase();
    // oracle on code points: leftmost non-overlapping [i,j) with lowercase(text[i..j]) == lowercase(needle)
    let mut want: Vec<R> = vec![];
    let mut i = 0;
    'outer: while i <= cs.len() {
        for j in i + 1..=cs.len() {
            let cand: String = cs[i..j].iter().collect::<String>().to_lowercase();
            if cand == lneedle {
                want.push((b + i, b + j));
                i = j;
                continue 'outer;
            }
            if cand.len() > lneedle.len() + 8 { break; }
        }
        i += 1;
    }
    let got = guarded(std::panic::AssertUnwindSafe(|| {
        with_target(w, range, |_, res, sel| match sel {
            None => res.find_text_nocase(needle).take(200).map(|t| (t.begin(), t.end())).collect::<Vec<R>>(),
            Some(s) => s.find_text_nocase(needle).take(200).map(|t| (t.begin(), t.end())).collect::<Vec<R>>(),
        })
    }));
    let line = format!("txt findnc {} {} {} {}", hexs(&w.text), b, e, hexs(needle));
    rep.case(if want.is_empty() { None } else { Some(&line) });
    rep.count("find_text_nocase");
    if got.as_ref().ok() != Some(&want) {
        let sub: String = cs.iter().collect();
        let cls = if lower_changes_len(&sub) || lower_changes_len(needle) { "length-changing-lowercase" } else { "plain" };
        rep.fail(if got.is_err() { "panic" } else { "oracle" }, &format!("find_text_nocase/{}", cls), vec![format!("text={:?} range={:?} needle={:?}", w.text, range, needle), line], &fmt_ranges(&want), &res_s(&got));
    }
}

fn check_split(rep: &mut Report, w: &W, range: Option<R>, delim: &str) {
    let (b, e) = range.unwrap_or((0, w.chars.len()));
    let sub = w.sub(b, e);
    let mut want: Vec<R> = vec![];
    for piece in sub.split(delim) {
        let off = piece.as_ptr() as usize - sub.as_ptr() as usize;
        want.push((w.charpos(b, &sub, off), w.charpos(b, &sub, off + piece.len())));
    }
    let got = guarded(std::panic::AssertUnwindSafe(|| {
        with_target(w, range, |_, res, sel| match sel {
            None => res.split_text(delim).take(300).map(|t| (t.begin(), t.end())).collect::<Vec<R>>(),
            Some(s) => s.split_text(delim).take(300).map(|t| (t.begin(), t.end())).collect::<Vec<R>>(),
        })
    }));
    let line = format!("txt split {} {} {} {}", hexs(&w.text), b, e, hexs(delim));
    rep.case(if want.len() > 1 { Some(&line) } else { None });
    rep.count("split_text");
    let got_s = match &got { Ok(v) => fmt_ranges(v), Err(m) => format!("panic:{}", m.chars().take(50).collect::<String>()) };
    if got.as_ref().ok() != Some(&want) {
        rep.fail(if got.is_err() { "panic" } else { "oracle" }, &format!("split_text/{}", if range.is_some() { "sub" } else { "res" }), vec![format!("text={:?} range={:?} delimiter={:?}", w.text, range, delim), line.clone()], &fmt_ranges(&want), &got_s);
    }
    // partition: consecutive pieces separated by exactly the delimiter, covering the searched text
    if let Ok(v) = &got {
        if !delim.is_empty() && !v.is_empty() {
            let dl = delim.chars().count();
            let ok = v[0].0 == b && v[v.len() - 1].1 == e && v.windows(2).all(|p| p[0].1 + dl == p[1].0 && w.sub(p[0].1, p[1].0) == delim);
            if !ok {
                rep.fail("oracle", "split_text/not-a-partition", vec![format!("text={:?} range={:?} delimiter={:?}", w.text, range, delim), line.clone()], "consecutive pieces covering the searched text", &got_s);
            }
        }
    }
    if !delim.is_empty() {
        rep.model_case(vec![line], vec![got_s], "split_text");
    }
}

fn check_trim(rep: &mut Report, w: &W, range: Option<R>, set: &[char]) {
    let (b, e) = range.unwrap_or((0, w.chars.len()));
    let cs = &w.chars[b..e];
    let lead = cs.iter().take_while(|c| set.contains(c)).count();
    let trail = cs[lead..].iter().rev().take_while(|c| set.contains(c)).count();
    let want: R = (b + lead, e - trail);
    let got = guarded(std::panic::AssertUnwindSafe(|| {
        with_target(w, range, |_, res, sel| match sel {
            None => res.trim_text(set).map(|t| (t.begin(), t.end())).map_err(|_| ()),
            Some(s) => s.trim_text(set).map(|t| (t.begin(), t.end())).map_err(|_| ()),
        })
    }));
    let got2 = guarded(std::panic::AssertUnwindSafe(|| {
        with_target(w, range, |_, res, sel| match sel {
            None => res.trim_text_with(|c| set.contains(&c)).map(|t| (t.begin(), t.end())).map_err(|_| ()),
            Some(s) => s.trim_text_with(|c| set.contains(&c)).map(|t| (t.begin(), t.end())).map_err(|_| ()),
        })
    }));
    let setstr: String = set.iter().collect();
    let line = format!("txt trim {} {} {} {}", hexs(&w.text), b, e, hexs(&setstr));
    rep.case(if lead + trail > 0 { Some(&line) } else { None });
    rep.count("trim_text");
    let all = lead == cs.len();
    let accept = |g: &Result<Result<R, ()>, String>| -> bool {
        match g {
            Ok(Ok(r)) => if all { r.0 == r.1 && r.0 >= b && r.1 <= e } else { *r == want },
            _ => false,
        }
    };
    let got_s = match &got { Ok(Ok(r)) => format!("{}-{}", r.0, r.1), Ok(Err(())) => "err".into(), Err(m) => format!("panic:{}", m.chars().take(50).collect::<String>()) };
    if !accept(&got) {
        rep.fail(if got.is_err() { "panic" } else { "oracle" }, &format!("trim_text/{}", if all { "all-trimmable" } else { "general" }), vec![format!("text={:?} range={:?} set={:?}", w.text, range, set), line.clone()], &format!("{}-{}", want.0, want.1), &got_s);
    }
    if !accept(&got2) {
        rep.fail(if got2.is_err() { "panic" } else { "oracle" }, &format!("trim_text_with/{}", if all { "all-trimmable" } else { "general" }), vec![format!("text={:?} range={:?} set={:?}", w.text, range, set), line.clone()], &format!("{}-{}", want.0, want.1), &res_s(&got2));
    }
    rep.model_case(vec![line], vec![got_s], "trim_text");
}

fn check_regex(rep: &mut Report, w: &W, range: Option<R>, patterns: &[&str], allow_overlap: bool) {
    let (b, e) = range.unwrap_or((0, w.chars.len()));
    let sub = w.sub(b, e);
    let exprs: Vec<Regex> = patterns.iter().map(|p| Regex::new(p).unwrap()).collect();
    // oracle for a single expression: the regex crate on the plain sub-string, byte offsets -> code points
    let mut want: Vec<(Vec<usize>, Vec<R>)> = vec![];
    if exprs.len() == 1 {
        let re = &exprs[0];
        if re.captures_len() > 1 {
            for caps in re.captures_iter(&sub) {
                let mut groups = vec![];
                let mut sels = vec![];
                for (i, g) in caps.iter().enumerate().skip(1) {
                    if let Some(g) = g {
                        groups.push(i);
                        sels.push((w.charpos(b, &sub, g.start()), w.charpos(b, &sub, g.end())));
                    }
                }
                want.push((groups, sels));
            }
        } else {
            for m in re.find_iter(&sub) {
                want.push((vec![], vec![(w.charpos(b, &sub, m.start()), w.charpos(b, &sub, m.end()))]));
            }
        }
    }
    let got = guarded(std::panic::AssertUnwindSafe(|| {
        with_target(w, range, |_, res, sel| {
            let it = match sel {
                None => res.find_text_regex(&exprs, None, allow_overlap),
                Some(s) => s.find_text_regex(&exprs, None, allow_overlap),
            };
            match it {
                Ok(it) => Ok(it.take(300).map(|m| (m.expression_index(), m.capturegroups().to_vec(), m.textselections().iter().map(|t| (t.begin(), t.end())).collect::<Vec<R>>(), m.text().iter().map(|s| s.to_string()).collect::<Vec<String>>())).collect::<Vec<_>>()),
                Err(_) => Err(()),
            }
        })
    }));
    let key = format!("regex {} {:?} {:?} {}", w.text, range, patterns, allow_overlap);
    rep.case(if want.is_empty() && exprs.len() == 1 { None } else { Some(&key) });
    rep.count("find_text_regex");
    let ctx = vec![format!("text={:?} range={:?} patterns={:?} allow_overlap={}", w.text, range, patterns, allow_overlap)];
    let cls = format!("{}{}", if range.is_some() { "sub" } else { "res" }, if exprs.iter().any(|r| r.captures_len() > 1) { "-capture" } else { "" });
    match &got {
        Err(m) => rep.fail("panic", &format!("find_text_regex/{}", cls), ctx, "matches", m),
        Ok(Err(())) => rep.fail("oracle", &format!("find_text_regex/{}/error", cls), ctx, "matches", "error"),
        Ok(Ok(ms)) => {
            if exprs.len() == 1 {
                let g: Vec<(Vec<usize>, Vec<R>)> = ms.iter().map(|m| (m.1.clone(), m.2.clone())).collect();
                if g != want {
                    rep.fail("oracle", &format!("find_text_regex/{}", cls), ctx.clone(), &format!("{:?}", want), &format!("{:?}", g));
                }
            } else {
                // several expressions: every reported selection must be a true match of its expression inside the range,
                // results ordered by position, and (without overlap) non-overlapping
                // what every expression matches on its own (through the regex crate on the plain sub-string)
                let mut want_all: Vec<(usize, Vec<usize>, Vec<R>)> = vec![];
                let mut overall: Vec<usize> = vec![]; // where the whole match (context included) begins, per entry of want_all
                for (xi, re) in exprs.iter().enumerate() {
                    if re.captures_len() > 1 {
                        for caps in re.captures_iter(&sub) {
                            let (mut groups, mut sels) = (vec![], vec![]);
                            for (i, g) in caps.iter().enumerate().skip(1) { if let Some(g) = g { groups.push(i); sels.push((w.charpos(b, &sub, g.start()), w.charpos(b, &sub, g.end()))); } }
                            want_all.push((xi, groups, sels));
                            overall.push(w.charpos(b, &sub, caps.get(0).map(|g| g.start()).unwrap_or(0)));
                        }
                    } else {
                        for m in re.find_iter(&sub) { want_all.push((xi, vec![], vec![(w.charpos(b, &sub, m.start()), w.charpos(b, &sub, m.end()))])); overall.push(w.charpos(b, &sub, m.start())); }
                    }
                }
                let got_all: Vec<(usize, Vec<usize>, Vec<R>)> = ms.iter().map(|m| (m.0, m.1.clone(), m.2.clone())).collect();
                if ms.len() < 300 {
                    if allow_overlap {
                        let (mut a, mut c) = (want_all.clone(), got_all.clone());
                        a.sort(); c.sort();
                        if a != c { rep.fail("oracle", &format!("find_text_regex/{}/multi-not-all-matches", cls), ctx.clone(), &format!("{:?}", a), &format!("{:?}", c)); }
                    } else if let Some(x) = got_all.iter().find(|x| !want_all.contains(x)) {
                        rep.fail("oracle", &format!("find_text_regex/{}/multi-not-a-match", cls), ctx.clone(), "a match of its expression", &format!("{:?}", x));
                    }
                    // "results are returned in the exact order they are found in the text": by where the whole match begins
                    // (capture groups are what is returned, the rest of the match is context)
                    let mut used = vec![false; want_all.len()];
                    // (a match whose optional capture group did not take part returns no selection at all: it has no place in the order of selections)
                    let keys: Vec<usize> = got_all.iter().filter_map(|x| { let i = (0..want_all.len()).find(|i| !used[*i] && want_all[*i] == *x)?; used[i] = true; if x.2.is_empty() { None } else { Some(overall[i]) } }).collect();
                    if keys.windows(2).any(|k| k[0] > k[1]) {
                        rep.fail("oracle", &format!("find_text_regex/{}/multi-order", cls), ctx.clone(), "results in order of position", &format!("{:?}", got_all));
                    }
                }
                // the documented contract of allow_overlap=false ("determines if the matching expressions are allowed to overlap"):
                // no result begins inside an earlier result (expressions without capture groups: the selection is the match)
                if !allow_overlap && exprs.iter().all(|r| r.captures_len() == 1) {
                    for k in 1..ms.len() {
                        let (p, n) = (ms[k - 1].2[0], ms[k].2[0]);
                        if n.0 >= p.0 && n.0 < p.1 { rep.fail("oracle", &format!("find_text_regex/{}/multi-overlap", cls), ctx.clone(), "no result begins inside an earlier one (allow_overlap=false)", &format!("{:?} then {:?} in {:?}", p, n, got_all)); break; }
                    }
                    // and nothing else is left out: an occurrence of an expression that is not reported begins inside a
                    // reported match of another expression (one that begins where another ends does not overlap it)
                    if ms.len() < 300 {
                        for x in want_all.iter() {
                            if got_all.contains(x) { continue; }
                            let mb = x.2[0].0;
                            if !got_all.iter().any(|g| g.0 != x.0 && g.2[0].0 <= mb && mb < g.2[0].1) {
                                rep.fail("oracle", &format!("find_text_regex/{}/multi-occurrence-left-out", cls), ctx.clone(), &format!("{:?} reported: it overlaps no reported match of another expression", x), &format!("{:?}", got_all));
                                break;
                            }
                        }
                    }
                }
                // the merge of the expressions' matches against the Lean model (StamModel/RegexMerge.lean, `rx` lines): the
                // regex library's matches per expression go in, the merged stream is compared
                if ms.len() < 300 && exprs.iter().all(|r| r.captures_len() == 1) {
                    let lists: Vec<String> = (0..exprs.len()).map(|xi| { let l: Vec<String> = want_all.iter().filter(|x| x.0 == xi).map(|x| format!("{}-{}", x.2[0].0, x.2[0].1)).collect(); if l.is_empty() { "-".to_string() } else { l.join(",") } }).collect();
                    let out = if got_all.is_empty() { "-".to_string() } else { got_all.iter().map(|g| format!("{}:{}-{}", g.0, g.2[0].0, g.2[0].1)).collect::<Vec<_>>().join(" ") };
                    rep.count(if allow_overlap { "regex-merge:with-overlap" } else { "regex-merge:without-overlap" });
                    // (the text, the range and the expressions follow so that the line can be replayed on the implementation; the model reads the first two fields)
                    rep.model_case(vec![format!("rx {} {} {} {} {} {}", allow_overlap as u8, lists.join("/"), hexs(&w.text), b, e, patterns.iter().map(|p| hexs(p)).collect::<Vec<_>>().join(","))], vec![out], "regex-merge");
                }
                let mut last = 0usize;
                for m in ms {
                    let re = &exprs[m.0];
                    for (r, t) in m.2.iter().zip(m.3.iter()) {
                        if r.0 < b || r.1 > e || r.0 > r.1 || w.sub(r.0, r.1) != *t {
                            rep.fail("oracle", &format!("find_text_regex/{}/multi-wrong-position", cls), ctx.clone(), "selection text = matched text inside the searched range", &format!("{:?} {:?}", r, t));
                        }
                    }
                    if m.1.is_empty() && !m.2.is_empty() {
                        let r = m.2[0];
                        if !re.find_iter(&sub).any(|x| (w.charpos(b, &sub, x.start()), w.charpos(b, &sub, x.end())) == r) {
                            rep.fail("oracle", &format!("find_text_regex/{}/multi-not-a-match", cls), ctx.clone(), "a match of the expression", &format!("{:?}", r));
                        }
                        if r.0 < last {
                            rep.fail("oracle", &format!("find_text_regex/{}/multi-order", cls), ctx.clone(), "results in order of position", &format!("{:?} after {}", r, last));
                        }
                        last = r.0;
                    }
                }
            }
        }
    }
}

fn check_sequence(rep: &mut Report, w: &W, range: Option<R>, frags: &[&str], case_sensitive: bool) {
    let (b, e) = range.unwrap_or((0, w.chars.len()));
    let skip = |c: char| !c.is_alphabetic();
    // oracle: same greedy definition on the plain string
    let cs = &w.chars[b..e];
    let mut pos = 0usize;
    let mut want: Option<Vec<R>> = Some(vec![]);
    for f in frags {
        // (without regard to case: the stretch of the text whose lower-casing is the lower-cased fragment; lower-casing may
        // change the number of code points, so the stretch need not be as long as the fragment)
        let fl: String = if case_sensitive { f.to_string() } else { f.to_lowercase() };
        let mut found: Option<(usize, usize)> = None;
        let mut i = pos;
        'scan: while i < cs.len() {
            for j in i + 1..=cs.len() {
                let cand: String = if case_sensitive { cs[i..j].iter().collect() } else { cs[i..j].iter().collect::<String>().to_lowercase() };
                if cand == fl { found = Some((i, j)); break 'scan; }
                if cand.len() > fl.len() + 8 { break; }
            }
            i += 1;
        }
        match found {
            Some((i, j)) if cs[pos..i].iter().all(|c| skip(*c)) => {
                want.as_mut().unwrap().push((b + i, b + j));
                pos = j;
            }
            _ => { want = None; break; }
        }
    }
    let sub: String = cs.iter().collect();
    let _ = &sub;
    if frags.iter().any(|f| f.is_empty()) {
        return;
    }
    let got = guarded(std::panic::AssertUnwindSafe(|| {
        with_target(w, range, |_, res, sel| match sel {
            None => res.find_text_sequence(frags, skip, case_sensitive).map(|v| v.iter().map(|t| (t.begin(), t.end())).collect::<Vec<R>>()),
            Some(s) => s.find_text_sequence(frags, skip, case_sensitive).map(|v| v.iter().map(|t| (t.begin(), t.end())).collect::<Vec<R>>()),
        })
    }));
    let key = format!("seq {} {:?} {:?} {}", w.text, range, frags, case_sensitive);
    rep.case(if want.is_some() { Some(&key) } else { None });
    rep.count("find_text_sequence");
    if got.as_ref().ok() != Some(&want) {
        rep.fail(if got.is_err() { "panic" } else { "oracle" }, &format!("find_text_sequence/{}", if range.is_some() { "sub" } else { "res" }), vec![format!("text={:?} range={:?} fragments={:?} case_sensitive={}", w.text, range, frags, case_sensitive)], &format!("{:?}", want), &res_s(&got));
    }
}

fn check_segmentation(rep: &mut Report, w: &W, known: &[R], range: Option<R>) {
    let (b, e) = range.unwrap_or((0, w.chars.len()));
    let mut cuts: Vec<usize> = vec![];
    for r in known {
        for p in [r.0, r.1] {
            if p > b && p < e && !cuts.contains(&p) { cuts.push(p); }
        }
    }
    cuts.sort();
    let mut want: Vec<R> = vec![];
    let mut cur = b;
    for c in &cuts { want.push((cur, *c)); cur = *c; }
    if cur < e { want.push((cur, e)); }
    let got = guarded(std::panic::AssertUnwindSafe(|| {
        let res = w.store.resource("r").unwrap();
        match range {
            None => res.segmentation().take(300).map(|t| (t.begin(), t.end())).collect::<Vec<R>>(),
            Some((b, e)) => res.segmentation_in_range(b, e).take(300).map(|t| (t.begin(), t.end())).collect::<Vec<R>>(),
        }
    }));
    let mut kn: Vec<R> = known.to_vec();
    kn.dedup();
    let line = format!("txt segm {} {} {}", fmt_ranges(&kn), b, e);
    let segkey = format!("{} {}", w.text.len(), line);
    rep.case(if want.len() > 1 { Some(&segkey) } else { None });
    rep.count("segmentation");
    let got_s = match &got { Ok(v) => fmt_ranges(v), Err(m) => format!("panic:{}", m.chars().take(50).collect::<String>()) };
    if got.as_ref().ok() != Some(&want) {
        rep.fail(if got.is_err() { "panic" } else { "oracle" }, &format!("segmentation/{}", if range.is_some() { "range" } else { "res" }), vec![format!("text={:?} known={:?} range={:?}", w.text, known, range), line.clone()], &fmt_ranges(&want), &got_s);
    }
    rep.model_case(vec![line], vec![got_s], "segmentation");
}

fn unhex(s: &str) -> String {
    if s == "-" { return String::new(); }
    let bytes: Vec<u8> = (0..s.len() / 2).filter_map(|i| u8::from_str_radix(&s[2 * i..2 * i + 2], 16).ok()).collect();
    String::from_utf8_lossy(&bytes).to_string()
}

/// an `rx` line on the implementation: the search with the expressions of the line on its text
pub fn exec_rx(line: &str) -> String {
    let t: Vec<&str> = line.split_whitespace().collect();
    if t.len() != 7 { return "bad-op".into(); }
    let text = unhex(t[3]);
    let w = world(&text, &[]);
    let (b, e): (usize, usize) = (t[4].parse().unwrap_or(0), t[5].parse().unwrap_or(0));
    let exprs: Vec<Regex> = match t[6].split(',').map(|p| Regex::new(&unhex(p))).collect::<Result<Vec<_>, _>>() { Ok(v) => v, Err(_) => return "bad-op".into() };
    let range = if b == 0 && e == w.chars.len() { None } else { Some((b, e)) };
    let r = guarded(std::panic::AssertUnwindSafe(|| {
        with_target(&w, range, |_, res, sel| {
            let it = match sel { None => res.find_text_regex(&exprs, None, t[1] == "1"), Some(s) => s.find_text_regex(&exprs, None, t[1] == "1") };
            match it { Ok(it) => it.take(300).map(|m| format!("{}:{}-{}", m.expression_index(), m.textselections()[0].begin(), m.textselections()[0].end())).collect::<Vec<_>>().join(" "), Err(_) => "err".to_string() }
        })
    }));
    match r { Ok(s) if s.is_empty() => "-".into(), Ok(s) => s, Err(m) => format!("panic:{}", m.chars().take(50).collect::<String>()) }
}

pub fn exec_line(line: &str) -> String {
    let t: Vec<&str> = line.split_whitespace().collect();
    if t.len() < 5 { return "bad-op".into(); }
    let num = |i: usize| -> usize { t[i].parse().unwrap_or(0) };
    match t[1] {
        "find" | "split" | "trim" if t.len() == 6 => {
            let text = unhex(t[2]);
            let w = world(&text, &[]);
            let (b, e) = (num(3), num(4));
            let arg = unhex(t[5]);
            let range = if b == 0 && e == w.chars.len() { None } else { Some((b, e)) };
            let r = guarded(std::panic::AssertUnwindSafe(|| {
                with_target(&w, range, |_, res, sel| match (t[1], sel) {
                    ("find", None) => fmt_ranges(&res.find_text(&arg).take(200).map(|t| (t.begin(), t.end())).collect::<Vec<R>>()),
                    ("find", Some(s)) => fmt_ranges(&s.find_text(&arg).take(200).map(|t| (t.begin(), t.end())).collect::<Vec<R>>()),
                    ("split", None) => fmt_ranges(&res.split_text(&arg).take(300).map(|t| (t.begin(), t.end())).collect::<Vec<R>>()),
                    ("split", Some(s)) => fmt_ranges(&s.split_text(&arg).take(300).map(|t| (t.begin(), t.end())).collect::<Vec<R>>()),
                    (_, None) => res.trim_text(&arg.chars().collect::<Vec<char>>()).map(|t| format!("{}-{}", t.begin(), t.end())).unwrap_or("err".into()),
                    (_, Some(s)) => s.trim_text(&arg.chars().collect::<Vec<char>>()).map(|t| format!("{}-{}", t.begin(), t.end())).unwrap_or("err".into()),
                })
            }));
            match r { Ok(s) => s, Err(m) => format!("panic:{}", m.chars().take(50).collect::<String>()) }
        }
        "segm" if t.len() == 5 => {
            let known: Vec<R> = if t[2] == "-" { vec![] } else { t[2].split(',').filter_map(|x| x.split_once('-').map(|(b, e)| (b.parse().unwrap_or(0), e.parse().unwrap_or(0)))).collect() };
            let (b, e) = (num(3), num(4));
            let n = known.iter().map(|r| r.1).max().unwrap_or(0).max(e);
            let text: String = (0..n).map(|_| 'a').collect();
            let w = world(&text, &known);
            let r = guarded(std::panic::AssertUnwindSafe(|| {
                let res = w.store.resource("r").unwrap();
                fmt_ranges(&res.segmentation_in_range(b, e).take(300).map(|t| (t.begin(), t.end())).collect::<Vec<R>>())
            }));
            match r { Ok(s) => s, Err(m) => format!("panic:{}", m.chars().take(50).collect::<String>()) }
        }
        _ => "bad-op".into(),
    }
}

pub fn run(opts: &Opts) -> Report {
    let mut rep = Report::new(
        "textops",
        "texts over {a,A,b,é,İ,space,😀}: every text up to a short length (exhaustive) and seeded longer ones; every sub-range or a sample of them; needles/delimiters of 1-2 code points incl. multi-byte; trim sets; regular expressions with and without capture groups, singly and in pairs; known selections for segmentation; \
         non-trivial = the plain-string operation yields at least one match / more than one piece / something to trim; distinct = distinct (operation, text, range, argument)",
    );
    let alpha = ["a", "A", "b", "\u{e9}", "\u{130}", " ", "\u{1F600}"];
    let mut rng = Rng::new(opts.seed);
    let maxlen = if opts.thorough() { 4 } else { 3 };
    let mut texts: Vec<String> = vec![String::new()];
    let mut frontier = vec![String::new()];
    for _ in 0..maxlen {
        let mut next = vec![];
        for t in &frontier { for a in alpha { next.push(format!("{}{}", t, a)); } }
        texts.extend(next.iter().cloned());
        frontier = next;
    }
    for _ in 0..(if opts.thorough() { 300 } else { 40 }) {
        let l = 5 + rng.below(if opts.thorough() { 30 } else { 14 });
        texts.push((0..l).map(|_| *rng.pick(&alpha)).collect());
    }
    texts.push("Hello wonderful world, hello World".into());
    texts.push("a\u{130}b \u{130}stanbul".into());
    let needles = ["a", "b", " ", "\u{e9}", "\u{1F600}", "ab", "a ", "aa", "\u{130}", "A"];
    let delims = [" ", "a", "\u{e9}", "ab", "  ", "\u{1F600}"];
    let trimsets: [&[char]; 4] = [&[' '], &['a', ' '], &['\u{e9}', '\u{1F600}'], &['a', 'A', 'b', '\u{e9}', '\u{130}', ' ', '\u{1F600}']];
    let regexes = ["[a-z]+", "a(b)?", "(a)(b)", "\\s+", "\u{e9}|\u{1F600}", "(?i)a+", "(\\w)\\s(\\w)", "b*", "(\\w+) (\\w+)", "\\w (\\w)", "a b", "\\w \\w", "[ab]", "\\w", "[a-zA-Z ]+", "(a)?(b)", "(a)|(b)", "(\u{e9})?( )?(\\w)"];
    for (ti, text) in texts.iter().enumerate() {
        let n = text.chars().count();
        // known selections for segmentation
        let k = rng.below(5);
        let known: Vec<R> = (0..k).map(|_| { let b = rng.below(n + 1); (b, b + rng.below(n - b + 1)) }).collect();
        let w = world(text, &known);
        // ranges: whole resource + sub-ranges (all for short texts, a sample otherwise)
        let mut ranges: Vec<Option<R>> = vec![None];
        for b in 0..=n { for e in b..=n {
            if (b, e) == (0, n) { continue; }
            if n <= 3 || rng.chance(if opts.thorough() { 25 } else { 10 }) { ranges.push(Some((b, e))); }
        } }
        for range in &ranges {
            for nd in needles {
                if n > 3 || ti % 2 == 0 || opts.thorough() { check_find(&mut rep, &w, *range, nd); }
                if rng.chance(30) { check_find_nocase(&mut rep, &w, *range, nd); }
            }
            for d in delims { if rng.chance(50) || n <= 3 { check_split(&mut rep, &w, *range, d); } }
            for s in trimsets { check_trim(&mut rep, &w, *range, s); }
            if rng.chance(40) {
                let re = *rng.pick(&regexes);
                check_regex(&mut rep, &w, *range, &[re], false);
                let re2 = *rng.pick(&regexes);
                check_regex(&mut rep, &w, *range, &[re, re2], rng.chance(50));
            }
            if rng.chance(20) {
                check_sequence(&mut rep, &w, *range, &["a", "b"], true);
                check_sequence(&mut rep, &w, *range, &["a", "a"], false);
                check_sequence(&mut rep, &w, *range, &["a", "b", "a"], true);
                check_sequence(&mut rep, &w, *range, &["a", "a", "a", "b"], rng.chance(50));
                // three to five fragments taken from the text itself (its alphabetic runs), consecutive or with one left out
                let (rb, re_) = range.unwrap_or((0, n));
                let cs: Vec<char> = text.chars().collect();
                let mut toks: Vec<String> = vec![];
                let mut cur = String::new();
                for c in &cs[rb..re_] { if c.is_alphabetic() { cur.push(*c); } else if !cur.is_empty() { toks.push(std::mem::take(&mut cur)); } }
                if !cur.is_empty() { toks.push(cur); }
                if toks.len() >= 3 {
                    let k = 3 + rng.below((toks.len() - 2).min(3));
                    let start = rng.below(toks.len() - k + 1);
                    let mut fr: Vec<&str> = toks[start..start + k].iter().map(|s| s.as_str()).collect();
                    check_sequence(&mut rep, &w, *range, &fr, true);
                    check_sequence(&mut rep, &w, *range, &fr, false);
                    if rng.chance(40) { fr.remove(1); check_sequence(&mut rep, &w, *range, &fr, true); }
                }
            }
            check_segmentation(&mut rep, &w, &known, *range);
        }
    }
    // termination of the empty needle
    {
        let w = world("abc", &[]);
        let got = guarded(std::panic::AssertUnwindSafe(|| w.store.resource("r").unwrap().find_text("").take(1000).count()));
        rep.case(None);
        if got != Ok(0) && got.as_ref().map(|c| *c >= 1000).unwrap_or(true) {
            rep.fail("oracle", "find_text/empty-needle-never-ends", vec!["text=\"abc\" needle=\"\"".into()], "a finite result", &res_s(&got));
        }
    }
    // regular expressions: no expression at all; options set through RegexBuilder, with one to four expressions (adding an
    // expression that matches nowhere changes nothing)
    {
        let w = world("xx ABC yy", &[]);
        rep.count("find_text_regex:no-expressions");
        match guarded(std::panic::AssertUnwindSafe(|| w.store.resource("r").unwrap().find_text_regex(&[], None, true).map(|it| it.count()).map_err(|e| format!("{}", e)))) {
            Err(m) => rep.fail("panic", "find_text_regex/no-expressions/panic", vec!["find_text_regex(&[], None, true)".into()], "nothing found, or an error", &m),
            Ok(_) => {}
        }
        let ci = regex::RegexBuilder::new("abc").case_insensitive(true).build().unwrap();
        let want: Vec<(usize, usize)> = vec![(3, 6)];
        for extra in 0..4 {
            let mut exprs = vec![ci.clone()];
            for k in 0..extra { exprs.push(regex::Regex::new(&format!("q{}q", "z".repeat(k + 1))).unwrap()); }
            rep.count("find_text_regex:builder-options");
            rep.case(Some(&format!("regex-builder-options {}", extra)));
            let got = guarded(std::panic::AssertUnwindSafe(|| w.store.resource("r").unwrap().find_text_regex(&exprs, None, true).map(|it| it.map(|m| (m.textselections()[0].begin(), m.textselections()[0].end())).collect::<Vec<_>>()).map_err(|e| format!("{}", e))));
            if got != Ok(Ok(want.clone())) { rep.fail("oracle", "find_text_regex/builder-options-lost", vec![format!("text=\"xx ABC yy\" expressions: RegexBuilder(\"abc\").case_insensitive(true) and {} expressions that match nowhere", extra)], &format!("{:?}", want), &format!("{:?}", got)); }
        }
    }
    rep.sample(json!({"op": "find_text", "text": "a\u{e9}a b", "range": [1, 5], "needle": "a", "expected": [[2, 3]]}));
    rep.sample(json!({"op": "split_text", "text": "ab cd e", "range": [3, 7], "delimiter": " ", "expected": [[3, 5], [6, 7]]}));
    rep.sample(json!({"op": "find_text_regex", "text": "Hello wonderful world", "range": [6, 21], "pattern": "w[a-z]+"}));
    crate::fam::textops_crafted::run_all(&mut rep);
    rep
}
