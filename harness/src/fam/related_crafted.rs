//! C06: a crafted store taken over from a sub-agent's hunt for violations (hunt/C06-hunt3.rs); `run_all` runs it on the implementation.
#![allow(dead_code, unused_imports, unused_variables)]
use crate::common::*;
use stam::*;

fn annotate_text(store: &mut AnnotationStore, id: &str, resource: &str, begin: usize, end: usize) {
    store
        .annotate(
            AnnotationBuilder::new()
                .with_id(id.to_string())
                .with_target(SelectorBuilder::textselector(
                    resource.to_string(),
                    Offset::simple(begin, end),
                ))
                .with_data("set", "key", "value"),
        )
        .unwrap();
}

fn triples<'a>(
    iter: impl Iterator<Item = ResultTextSelection<'a>>,
) -> Vec<(String, usize, usize)> {
    iter.map(|t| (t.resource().id().unwrap().to_string(), t.begin(), t.end()))
        .collect()
}

/// VIOLATION: a related-text search from an annotation whose text lies in two resources treats the
/// selections of the second resource as if they were selections of the first.
///
/// Cause: `ResultItem<Annotation>::related_text()` (src/api/annotation.rs, fn related_text, line ~263)
/// collects *all* text selections of the annotation into one `TextSelectionSet`; the `FromIterator`
/// implementations for `TextSelectionSet` (src/textselection.rs, lines ~731 and ~750) label the set with the
/// resource of the *first* item only and add the items of every other resource unchecked. The search
/// (`TextResource::textselections_by_operator` / `FindTextSelectionsIter`, src/textselection.rs) then
/// runs in the first resource only and compares the bare offsets of the foreign members against it:
///   * EQUALS looks the foreign offsets up in the first resource (`known_textselection`) and returns a
///     selection that is no reference at all,
///   * `is_reference()` drops a selection of the first resource because a foreign reference has the same
///     offsets (e.g. NOT OVERLAPS from {a[0,3), b[10,13)} leaves out the known a[10,13), which is no
///     reference and overlaps nothing), and the de-duplication in `textselections_by_operator` merges two references of two
///     resources with the same offsets into one,
///   * the second resource is never searched (`Annotation::test()` by contrast groups per resource with
///     `textselectionsets()`).
pub fn annotation_with_text_in_two_resources_mixes_offsets_of_both() {
    let mut store = AnnotationStore::default()
        .with_id("test")
        .with_resource(
            TextResourceBuilder::new()
                .with_id("a")
                .with_text("0123456789abcdefghij"),
        )
        .unwrap()
        .with_resource(
            TextResourceBuilder::new()
                .with_id("b")
                .with_text("0123456789abcdefghij"),
        )
        .unwrap();
    annotate_text(&mut store, "a_1_2", "a", 1, 2);
    annotate_text(&mut store, "a_10_13", "a", 10, 13);
    annotate_text(&mut store, "b_1_2", "b", 1, 2);
    // selects a[0,3) and b[10,13)
    store
        .annotate(
            AnnotationBuilder::new()
                .with_id("multi")
                .with_target(SelectorBuilder::multiselector(vec![
                    SelectorBuilder::textselector("a", Offset::simple(0, 3)),
                    SelectorBuilder::textselector("b", Offset::simple(10, 13)),
                ]))
                .with_data("set", "key", "value"),
        )
        .unwrap();
    // selects a[0,3) and b[0,3): the same offsets in both resources
    store
        .annotate(
            AnnotationBuilder::new()
                .with_id("multisame")
                .with_target(SelectorBuilder::multiselector(vec![
                    SelectorBuilder::textselector("a", Offset::simple(0, 3)),
                    SelectorBuilder::textselector("b", Offset::simple(0, 3)),
                ]))
                .with_data("set", "key", "value"),
        )
        .unwrap();

    // (1) Equality only returns reference selections themselves. The annotation selects a[0,3) and
    //     b[10,13); a[10,13) is a different selection (other resource) that equals neither.
    let multi = store.annotation("multi").unwrap();
    let own = triples(multi.textselections());
    assert_eq!(
        own,
        vec![("a".to_string(), 0, 3), ("b".to_string(), 10, 13)],
        "sanity: what the annotation selects"
    );
    let found = triples(multi.related_text(TextSelectionOperator::equals()));
    for item in found.iter() {
        assert!(
            own.contains(item),
            "EQUALS returned {:?}, which the annotation does not select (it selects {:?})",
            item,
            own
        );
    }

    // (2) The annotation selects [0,3) in both resources and both hold a known [1,2): whatever the
    //     answer is, both resources must be treated alike.
    let multisame = store.annotation("multisame").unwrap();
    let found = triples(multisame.related_text(TextSelectionOperator::embeds()));
    assert_eq!(
        found.contains(&("a".to_string(), 1, 2)),
        found.contains(&("b".to_string(), 1, 2)),
        "a[1,2) is embedded in a[0,3) just as b[1,2) is embedded in b[0,3), but EMBEDS returned {:?}",
        found
    );
}


pub fn run_all(rep: &mut Report) {
    let cases: [(&str, &str, fn()); 1] = [
        ("annotation-with-text-in-two-resources/offsets-of-both-mixed", "resources a and b with the same text; annotation multi = MultiSelector{a[0,3), b[10,13)}; multi.related_text(equals()) and related_text(embeds())", annotation_with_text_in_two_resources_mixes_offsets_of_both),
    ];
    for (name, what, f) in cases {
        rep.count("crafted-cases-from-the-hunts");
        rep.case(Some(&format!("crafted {}", name)));
        match guarded(std::panic::AssertUnwindSafe(|| f())) {
            Ok(()) => {}
            Err(m) => rep.fail("oracle", &format!("C06/crafted/{}", name), vec![what.to_string()], "what the property requires (see the assertions of the case)", &m.chars().take(300).collect::<String>()),
        }
    }
}
