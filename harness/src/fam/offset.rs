//! C04: offsets resolve to exactly the addressed code points, or are rejected.
//! Implementation (annotate / text / offset_with_mode / FindText::textselection) vs arithmetic oracle
//! and vs the Lean model (`off …` protocol lines).
use crate::common::*;
use serde_json::json;
use stam::*;

pub fn cur_str(c: &Cursor) -> String {
    match c {
        Cursor::BeginAligned(x) => format!("b{}", x),
        Cursor::EndAligned(x) => format!("e{}", x),
    }
}
pub fn parse_cur(s: &str) -> Option<Cursor> {
    let (k, v) = s.split_at(1);
    match k {
        "b" => v.parse().ok().map(Cursor::BeginAligned),
        "e" => v.parse().ok().map(Cursor::EndAligned),
        _ => None,
    }
}
fn mode_str(m: OffsetMode) -> &'static str {
    match m {
        OffsetMode::BeginBegin => "bb",
        OffsetMode::BeginEnd => "be",
        OffsetMode::EndBegin => "eb",
        OffsetMode::EndEnd => "ee",
    }
}
fn parse_mode(s: &str) -> Option<OffsetMode> {
    Some(match s {
        "bb" => OffsetMode::BeginBegin,
        "be" => OffsetMode::BeginEnd,
        "eb" => OffsetMode::EndBegin,
        "ee" => OffsetMode::EndEnd,
        _ => return None,
    })
}
const MODES: [OffsetMode; 4] = [OffsetMode::BeginBegin, OffsetMode::BeginEnd, OffsetMode::EndBegin, OffsetMode::EndEnd];

/// position denoted by a cursor in a text of length n (may be negative / beyond n)
fn denote(c: &Cursor, n: usize) -> i64 {
    match c {
        Cursor::BeginAligned(x) => *x as i64,
        Cursor::EndAligned(x) => n as i64 + *x as i64,
    }
}
/// oracle: accepted iff 0 <= b <= e <= n
fn oracle(c1: &Cursor, c2: &Cursor, n: usize) -> Option<(usize, usize)> {
    let (b, e) = (denote(c1, n), denote(c2, n));
    if 0 <= b && b <= e && e <= n as i64 {
        Some((b as usize, e as usize))
    } else {
        None
    }
}
fn wf(c: &Cursor) -> bool {
    match c {
        Cursor::BeginAligned(_) => true,
        Cursor::EndAligned(x) => *x <= 0,
    }
}

fn cursors(n: usize, margin: i64) -> Vec<Cursor> {
    let mut v = vec![];
    for x in 0..=(n as i64 + margin) {
        v.push(Cursor::BeginAligned(x as usize));
    }
    for x in 0..=(n as i64 + margin) {
        v.push(Cursor::EndAligned(-(x as isize)));
    }
    // end-aligned cursors above zero (as a JSON document may carry them): they denote positions beyond the end
    for x in 1..=(margin.max(1) + 1) {
        v.push(Cursor::EndAligned(x as isize));
    }
    v
}

fn res_str(r: &Result<Option<(usize, usize)>, String>) -> String {
    match r {
        Ok(Some((b, e))) => format!("ok {} {}", b, e),
        Ok(None) => "err".into(),
        Err(m) => format!("panic:{}", m.chars().take(50).collect::<String>()),
    }
}

struct World {
    store: AnnotationStore,
    chars: Vec<char>,
    counter: usize,
}
impl World {
    fn new(text: &str) -> Self {
        let mut store = new_store();
        store.add_resource(TextResourceBuilder::new().with_id("r").with_text(text)).unwrap();
        World { store, chars: text.chars().collect(), counter: 0 }
    }
    fn fresh(&mut self) -> String {
        self.counter += 1;
        format!("a{}", self.counter)
    }
    /// annotate with the builder; returns the absolute range of the single selection, None on Err
    fn annotate(&mut self, target: SelectorBuilder<'static>) -> (String, Result<Option<(usize, usize)>, String>) {
        let id = self.fresh();
        let idc = id.clone();
        let store = &mut self.store;
        let r = guarded(std::panic::AssertUnwindSafe(|| {
            match store.annotate(AnnotationBuilder::new().with_id(idc.clone()).with_target(target)) {
                Ok(_) => {
                    let a = store.annotation(idc.as_str()).expect("just added");
                    let v: Vec<(usize, usize)> = a.textselections().map(|t| (t.begin(), t.end())).collect();
                    if v.len() == 1 { Some(v[0]) } else { Some((usize::MAX, v.len())) }
                }
                Err(_) => None,
            }
        }));
        (id, r)
    }
    fn text_of(&self, id: &str) -> Result<Option<String>, String> {
        let store = &self.store;
        guarded(std::panic::AssertUnwindSafe(|| store.annotation(id).and_then(|a| a.text_simple().map(|s| s.to_string()))))
    }
    fn slice(&self, b: usize, e: usize) -> String {
        self.chars[b..e].iter().collect()
    }
}

/// check acceptance, text and the four reported offsets of one annotate call
#[allow(clippy::too_many_arguments)]
fn check_one(rep: &mut Report, w: &mut World, text: &str, parent: Option<(&str, (usize, usize))>, c1: Cursor, c2: Cursor, depth: usize) -> Option<(String, (usize, usize))> {
    let (n, base) = match parent {
        None => (w.chars.len(), 0),
        Some((_, (pb, pe))) => (pe - pb, pb),
    };
    let want = oracle(&c1, &c2, n).map(|(b, e)| (base + b, base + e));
    let target = match parent {
        None => SelectorBuilder::textselector("r", Offset::new(c1, c2)),
        Some((pid, _)) => SelectorBuilder::annotationselector(pid.to_string(), Some(Offset::new(c1, c2))),
    };
    let (id, got) = w.annotate(target);
    let line = match parent {
        None => format!("off res {} {} {}", n, cur_str(&c1), cur_str(&c2)),
        Some((_, (pb, pe))) => format!("off sub {} {} {} {}", pb, pe, cur_str(&c1), cur_str(&c2)),
    };
    let ctx = vec![format!("text={:?} depth={}", text, depth), line.clone()];
    let class = format!(
        "{}{}/{}",
        if parent.is_some() { "rel" } else { "res" },
        if depth > 1 { "-nested" } else { "" },
        match (&want, &got) {
            (None, Ok(Some(_))) => "accepted-invalid",
            (Some(_), Ok(None)) => "rejected-valid",
            (_, Err(_)) => "panic",
            _ => "wrong-range",
        }
    );
    let key = format!("{} {}", text, line);
    rep.case(if want.is_some() || denote(&c1, n) > denote(&c2, n) { Some(&key) } else { None });
    rep.count(if want.is_some() { "offset:valid" } else { "offset:invalid" });
    let mut lines = vec![line.clone()];
    let mut outs = vec![res_str(&got)];
    if got != Ok(want) {
        rep.fail(if got.is_err() { "panic" } else { "oracle" }, &class, ctx.clone(), &res_str(&Ok(want)), &res_str(&got));
    }
    // the other resolver of the same offset, `Text::absolute_offset` (the trait method, on the resource or on the parent's
    // text selection): the same range, or refused
    {
        let store = &w.store;
        let via_trait = guarded(std::panic::AssertUnwindSafe(|| -> Option<(usize, usize)> {
            let res = store.resource("r").unwrap();
            let o = Offset::new(c1, c2);
            let r = match parent {
                None => Text::absolute_offset(&res, &o),
                Some((_, (pb, pe))) => { let t = res.textselection(&Offset::simple(pb, pe)).expect("parent selection"); Text::absolute_offset(&t, &o) }
            };
            r.ok().and_then(|x| match (x.begin, x.end) { (Cursor::BeginAligned(b), Cursor::BeginAligned(e)) => Some((b, e)), _ => None })
        }));
        rep.count("offset:trait-absolute-offset");
        if via_trait != Ok(want) {
            rep.fail(if via_trait.is_err() { "panic" } else { "oracle" }, &format!("trait-absolute-offset/{}", match (&want, &via_trait) { (None, Ok(Some(_))) => "accepted-invalid", (Some(_), Ok(None)) => "rejected-valid", (_, Err(_)) => "panic", _ => "wrong-range" }), ctx.clone(), &res_str(&Ok(want)), &res_str(&via_trait));
        }
    }
    let mut result = None;
    if let (Some((b, e)), Ok(Some(_))) = (want, &got) {
        // the text is exactly those code points
        let t = w.text_of(&id);
        let expect = w.slice(b, e);
        if t != Ok(Some(expect.clone())) {
            rep.fail(if t.is_err() { "panic" } else { "oracle" }, "text-mismatch", ctx.clone(), &expect, &format!("{:?}", t));
        }
        // every reported offset is well-formed and re-resolves to the same absolute range
        for m in MODES {
            let store = &w.store;
            let idr = id.clone();
            let reported = guarded(std::panic::AssertUnwindSafe(|| {
                let a = store.annotation(idr.as_str()).unwrap();
                a.as_ref().target().offset_with_mode(store, Some(m))
            }));
            let rline = match parent {
                None => format!("off report {} {} {} {}", mode_str(m), n, b, e),
                Some((_, (pb, pe))) => format!("off relreport {} {} {} {} {}", mode_str(m), pb, pe, b, e),
            };
            lines.push(rline.clone());
            match &reported {
                Ok(Some(o)) => {
                    outs.push(format!("{} {}", cur_str(&o.begin), cur_str(&o.end)));
                    let mut c = ctx.clone();
                    c.push(rline.clone());
                    if !wf(&o.begin) || !wf(&o.end) {
                        rep.fail("oracle", &format!("report-illformed/{}{}", if parent.is_some() { "rel-" } else { "" }, mode_str(m)), c.clone(), "end-aligned cursors <= 0", &format!("{} {}", cur_str(&o.begin), cur_str(&o.end)));
                    }
                    if o.mode() != m {
                        rep.fail("oracle", &format!("report-wrong-mode/{}", mode_str(m)), c.clone(), mode_str(m), mode_str(o.mode()));
                    }
                    if oracle(&o.begin, &o.end, n).map(|(x, y)| (base + x, base + y)) != Some((b, e)) {
                        rep.fail("oracle", &format!("report-wrong-range/{}{}", if parent.is_some() { "rel-" } else { "" }, mode_str(m)), c.clone(), &format!("denotes {} {}", b, e), &format!("{} {}", cur_str(&o.begin), cur_str(&o.end)));
                    }
                    // re-resolve through the implementation (FindText::textselection on resource / parent selection)
                    let store = &w.store;
                    let oo = o.clone();
                    let re = guarded(std::panic::AssertUnwindSafe(|| {
                        let r = store.resource("r").unwrap();
                        match parent {
                            None => r.textselection(&oo).ok().map(|t| (t.begin(), t.end())),
                            Some((_, (pb, pe))) => r
                                .textselection(&Offset::simple(pb, pe))
                                .ok()
                                .and_then(|p| p.textselection(&oo).ok())
                                .map(|t| (t.begin(), t.end())),
                        }
                    }));
                    if re != Ok(Some((b, e))) {
                        rep.fail(if re.is_err() { "panic" } else { "oracle" }, &format!("rereport/{}{}", if parent.is_some() { "rel-" } else { "" }, mode_str(m)), c, &format!("ok {} {}", b, e), &res_str(&re));
                    }
                }
                Ok(None) => outs.push("none".into()),
                Err(msg) => {
                    outs.push(format!("panic:{}", msg.chars().take(40).collect::<String>()));
                    rep.fail("panic", &format!("report/{}", mode_str(m)), ctx.clone(), "an offset", msg);
                }
            }
        }
        result = Some((id, (b, e)));
    }
    rep.model_case(lines, outs, &class);
    result
}

/// FindText::textselection on a resource and on a sub-selection (no annotation involved)
fn check_findtext(rep: &mut Report, w: &World, text: &str, parent: Option<(usize, usize)>, c1: Cursor, c2: Cursor) {
    let (n, base) = match parent {
        None => (w.chars.len(), 0),
        Some((pb, pe)) => (pe - pb, pb),
    };
    let want = oracle(&c1, &c2, n).map(|(b, e)| (base + b, base + e));
    let store = &w.store;
    let o = Offset::new(c1, c2);
    let got = guarded(std::panic::AssertUnwindSafe(|| {
        let r = store.resource("r").unwrap();
        match parent {
            None => r.textselection(&o).ok().map(|t| (t.begin(), t.end())),
            Some((pb, pe)) => r.textselection(&Offset::simple(pb, pe)).unwrap().textselection(&o).ok().map(|t| (t.begin(), t.end())),
        }
    }));
    let line = match parent {
        None => format!("off res {} {} {}", n, cur_str(&c1), cur_str(&c2)),
        Some((pb, pe)) => format!("off sub {} {} {} {}", pb, pe, cur_str(&c1), cur_str(&c2)),
    };
    rep.case(None);
    rep.count("findtext");
    if got != Ok(want) {
        let class = format!(
            "findtext-{}/{}",
            if parent.is_some() { "sub" } else { "res" },
            match (&want, &got) {
                (None, Ok(Some(_))) => "accepted-invalid",
                (Some(_), Ok(None)) => "rejected-valid",
                (_, Err(_)) => "panic",
                _ => "wrong-range",
            }
        );
        rep.fail(if got.is_err() { "panic" } else { "oracle" }, &class, vec![format!("text={:?} (FindText::textselection)", text), line.clone()], &res_str(&Ok(want)), &res_str(&got));
    }
    rep.model_case(vec![line], vec![res_str(&got)], "findtext");
}

const ALPHABET: [&str; 5] = ["a", "\u{e9}", "\u{20ac}", "\u{1F600}", " "];

pub fn exec_line(line: &str) -> String {
    let t: Vec<&str> = line.split_whitespace().collect();
    if t.len() < 2 {
        return "bad-op".into();
    }
    let mk = |n: usize| -> String { (0..n).map(|i| ALPHABET[i % ALPHABET.len()]).collect() };
    match t[1] {
        "res" if t.len() == 5 => {
            let n: usize = t[2].parse().unwrap_or(0);
            let mut w = World::new(&mk(n));
            let (c1, c2) = (parse_cur(t[3]).unwrap(), parse_cur(t[4]).unwrap());
            let (_, got) = w.annotate(SelectorBuilder::textselector("r", Offset::new(c1, c2)));
            res_str(&got)
        }
        "sub" if t.len() == 6 => {
            let (pb, pe): (usize, usize) = (t[2].parse().unwrap_or(0), t[3].parse().unwrap_or(0));
            let mut w = World::new(&mk(pe + 2));
            let (pid, _) = w.annotate(SelectorBuilder::textselector("r", Offset::simple(pb, pe)));
            let (c1, c2) = (parse_cur(t[4]).unwrap(), parse_cur(t[5]).unwrap());
            let (_, got) = w.annotate(SelectorBuilder::annotationselector(pid, Some(Offset::new(c1, c2))));
            res_str(&got)
        }
        "report" if t.len() == 6 => {
            let m = parse_mode(t[2]).unwrap();
            let (n, b, e): (usize, usize, usize) = (t[3].parse().unwrap_or(0), t[4].parse().unwrap_or(0), t[5].parse().unwrap_or(0));
            let mut w = World::new(&mk(n));
            let (id, _) = w.annotate(SelectorBuilder::textselector("r", Offset::simple(b, e)));
            let store = &w.store;
            match guarded(std::panic::AssertUnwindSafe(|| store.annotation(id.as_str()).and_then(|a| a.as_ref().target().offset_with_mode(store, Some(m))))) {
                Ok(Some(o)) => format!("{} {}", cur_str(&o.begin), cur_str(&o.end)),
                Ok(None) => "none".into(),
                Err(msg) => format!("panic:{}", msg),
            }
        }
        "relreport" if t.len() == 7 => {
            let m = parse_mode(t[2]).unwrap();
            let (pb, pe, b, e): (usize, usize, usize, usize) = (t[3].parse().unwrap_or(0), t[4].parse().unwrap_or(0), t[5].parse().unwrap_or(0), t[6].parse().unwrap_or(0));
            let mut w = World::new(&mk(pe + 2));
            let (pid, _) = w.annotate(SelectorBuilder::textselector("r", Offset::simple(pb, pe)));
            let (id, _) = w.annotate(SelectorBuilder::annotationselector(pid, Some(Offset::simple(b - pb, e - pb))));
            let store = &w.store;
            match guarded(std::panic::AssertUnwindSafe(|| store.annotation(id.as_str()).and_then(|a| a.as_ref().target().offset_with_mode(store, Some(m))))) {
                Ok(Some(o)) => format!("{} {}", cur_str(&o.begin), cur_str(&o.end)),
                Ok(None) => "none".into(),
                Err(msg) => format!("panic:{}", msg),
            }
        }
        _ => "bad-op".into(),
    }
}

pub fn run(opts: &Opts) -> Report {
    let mut rep = Report::new(
        "offset",
        "texts of length 0..N over 1-4 byte code points; every pair of cursors (either alignment) in [-n-2, n+2] against the resource (exhaustive), \
         then relative to every accepted parent of a sample (depth 2) and to their children (depth 3, seeded random); every accepted offset is reported in all four modes and re-resolved; \
         non-trivial = accepted offsets plus inverted ones; distinct = distinct (text, parent range, cursor pair)",
    );
    let maxlen = if opts.thorough() { 7 } else { 5 };
    let mut rng = Rng::new(opts.seed);
    // the textual form of a cursor (what CSV cells and the OFFSET clause of a query hold) reads back as the same cursor:
    // alignment is in the text (a leading '-'), not in the number, so that the end-aligned 0 ("-0": the very end) survives
    for k in 0..40isize {
        for c in [Cursor::BeginAligned(k as usize), Cursor::EndAligned(-k)] {
            let txt = format!("{}", c);
            let back = guarded(std::panic::AssertUnwindSafe(|| Cursor::try_from(txt.as_str()).ok()));
            rep.count("cursor-text-roundtrip");
            rep.case(None);
            if back != Ok(Some(c)) { rep.fail(if back.is_err() { "panic" } else { "oracle" }, &format!("cursor-text/{}", if matches!(c, Cursor::EndAligned(0)) { "end-aligned-zero" } else if matches!(c, Cursor::EndAligned(_)) { "end-aligned" } else { "begin-aligned" }), vec![format!("cursor {:?} printed as {:?}", c, txt)], &format!("{:?}", c), &format!("{:?}", back)); }
        }
    }
    // … and an offset with such cursors written into a query resolves to the same text as the offset itself
    {
        let mut ex = crate::fam::store::Exec::new();
        ex.exec("st addres r0 9");
        let store = &ex.store;
        if let Some(r) = store.resource("r0") {
            for (b, e) in [("0", "-0"), ("3", "-0"), ("-4", "-0"), ("-4", "-1"), ("2", "5")] {
                let off = Offset::new(Cursor::try_from(b).unwrap_or(Cursor::BeginAligned(0)), Cursor::try_from(e).unwrap_or(Cursor::BeginAligned(0)));
                let direct = r.textselection(&Offset::new(if b.starts_with('-') { Cursor::EndAligned(b.parse().unwrap_or(0)) } else { Cursor::BeginAligned(b.parse().unwrap_or(0)) }, if e.starts_with('-') { Cursor::EndAligned(e.parse().unwrap_or(0)) } else { Cursor::BeginAligned(e.parse().unwrap_or(0)) })).map(|t| (t.begin(), t.end())).ok();
                let parsed = r.textselection(&off).map(|t| (t.begin(), t.end())).ok();
                let q = format!("SELECT TEXT ?t WHERE RESOURCE \"r0\" OFFSET {} {};", b, e);
                let via_query = guarded(std::panic::AssertUnwindSafe(|| Query::try_from(q.as_str()).ok().and_then(|qq| store.query(qq).ok()).and_then(|mut it| it.next()).and_then(|row| row.iter().next().and_then(|x| if let QueryResultItem::TextSelection(t) = x { Some((t.begin(), t.end())) } else { None })))).unwrap_or(None);
                rep.count("cursor-text-in-offset");
                if parsed != direct || via_query != direct { rep.fail("oracle", "cursor-text/offset-differs", vec![format!("OFFSET {} {} on a text of 9 characters", b, e)], &format!("{:?}", direct), &format!("parsed cursors: {:?}, in a query: {:?}", parsed, via_query)); }
            }
        }
    }
    for n in 0..=maxlen {
        // one text per length, characters cycling through 1,2,3,4-byte code points and a space
        let text: String = (0..n).map(|i| ALPHABET[(i + n) % ALPHABET.len()]).collect();
        let mut w = World::new(&text);
        let cs = cursors(n, 2);
        let mut parents: Vec<(String, (usize, usize))> = vec![];
        for c1 in &cs {
            for c2 in &cs {
                if let Some(p) = check_one(&mut rep, &mut w, &text, None, *c1, *c2, 1) {
                    parents.push(p);
                }
                check_findtext(&mut rep, &w, &text, None, *c1, *c2);
            }
        }
        // depth 2: relative to distinct parent ranges
        parents.sort_by_key(|p| p.1);
        parents.dedup_by_key(|p| p.1);
        let mut children: Vec<(String, (usize, usize))> = vec![];
        for (pid, pr) in &parents {
            let pn = pr.1 - pr.0;
            let pcs = cursors(pn, 2);
            for c1 in &pcs {
                for c2 in &pcs {
                    // exhaustive for short parents, sampled for long ones in quick mode
                    if !opts.thorough() && pn > 3 && !rng.chance(35) {
                        continue;
                    }
                    if let Some(ch) = check_one(&mut rep, &mut w, &text, Some((pid.as_str(), *pr)), *c1, *c2, 2) {
                        children.push(ch);
                    }
                    check_findtext(&mut rep, &w, &text, Some(*pr), *c1, *c2);
                }
            }
        }
        // depth 3 and 4: random chains
        children.sort_by_key(|p| p.1);
        children.dedup_by_key(|p| p.1);
        let rounds = if opts.thorough() { 600 } else { 120 };
        if !children.is_empty() {
            for _ in 0..rounds {
                let (mut pid, mut pr) = rng.pick(&children).clone();
                for depth in 3..=4 {
                    let pn = pr.1 - pr.0;
                    let pcs = cursors(pn, 1);
                    let (c1, c2) = (*rng.pick(&pcs), *rng.pick(&pcs));
                    match check_one(&mut rep, &mut w, &text, Some((pid.as_str(), pr)), c1, c2, depth) {
                        Some((i, r)) => {
                            pid = i;
                            pr = r;
                        }
                        None => break,
                    }
                }
            }
        }
        if n == 3 {
            rep.sample(json!({"text": text, "offset": ["b1", "e-1"], "against": "resource", "then": "report in bb/be/eb/ee and re-resolve"}));
            rep.sample(json!({"text": text, "parent": [1, 3], "offset": ["e-2", "b2"], "against": "annotation (relative)"}));
        }
    }
    complex_relative(&mut rep, &mut rng, if opts.thorough() { 4000 } else { 600 });
    extreme_cursors(&mut rep);
    offset_edges(&mut rep);
    rep.extra.insert("max_text_len".into(), json!(maxlen));
    rep
}

/// cursors at the limits of the integer types, against a resource and relative to annotations that do not begin at 0
/// (one and two levels deep): every such offset denotes no range of the text and must be refused — not wrap around, not panic
/// the conversions around offsets at their edges: a selection that lies before, after or in another resource than its
/// container has no offset relative to it (None, not a panic, not a number); an inverted relative offset has no absolute
/// form; an offset relative to an annotation that has no single text to be relative to is refused, not dropped
fn offset_edges(rep: &mut Report) {
    let mut store = new_store();
    let _ = store.add_resource(TextResourceBuilder::new().with_id("r").with_text("Hello w\u{f6}rld again"));
    let _ = store.add_resource(TextResourceBuilder::new().with_id("r2").with_text("another text here"));
    let n = 17usize;
    let ctx = |what: String| vec![what];
    // relative_offset / relative_begin / relative_end over all pairs of ranges, same and other resource
    for (sb, se) in [(0usize, 1usize), (0, 5), (2, 9), (6, 11), (11, 11), (12, 17), (0, 17), (5, 5)] {
        for (cb, ce) in [(2usize, 5usize), (6, 11), (0, 17), (11, 11), (0, 0), (12, 17)] {
            for other in [false, true] {
                let got = guarded(std::panic::AssertUnwindSafe(|| {
                    let r = store.resource("r").unwrap();
                    let r2 = store.resource(if other { "r2" } else { "r" }).unwrap();
                    let sel = r.textselection(&Offset::simple(sb, se)).unwrap();
                    let cont = r2.textselection(&Offset::simple(cb, ce)).unwrap();
                    (sel.relative_offset(&cont, OffsetMode::BeginBegin).map(|o| cursor_s_pair(&o)), sel.relative_offset(&cont, OffsetMode::EndEnd).map(|o| cursor_s_pair(&o)), sel.relative_begin(&cont), sel.relative_end(&cont))
                }));
                let embedded = !other && cb <= sb && se <= ce;
                let want = if embedded { (Some(format!("b{}:b{}", sb - cb, se - cb)), Some(format!("e{}:e{}", sb as i64 - ce as i64, se as i64 - ce as i64).replace("e0", "e0")), Some(sb - cb), Some(se - cb)) } else { (None, None, None, None) };
                rep.count("edge:relative-offset");
                rep.case(Some(&format!("edge rel {} {} {} {} {}", sb, se, cb, ce, other)));
                let what = format!("selection {}-{} of r relative to {}-{} of {}", sb, se, cb, ce, if other { "r2 (another resource)" } else { "r" });
                match got {
                    Err(m) => rep.fail("panic", "edge/relative-offset/panics", ctx(what), &format!("{:?}", want), &m),
                    Ok(g) => {
                        let g = (g.0, g.1.map(|x| x.replace("e-0", "e0")), g.2, g.3);
                        if g != want { rep.fail("oracle", &format!("edge/relative-offset/{}", if other { "other-resource" } else if embedded { "embedded" } else { "not-embedded" }), ctx(what), &format!("{:?}", want), &format!("{:?}", g)); }
                    }
                }
            }
        }
    }
    let _ = n;
    // absolute_offset of an inverted relative offset
    for (b, e) in [(3usize, 1usize), (5, 0), (2, 1)] {
        let got = guarded(std::panic::AssertUnwindSafe(|| { let r = store.resource("r").unwrap(); let sel = r.textselection(&Offset::simple(6, 11)).unwrap(); sel.absolute_offset(&Offset::simple(b, e)).map(|o| cursor_s_pair(&o)).map_err(|_| ()) }));
        rep.count("edge:absolute-offset-inverted");
        match got {
            Err(m) => rep.fail("panic", "edge/absolute-offset/panics", ctx(format!("relative offset {}..{} inside 6-11", b, e)), "an error", &m),
            Ok(Ok(o)) => rep.fail("oracle", "edge/absolute-offset/inverted-accepted", ctx(format!("relative offset {}..{} inside 6-11", b, e)), "an error (end before begin)", &o),
            Ok(Err(())) => {}
        }
    }
    // an offset relative to an annotation without a single text
    let _ = store.annotate(AnnotationBuilder::new().with_id("onres").with_target(SelectorBuilder::resourceselector("r")));
    let _ = store.annotate(AnnotationBuilder::new().with_id("two").with_target(SelectorBuilder::compositeselector([SelectorBuilder::textselector("r", Offset::simple(0, 2)), SelectorBuilder::textselector("r", Offset::simple(6, 8))])));
    let _ = store.annotate(AnnotationBuilder::new().with_id("onann").with_target(SelectorBuilder::annotationselector("onres", None)));
    for (i, target) in ["onres", "two", "onann"].iter().enumerate() {
        for (b, e) in [(0usize, 1usize), (100, 200)] {
            let got = guarded(std::panic::AssertUnwindSafe(|| store.annotate(AnnotationBuilder::new().with_id(format!("rel{}{}", i, b)).with_target(SelectorBuilder::annotationselector(*target, Some(Offset::simple(b, e))))).map(|h| { let a = store.annotation(h).unwrap(); format!("accepted: text {:?}, offset kept: {}", a.text_join("|"), matches!(a.as_ref().target(), Selector::AnnotationSelector(_, Some(_)))) }).map_err(|_| ())));
            rep.count("edge:offset-on-annotation-without-single-text");
            let what = format!("AnnotationSelector({:?}, offset {}..{}) where {:?} has {}", target, b, e, target, ["a resource selector", "two text selections", "an annotation selector on an annotation without text"][i]);
            match got {
                Err(m) => rep.fail("panic", "edge/offset-without-text/panics", ctx(what), "an error", &m),
                Ok(Ok(d)) => rep.fail("oracle", "edge/offset-without-text/accepted", ctx(what), "an error: there is no single text the offset could be relative to", &d),
                Ok(Err(())) => {}
            }
        }
    }
}

fn cursor_s_pair(o: &Offset) -> String {
    let c = |c: &Cursor| match c { Cursor::BeginAligned(x) => format!("b{}", x), Cursor::EndAligned(x) => format!("e{}", x) };
    format!("{}:{}", c(&o.begin), c(&o.end))
}

fn extreme_cursors(rep: &mut Report) {
    let text: String = (0..12).map(|i| ALPHABET[i % ALPHABET.len()]).collect();
    let huge_b: Vec<usize> = vec![usize::MAX, usize::MAX - 1, usize::MAX - 3, usize::MAX - 6, usize::MAX - 12, usize::MAX / 2 + 1, (isize::MAX as usize), 1usize << 32];
    let huge_e: Vec<isize> = vec![isize::MIN, isize::MIN + 1, isize::MIN + 6, -(1isize << 40), 1, 7, isize::MAX];
    let normal = [Cursor::BeginAligned(0), Cursor::BeginAligned(2), Cursor::EndAligned(0), Cursor::EndAligned(-1)];
    let mut extremes: Vec<Cursor> = huge_b.iter().map(|x| Cursor::BeginAligned(*x)).collect();
    extremes.extend(huge_e.iter().map(|x| Cursor::EndAligned(*x)));
    for parent in [None, Some(vec![(3usize, 9usize)]), Some(vec![(6, 11), (1, 4)]), Some(vec![(1, 12), (2, 9)])] {
        for x in &extremes {
            for nrm in &normal {
                for (c1, c2) in [(*x, *nrm), (*nrm, *x), (*x, *x)] {
                    let mut w = World::new(&text);
                    // build the chain of parents (each relative to the previous one)
                    let mut pid: Option<String> = None;
                    let mut ok = true;
                    if let Some(chain) = &parent {
                        for (k, (b, e)) in chain.iter().enumerate() {
                            let target = match &pid { None => SelectorBuilder::textselector("r", Offset::simple(*b, *e)), Some(p) => SelectorBuilder::annotationselector(p.clone(), Some(Offset::simple(*b, *e))) };
                            let (id, r) = w.annotate(target);
                            if !matches!(r, Ok(Some(_))) { ok = false; break; }
                            pid = Some(id);
                            let _ = k;
                        }
                    }
                    if !ok { continue; }
                    let target = match &pid { None => SelectorBuilder::textselector("r", Offset::new(c1, c2)), Some(p) => SelectorBuilder::annotationselector(p.clone(), Some(Offset::new(c1, c2))) };
                    let (_, got) = w.annotate(target);
                    let ctx = vec![format!("text={:?} offset {} {} {}", text, cur_str(&c1), cur_str(&c2), match &parent { None => "against the resource".to_string(), Some(c) => format!("relative to an annotation at {:?} (each range relative to the one before)", c) })];
                    rep.case(Some(&ctx[0]));
                    rep.count("extreme-cursors");
                    // an end-aligned cursor > 0 or a cursor beyond the text: no range
                    if got != Ok(None) {
                        rep.fail(if got.is_err() { "panic" } else { "oracle" }, &format!("extreme-cursor/{}/{}", if parent.is_some() { "relative" } else { "resource" }, if got.is_err() { "panics" } else { "accepted" }), ctx, "refused with an error", &res_str(&got));
                    }
                }
            }
        }
    }
}

/// complex selectors whose members are annotation selectors with offsets, on annotations created one after the other
/// (consecutive handles: what the internal range-compression of sub-selectors looks for): the annotation selects, per
/// member, exactly the addressed part of that member's annotation
fn complex_relative(rep: &mut Report, rng: &mut Rng, rounds: usize) {
    let text: String = (0..14).map(|i| ALPHABET[i % ALPHABET.len()]).collect();
    let bases: [(usize, usize); 5] = [(0, 3), (3, 5), (5, 9), (9, 12), (12, 14)];
    for round in 0..rounds {
        let mut w = World::new(&text);
        // the base annotations; now and then one more in between so that handles are not consecutive
        let mut ids: Vec<(String, (usize, usize))> = vec![];
        for (k, (b, e)) in bases.iter().enumerate() {
            if round % 5 == 4 && k == 2 { let _ = w.annotate(SelectorBuilder::resourceselector("r")); }
            let (id, r) = w.annotate(SelectorBuilder::textselector("r", Offset::simple(*b, *e)));
            if r != Ok(Some((*b, *e))) { rep.fail("oracle", "complex-relative/base", vec![format!("text={:?} base {} {}", text, b, e)], "accepted", &res_str(&r)); return; }
            ids.push((id, (*b, *e)));
        }
        let i = rng.below(ids.len() - 1);
        let k = (2 + rng.below(3)).min(ids.len() - i);
        let kind = rng.below(3);
        let mut members = vec![];
        let mut want: Option<Vec<(usize, usize)>> = Some(vec![]);
        let mut desc = vec![];
        for j in 0..k {
            let (pid, (pb, pe)) = ids[i + j].clone();
            let pn = pe - pb;
            let menu = cursors(pn, 1);
            let (c1, c2) = if rng.chance(45) { (Cursor::BeginAligned(0), Cursor::EndAligned(0)) } else if rng.chance(50) { (Cursor::BeginAligned(0), *rng.pick(&menu)) } else { (*rng.pick(&menu), *rng.pick(&menu)) };
            match (oracle(&c1, &c2, pn), &mut want) { (Some((b, e)), Some(v)) => v.push((pb + b, pb + e)), _ => want = None }
            desc.push(format!("{}[{}..{}] {} {}", pid, pb, pe, cur_str(&c1), cur_str(&c2)));
            members.push(SelectorBuilder::annotationselector(pid, Some(Offset::new(c1, c2))));
        }
        let target = match kind { 0 => SelectorBuilder::multiselector(members), 1 => SelectorBuilder::compositeselector(members), _ => SelectorBuilder::directionalselector(members) };
        let ctx = vec![format!("text={:?} {} of annotation selectors with offsets: {}", text, ["MultiSelector", "CompositeSelector", "DirectionalSelector"][kind], desc.join("; "))];
        rep.case(Some(&ctx[0]));
        rep.count("complex-relative");
        let id = w.fresh();
        let idc = id.clone();
        let store = &mut w.store;
        let got = guarded(std::panic::AssertUnwindSafe(|| match store.annotate(AnnotationBuilder::new().with_id(idc.clone()).with_target(target)) {
            Ok(_) => { let a = store.annotation(idc.as_str()).expect("just added"); let mut v: Vec<(usize, usize)> = a.textselections().map(|t| (t.begin(), t.end())).collect(); v.sort(); Some(v) }
            Err(_) => None,
        }));
        let mut want_sorted = want.clone();
        if let Some(v) = &mut want_sorted { v.sort(); v.dedup(); }
        let got_d = got.clone().map(|g| g.map(|mut v| { v.dedup(); v }));
        if got_d != Ok(want_sorted.clone()) {
            rep.fail(if got.is_err() { "panic" } else { "oracle" }, &format!("complex-relative/{}", if want.is_none() { "invalid-member-accepted" } else if matches!(got, Ok(None)) { "valid-refused" } else { "selections-differ" }), ctx, &format!("{:?}", want_sorted), &format!("{:?}", got));
        }
    }
}
