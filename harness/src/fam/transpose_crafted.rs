//! C16: crafted transpositions taken over from a sub-agent's hunt for violations (hunt/C16-hunt3.rs, its helpers and
//! assertions as they were written): every function states, by assertions, what the property requires on one input.
//! `run_all` runs them on the implementation; a failed assertion is a concrete failing input.
#![allow(dead_code)]
use crate::common::*;
use stam::*;

const TRANSPOSE_NS: &str = "https://w3id.org/stam/extensions/stam-transpose/";

fn two_resources(text1: &str, text2: &str) -> AnnotationStore {
    AnnotationStore::default()
        .with_id("hunt")
        .with_resource(
            TextResourceBuilder::new()
                .with_id("r1")
                .with_text(text1.to_string()),
        )
        .unwrap()
        .with_resource(
            TextResourceBuilder::new()
                .with_id("r2")
                .with_text(text2.to_string()),
        )
        .unwrap()
}

/// one text selector, or a directional selector over several
fn target(resource: &str, offsets: &[(usize, usize)]) -> SelectorBuilder<'static> {
    if offsets.len() == 1 {
        SelectorBuilder::textselector(
            resource.to_string(),
            Offset::simple(offsets[0].0, offsets[0].1),
        )
    } else {
        SelectorBuilder::DirectionalSelector(
            offsets
                .iter()
                .map(|(b, e)| {
                    SelectorBuilder::textselector(resource.to_string(), Offset::simple(*b, *e))
                })
                .collect(),
        )
    }
}

fn annotate(store: &mut AnnotationStore, id: &str, resource: &str, offsets: &[(usize, usize)]) {
    store
        .annotate(
            AnnotationBuilder::new()
                .with_id(id.to_string())
                .with_target(target(resource, offsets))
                .with_data("testdataset", "type", "x"),
        )
        .unwrap();
}

/// a complex transposition `id` over the (existing) side annotations
fn transposition(store: &mut AnnotationStore, id: &str, sides: Vec<SelectorBuilder<'static>>) {
    store
        .annotate(
            AnnotationBuilder::new()
                .with_id(id.to_string())
                .with_target(SelectorBuilder::DirectionalSelector(sides))
                .with_data(TRANSPOSE_NS, "Transposition", DataValue::Null),
        )
        .unwrap();
}

/// (resource, begin, end, text) of everything an annotation selects, in order
fn pieces(store: &AnnotationStore, id: &str) -> Vec<(String, usize, usize, String)> {
    store
        .annotation(id)
        .expect("annotation must exist")
        .textselections()
        .map(|t| {
            (
                t.resource().id().unwrap().to_string(),
                t.begin(),
                t.end(),
                t.text().to_string(),
            )
        })
        .collect()
}

/// transposes `source` over `via`, adds the result to the store; the transposed annotation gets id `target_id`
/// and the new transposition gets id `transposition_id`
fn transpose_and_add(
    store: &mut AnnotationStore,
    source: &str,
    via: &str,
    target_id: &str,
    transposition_id: &str,
) -> Result<(), StamError> {
    let builders = {
        let via = store.annotation(via).expect("via must exist");
        let source = store.annotation(source).expect("source must exist");
        source.transpose(
            &via,
            TransposeConfig {
                transposition_id: Some(transposition_id.to_string()),
                target_side_ids: vec![target_id.to_string()],
                ..Default::default()
            },
        )?
    };
    store.annotate_from_iter(builders.into_iter())?;
    Ok(())
}

/// VIOLATION 1: the sides of a transposition that are given as AnnotationSelectors *with an offset*
/// are taken to be the whole text of the annotations they point at.
///
/// The transposition V links S0[2:7] = r1[2,7) = "abcde" with S1[0:5] = r2[0,5) = "abcde"
/// (`V.textselections()` itself reports exactly these two, identical, texts). The source selects
/// r1[3,5) = "bc", which lies inside the first side. `transpose` succeeds, but the transposed
/// annotation selects r2[3,5) = "de": not the text of the source, and the new transposition
/// that is returned links "bc" to "de". (In the same way a source outside the linked part, e.g.
/// r1[8,10), is not refused but transposed onto unrelated text.)
///
/// Cause: src/api/transpose.rs, `Transposable::transpose` for `ResultTextSelectionSet`: both the
/// source matching loop and the target mapping loop walk `via.annotations_in_targets(..)` and use
/// `annotation.textselections()` of each side annotation as the reference fragments; the offset that
/// the transposition's `Selector::AnnotationSelector(_, Some(..))` carries is never looked at, so
/// relative offsets are computed against, and applied to, the wrong reference text selections.
pub fn transpose_ignores_offset_of_annotationselector_sides() -> Result<(), StamError> {
    let mut store = two_resources("xxabcdeyyy", "abcdezzzzz");
    annotate(&mut store, "S0", "r1", &[(0, 10)]);
    annotate(&mut store, "S1", "r2", &[(0, 10)]);
    transposition(
        &mut store,
        "V",
        vec![
            SelectorBuilder::annotationselector("S0", Some(Offset::simple(2, 7))),
            SelectorBuilder::annotationselector("S1", Some(Offset::simple(0, 5))),
        ],
    );
    // sanity: the transposition is a valid one, it links identical text
    {
        let via = store.annotation("V").or_fail()?;
        let texts: Vec<&str> = via.textselections().map(|t| t.text()).collect();
        assert_eq!(texts, vec!["abcde", "abcde"], "sanity check for the transposition");
    }
    annotate(&mut store, "A", "r1", &[(3, 5)]);
    assert_eq!(pieces(&store, "A")[0].3, "bc", "sanity check for the source");

    // succeeding is fine (the source is covered), failing with an error would be acceptable too,
    // but succeeding with a different text is not
    if transpose_and_add(&mut store, "A", "V", "At", "T").is_ok() {
        assert_eq!(
            pieces(&store, "At"),
            vec![("r2".to_string(), 1, 3, "bc".to_string())],
            "the transposed annotation must select the same text as the source, in the other side"
        );
    }
    Ok(())
}

/// VIOLATION 1b (same cause as violation 1, the other clause of the property): a source that is NOT
/// covered by the transposition is transposed all the same.
///
/// Same transposition V as above (S0[2:7] = r1[2,7) "abcde" <-> S1[0:5] = r2[0,5) "abcde").
/// The source r1[8,10) = "yy" lies wholly outside the linked text; the call must fail with an error.
/// Instead it succeeds and returns an annotation on r2[8,10) = "zz" plus a transposition linking "yy" to "zz".
///
/// Cause: as for violation 1 (src/api/transpose.rs, `transpose` for `ResultTextSelectionSet`, the offset of a
/// side's `Selector::AnnotationSelector(_, Some(..))` is ignored, the whole annotation S0 = r1[0,10) is
/// taken as the reference fragment).
pub fn transpose_accepts_source_outside_offset_of_annotationselector_sides() -> Result<(), StamError> {
    let mut store = two_resources("xxabcdeyyy", "abcdezzzzz");
    annotate(&mut store, "S0", "r1", &[(0, 10)]);
    annotate(&mut store, "S1", "r2", &[(0, 10)]);
    transposition(
        &mut store,
        "V",
        vec![
            SelectorBuilder::annotationselector("S0", Some(Offset::simple(2, 7))),
            SelectorBuilder::annotationselector("S1", Some(Offset::simple(0, 5))),
        ],
    );
    annotate(&mut store, "A", "r1", &[(8, 10)]);
    let via = store.annotation("V").or_fail()?;
    let source = store.annotation("A").or_fail()?;
    assert_eq!(source.text_simple(), Some("yy"), "sanity check for the source");
    let result = source.transpose(&via, TransposeConfig::default());
    assert!(
        result.is_err(),
        "a source outside the text the transposition links must be refused, got {} annotations",
        result.map(|b| b.len()).unwrap_or(0)
    );
    Ok(())
}

/// VIOLATION 2: transposing back does not return the original offsets when pieces overlap
/// (a piece is cut at the end of an *earlier* reference fragment that merely holds its begin,
/// although a later reference fragment holds it entirely).
///
/// The source annotation A selects r1[0,5) = "abcde" and r1[3,8) = "defgh" (two overlapping pieces,
/// both inside the single fragment of the transposition). Transposing gives At = r2[2,7), r2[5,10) and the
/// new transposition T = (A, At); all fine. Transposing At back over T must give r1[0,5), r1[3,8) again,
/// but gives three pieces r1[0,5), r1[3,5), r1[5,8) (and needlessly resegments At).
/// (With the pieces in the other order, r1[3,8) then r1[0,5), the way back is right: it depends on
/// which fragment comes first.)
///
/// Cause: src/api/transpose.rs, the source matching loop of `transpose` for `ResultTextSelectionSet`
/// (`for (refseqnr, reftsel) in annotation.textselections().enumerate()`): the *first* reference
/// fragment whose intersection holds the begin of the source piece is taken (`matched = true; break`),
/// the rest goes back to the buffer as remainder; a fragment further on that contains (or equals) the
/// whole piece is never considered.
pub fn transpose_back_returns_other_offsets_for_overlapping_pieces() -> Result<(), StamError> {
    let mut store = two_resources("abcdefghijklmnop", "XXabcdefghijklmnop");
    annotate(&mut store, "S0", "r1", &[(0, 16)]);
    annotate(&mut store, "S1", "r2", &[(2, 18)]);
    transposition(
        &mut store,
        "V",
        vec![
            SelectorBuilder::annotationselector("S0", None),
            SelectorBuilder::annotationselector("S1", None),
        ],
    );
    annotate(&mut store, "A", "r1", &[(0, 5), (3, 8)]);

    transpose_and_add(&mut store, "A", "V", "At", "T")?;
    assert_eq!(
        pieces(&store, "At"),
        vec![
            ("r2".to_string(), 2, 7, "abcde".to_string()),
            ("r2".to_string(), 5, 10, "defgh".to_string())
        ],
        "sanity: the transposed annotation"
    );
    {
        let t = store.annotation("T").or_fail()?;
        let sides: Vec<_> = t
            .annotations_in_targets(AnnotationDepth::One)
            .map(|a| a.id().unwrap().to_string())
            .collect();
        assert_eq!(sides, vec!["A", "At"], "sanity: the new transposition links A and At");
    }

    // and back again
    transpose_and_add(&mut store, "At", "T", "Aback", "Tback")?;
    assert_eq!(
        pieces(&store, "Aback"),
        pieces(&store, "A"),
        "transposing back over the new transposition must return the original offsets"
    );
    Ok(())
}

/// VIOLATION 3: transposing back fails when the two sides lie in the same resource and overlap
/// (a side that merely holds the begin of the source is taken as the source side, although
/// another side holds the source entirely).
///
/// r1 = "abcabcabc"; the transposition V links r1[0,6) = "abcabc" with r1[3,9) = "abcabc".
/// A = r1[1,5) = "bcab" is transposed to At = r1[4,8) = "bcab", new transposition T = (A, At); fine.
/// Transposing At back over T (At is exactly the second side of T!) fails with
/// "Not all source fragments were found in the complex transposition T".
/// For the same reason transposing r1[4,8) over V itself fails, although the second side of V covers it
/// (it works with `source_side: TranspositionSide::ByIndex(1)`).
///
/// Cause: src/api/transpose.rs, the source matching loop of `transpose` for `ResultTextSelectionSet`:
/// with `TranspositionSide::Auto` the sides are tried in order and the first side in which a fragment
/// holds the *begin* of the source piece is accepted with a remainder (`source_side = Some(side_i)`,
/// `tselbuffer.push_front(remainder)`); the source is then pinned to that side, the remainder is not
/// found there and the call fails. A side that contains the piece entirely is never preferred.
pub fn transpose_back_fails_for_overlapping_sides_in_one_resource() -> Result<(), StamError> {
    let mut store = two_resources("abcabcabc", "unused");
    annotate(&mut store, "S0", "r1", &[(0, 6)]);
    annotate(&mut store, "S1", "r1", &[(3, 9)]);
    transposition(
        &mut store,
        "V",
        vec![
            SelectorBuilder::annotationselector("S0", None),
            SelectorBuilder::annotationselector("S1", None),
        ],
    );
    annotate(&mut store, "A", "r1", &[(1, 5)]);

    transpose_and_add(&mut store, "A", "V", "At", "T")?;
    assert_eq!(
        pieces(&store, "At"),
        vec![("r1".to_string(), 4, 8, "bcab".to_string())],
        "sanity: the transposed annotation"
    );

    // and back again: At is one of the two sides of T, so it is certainly covered
    let back = transpose_and_add(&mut store, "At", "T", "Aback", "Tback");
    assert!(
        back.is_ok(),
        "transposing back over the new transposition must succeed, got {:?}",
        back
    );
    assert_eq!(
        pieces(&store, "Aback"),
        pieces(&store, "A"),
        "transposing back over the new transposition must return the original offsets"
    );
    Ok(())
}


pub fn run_all(rep: &mut Report) {
    let cases: [(&str, &str, fn() -> Result<(), StamError>); 4] = [
        ("sides-given-as-annotation-selectors-with-an-offset/covered-source-lands-on-other-text", "r1 = xxabcdeyyy, r2 = abcdezzzzz; the transposition links AnnotationSelector(S0 = r1[0,10), offset 2..7) with AnnotationSelector(S1 = r2[0,10), offset 0..5), both \"abcde\"; source r1[3,5) = \"bc\"", transpose_ignores_offset_of_annotationselector_sides),
        ("sides-given-as-annotation-selectors-with-an-offset/uncovered-source-is-transposed", "the same transposition; source r1[8,10) = \"yy\", outside the linked text", transpose_accepts_source_outside_offset_of_annotationselector_sides),
        ("overlapping-pieces/transposing-back-cuts-them-up", "r1 = abcdefghijklmnop, r2 = XX + the same; V links r1[0,16) with r2[2,18); the source selects r1[0,5) and r1[3,8); transposed, and transposed back over the transposition that came out", transpose_back_returns_other_offsets_for_overlapping_pieces),
        ("sides-that-overlap-in-one-resource/transposing-back-is-refused", "r1 = abcabcabc; V links r1[0,6) with r1[3,9); source r1[1,5); transposed, and transposed back over the transposition that came out", transpose_back_fails_for_overlapping_sides_in_one_resource),
    ];
    for (name, what, f) in cases {
        rep.count("crafted-transpositions");
        rep.case(Some(&format!("crafted {}", name)));
        match guarded(std::panic::AssertUnwindSafe(|| f())) {
            Ok(Ok(())) => {}
            Ok(Err(e)) => rep.fail("oracle", &format!("C16/crafted/{}", name), vec![what.to_string()], "what the property requires (see the assertions of the case)", &format!("error: {}", e)),
            Err(m) => rep.fail("oracle", &format!("C16/crafted/{}", name), vec![what.to_string()], "what the property requires (see the assertions of the case)", &m.chars().take(300).collect::<String>()),
        }
    }
}
