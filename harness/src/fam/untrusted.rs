//! C19 (loading untrusted serialisations never panics, aborts or hangs).
//!
//! Valid serialisations (STAM JSON, STAM CSV, CBOR) of stores reached by operation histories are mutated:
//! fields deleted / duplicated / reordered / retyped, references made dangling or cyclic, integers and
//! temporary identifiers made extreme, files truncated, bytes flipped. Every mutant is loaded in a worker
//! process under an address-space limit and a time-out (an allocation failure aborts the process and cannot be
//! caught in-process). Loading must return an error or a store on which the C01-C03 oracles hold and which can
//! be observed and serialised without panic. The small string parsers (cursor, type, data format, selector
//! kind, annotation builders) are fuzzed in-process.
use crate::common::*;
use crate::fam::store::{consistency, observe, Exec, Gen};
use serde_json::json;
use stam::*;
use std::io::Write;

fn scratch_dir(tag: &str) -> std::path::PathBuf {
    let d = std::path::Path::new(env!("CARGO_MANIFEST_DIR")).join("target").join("scratch").join(format!("ut{}-{}", std::process::id(), tag));
    std::fs::create_dir_all(&d).ok();
    d
}

/// one case: format, the mutation class (for signatures), the bytes of the main document, extra files (CSV)
pub struct Case { pub format: &'static str, pub class: String, pub main: Vec<u8>, pub extra: Vec<(String, Vec<u8>)> }

/// the store, and what the script itself says each successfully added annotation with plain begin-aligned text
/// selectors selects (an expectation that does not pass through the library)
fn base_store(seed: u64, i: usize) -> (AnnotationStore, Vec<(String, Vec<(String, usize, usize)>)>) {
    let mut g = Gen::new(seed.wrapping_mul(17_000_023).wrapping_add(i as u64));
    g.rich = true;
    g.force_ids = i % 2 == 0;
    let mut script: Vec<String> = if i % 2 == 1 { crate::fam::store::scenario(&mut g) } else { vec![] };
    let nops = 6 + g.rng.below(20);
    script.extend((0..nops).map(|_| g.op()));
    if i % 5 == 0 {
        // selections whose per-resource handles line up across two resources (j in one, j+1 in the other) inside one
        // complex selector: the shape internal range compression must not merge
        let j = g.rng.below(3);
        script.push("st addres xa 30".into());
        script.push("st addres xb 30".into());
        for k in 0..j { script.push(format!("st annot xa{} T:xa:b{}:b{}", k, k, k + 2)); }
        for k in 0..j + 1 { script.push(format!("st annot xb{} T:xb:b{}:b{}", k, k, k + 3)); }
        let kind = *g.rng.pick(&['M', 'C', 'X']);
        script.push(format!("st annot xc {}[T:xa:b10:b12;T:xb:b14:b17;T:xa:b20:b21]", kind));
    }
    let mut ex = Exec::new();
    let mut expect: Vec<(String, Vec<(String, usize, usize)>)> = vec![];
    for l in &script {
        let out = ex.exec(l);
        let t: Vec<&str> = l.split_whitespace().collect();
        if t.len() >= 4 && t[1] == "annot" && t[2] != "~" && out.starts_with("ok") {
            let tgt = t[3];
            let inner = if tgt.len() > 3 && tgt[1..].starts_with('[') && tgt.ends_with(']') { &tgt[2..tgt.len() - 1] } else { tgt };
            let mut sels = vec![];
            let ok = inner.split(';').filter(|x| !x.is_empty()).all(|p| { let q: Vec<&str> = p.split(':').collect(); if q.len() == 4 && q[0] == "T" && q[2].starts_with('b') && q[3].starts_with('b') { match (q[2][1..].parse::<usize>(), q[3][1..].parse::<usize>()) { (Ok(b), Ok(e)) => { sels.push((q[1].to_string(), b, e)); true } _ => false } } else { false } });
            if ok && !sels.is_empty() { sels.sort(); expect.retain(|x| x.0 != t[2]); expect.push((t[2].to_string(), sels)); }
        }
        if t.len() >= 3 && (t[1] == "rmann" || t[1] == "rmres" || t[1] == "rmdata" || t[1] == "rmkey" || t[1] == "rmset" || t[1] == "stripann" || t[1] == "reindex") { expect.clear(); }
    }
    (ex.store, expect)
}

const HOSTILE_VALUES: &[&str] = &["null", "[]", "{}", "true", "0", "-1", "99999999999999999999", "18446744073709551615", "9223372036854775808", "1e308", "1e999", "-0", "\"\"", "\"!A0\"", "\"!A7\"", "\"!A99999999999\"", "\"!D18446744073709551615\"", "\"!R3\"", "\"!S1\"", "\"!K2\"", "\"!\"", "\"!A\"", "\"!A-1\"", "\"!\u{e9}1\"", "\"nope\"", "[[[[[[]]]]]]", "{\"@type\": \"TextSelector\"}", "\"\\ud800\""];

fn mutate_text(rng: &mut Rng, doc: &str) -> (String, String) {
    let lines: Vec<&str> = doc.lines().collect();
    let pick_line = |rng: &mut Rng| rng.below(lines.len().max(1));
    match rng.below(15) {
        0 => { let mut l = lines.clone(); if !l.is_empty() { l.remove(pick_line(rng)); } ("field-deleted".into(), l.join("\n")) }
        1 => { let mut l = lines.clone(); if !l.is_empty() { let i = pick_line(rng); l.insert(i, l[i]); } ("field-duplicated".into(), l.join("\n")) }
        2 => { let mut l = lines.clone(); if l.len() > 1 { let i = rng.below(l.len() - 1); l.swap(i, i + 1); } ("fields-reordered".into(), l.join("\n")) }
        3 | 4 => {
            // retype the value of one "key": value line
            let cands: Vec<usize> = lines.iter().enumerate().filter(|(_, l)| l.contains("\": ")).map(|(i, _)| i).collect();
            if cands.is_empty() { return ("unchanged".into(), doc.to_string()); }
            let i = *rng.pick(&cands);
            let (k, v) = lines[i].split_once("\": ").unwrap();
            let comma = if v.trim_end().ends_with(',') { "," } else { "" };
            let nv = *rng.pick(HOSTILE_VALUES);
            let cls = if nv.starts_with("\"!") { "temp-id" } else if nv.chars().next().map(|c| c.is_ascii_digit() || c == '-').unwrap_or(false) { "number" } else { "retyped" };
            let key = k.trim().trim_start_matches('"').to_string();
            let mut l: Vec<String> = lines.iter().map(|s| s.to_string()).collect();
            l[i] = format!("{}\": {}{}", k, nv, comma);
            (format!("{}/{}", cls, if key.starts_with('@') || ["value", "begin", "end", "resource", "annotation", "set", "key", "text", "data", "offset", "target", "selectors"].contains(&key.as_str()) { key } else { "other".into() }), l.join("\n"))
        }
        5 => {
            // dangling reference: rename one quoted identifier occurrence
            let ids = ["\"r0\"", "\"r1\"", "\"s0\"", "\"s1\"", "\"k0\"", "\"k1\"", "\"a0\"", "\"a1\"", "\"a2\"", "\"d1\"", "\"d2\""];
            let present: Vec<&&str> = ids.iter().filter(|x| doc.contains(**x)).collect();
            if present.is_empty() { return ("unchanged".into(), doc.to_string()); }
            let id = **rng.pick(&present);
            let n = doc.matches(id).count();
            let k = rng.below(n);
            let mut out = String::new(); let mut rest = doc; let mut c = 0;
            while let Some(p) = rest.find(id) { out.push_str(&rest[..p]); out.push_str(if c == k { "\"dangling\"" } else { id }); rest = &rest[p + id.len()..]; c += 1; }
            out.push_str(rest);
            ("dangling-reference".into(), out)
        }
        6 => {
            // cyclic reference: make an annotation target itself or a later annotation
            let out = doc.replacen("\"@type\": \"ResourceSelector\"", "\"@type\": \"AnnotationSelector\", \"annotation\": \"a1\"", 1);
            ("cyclic-or-forward-reference".into(), out)
        }
        7 => { let b = doc.as_bytes(); let n = rng.below(b.len() + 1); ("truncated".into(), String::from_utf8_lossy(&b[..n]).to_string()) }
        8 => { let mut b = doc.as_bytes().to_vec(); if !b.is_empty() { let i = rng.below(b.len()); b[i] ^= 1 << rng.below(8); } ("bit-flipped".into(), String::from_utf8_lossy(&b).to_string()) }
        9 => {
            // extreme integer in an offset / cursor
            let cands: Vec<usize> = lines.iter().enumerate().filter(|(_, l)| l.contains("\"value\": ")).map(|(i, _)| i).collect();
            if cands.is_empty() { return ("unchanged".into(), doc.to_string()); }
            let i = *rng.pick(&cands);
            let mut l: Vec<String> = lines.iter().map(|s| s.to_string()).collect();
            let nv = *rng.pick(&["18446744073709551615", "-9223372036854775808", "9223372036854775807", "99999999999999999999999", "-99999999999", "4294967296", "1.5", "\"7\""]);
            l[i] = format!("{}\"value\": {}", &lines[i][..lines[i].find("\"value\"").unwrap()], nv);
            ("extreme-cursor".into(), l.join("\n"))
        }
        10 => {
            // temporary identifiers in "@id" fields
            let cands: Vec<usize> = lines.iter().enumerate().filter(|(_, l)| l.contains("\"@id\": ")).map(|(i, _)| i).collect();
            if cands.is_empty() { return ("unchanged".into(), doc.to_string()); }
            let i = *rng.pick(&cands);
            let mut l: Vec<String> = lines.iter().map(|s| s.to_string()).collect();
            let nv = *rng.pick(&["\"!A0\"", "\"!A3\"", "\"!A1000\"", "\"!A4000000000\"", "\"!A18446744073709551615\"", "\"!D5\"", "\"!D4000000000\"", "\"!R2\"", "\"!X1\"", "\"!a1\"", "\"!A 1\""]);
            let comma = if lines[i].trim_end().ends_with(',') { "," } else { "" };
            l[i] = format!("{}\"@id\": {}{}", &lines[i][..lines[i].find("\"@id\"").unwrap()], nv, comma);
            (format!("temp-id/@id/{}", if nv.len() > 10 { "huge" } else { "small" }), l.join("\n"))
        }
        12 | 13 => {
            // a reference (key, set, resource, annotation, data identifier) in the shape of a temporary identifier,
            // within and beyond the number of items that exist
            let fields = ["\"key\": ", "\"set\": ", "\"resource\": ", "\"annotation\": ", "\"dataset\": ", "\"@id\": "];
            let cands: Vec<(usize, &str)> = lines.iter().enumerate().filter_map(|(i, l)| fields.iter().find(|f| l.contains(**f) && !l.trim_end().ends_with('{') && !l.trim_end().ends_with('[')).map(|f| (i, *f))).collect();
            if cands.is_empty() { return ("unchanged".into(), doc.to_string()); }
            let (i, f) = *rng.pick(&cands);
            let letter = match f { "\"key\": " => *rng.pick(&['K', 'K', 'K', 'D']), "\"set\": " | "\"dataset\": " => 'S', "\"resource\": " => 'R', "\"annotation\": " => 'A', _ => *rng.pick(&['D', 'K', 'A', 'R', 'S']) };
            let n = *rng.pick(&[0usize, 1, 2, 3, 5, 7, 12, 50, 1000, 70000]);
            let comma = if lines[i].trim_end().ends_with(',') { "," } else { "" };
            let mut l: Vec<String> = lines.iter().map(|s| s.to_string()).collect();
            l[i] = format!("{}{}\"!{}{}\"{}", &lines[i][..lines[i].find(f).unwrap()], f, letter, n, comma);
            (format!("temp-id-reference/{}/{}", f.trim_matches(|c| c == '"' || c == ':' || c == ' '), if n < 4 { "low" } else { "beyond" }), l.join("\n"))
        }
        11 => { let k = 50 + rng.below(5000); (format!("deep-nesting"), format!("{}{}", "[".repeat(k), "]".repeat(k))) }
        _ => { let mut l = lines.clone(); if l.len() > 3 { let a = pick_line(rng); let b = pick_line(rng); let (a, b) = (a.min(b), a.max(b)); l.drain(a..b.min(a + 6)); } ("block-deleted".into(), l.join("\n")) }
    }
}

fn mutate_csv(rng: &mut Rng, doc: &str) -> (String, String) {
    let mut lines: Vec<String> = doc.lines().map(|s| s.to_string()).collect();
    if lines.len() < 2 { return ("unchanged".into(), doc.to_string()); }
    let i = 1 + rng.below(lines.len() - 1);
    match rng.below(11) {
        8 | 9 | 10 => {
            // one of the ';'-separated lists of a complex selector loses or blanks an element: the parallel lists
            // (selector types, resources, annotations, begin and end offsets) no longer line up
            let rows: Vec<usize> = (1..lines.len()).filter(|k| lines[*k].contains(';')).collect();
            if rows.is_empty() { return ("unchanged".into(), doc.to_string()); }
            let i = *rng.pick(&rows);
            let mut cells: Vec<String> = lines[i].split(',').map(|s| s.to_string()).collect();
            let listcells: Vec<usize> = (0..cells.len()).filter(|c| cells[*c].contains(';')).collect();
            let c = *rng.pick(&listcells);
            let mut items: Vec<String> = cells[c].split(';').map(|s| s.to_string()).collect();
            let what = match rng.below(3) { 0 => { items.pop(); "last-dropped" } 1 => { items.remove(0); "first-dropped" } _ => { let k = rng.below(items.len()); items[k] = String::new(); "blanked" } };
            cells[c] = items.join(";");
            lines[i] = cells.join(",");
            (format!("list-element-{}/col{}", what, c), lines.join("\n"))
        }
        0 => { lines.remove(i); ("row-deleted".into(), lines.join("\n")) }
        1 => { let l = lines[i].clone(); lines.insert(i, l); ("row-duplicated".into(), lines.join("\n")) }
        2 => { lines.remove(0); ("header-deleted".into(), lines.join("\n")) }
        3 | 4 => {
            let mut cells: Vec<String> = lines[i].split(',').map(|s| s.to_string()).collect();
            let c = rng.below(cells.len());
            let nv = *rng.pick(&["", "nope", "!A5", "!A99999999999", "!D3", "TextSelector", "MultiSelector", "InternalRangedSelector", "AnnotationSelector;TextSelector", "0", "-0", "-99999999999999999999", "99999999999999999999", "1;2;3", ";", ";;;;", "\"", "a;b;c;d;e;f"]);
            cells[c] = nv.to_string();
            lines[i] = cells.join(",");
            (format!("cell-replaced/col{}", c), lines.join("\n"))
        }
        5 => { let mut cells: Vec<&str> = lines[i].split(',').collect(); if cells.len() > 1 { let c = rng.below(cells.len() - 1); cells.swap(c, c + 1); } let l = cells.join(","); lines[i] = l; ("cells-swapped".into(), lines.join("\n")) }
        6 => { let b = doc.as_bytes(); let n = rng.below(b.len() + 1); ("truncated".into(), String::from_utf8_lossy(&b[..n]).to_string()) }
        _ => { let cells: Vec<&str> = lines[i].split(',').collect(); let n = rng.below(cells.len() + 1); let l = cells[..n].join(","); lines[i] = l; ("row-shortened".into(), lines.join("\n")) }
    }
}

/// damage to the structure of the document that leaves every item intact: the count in the header of the top-level
/// array (the fields of the store) one less / one more than the fields that follow. A decoder that accepts either has
/// not read the store that was written.
fn structural_cbor(doc: &[u8]) -> Vec<(String, Vec<u8>)> {
    let mut out = vec![];
    if doc.is_empty() { return out; }
    let (count, hdr): (u64, usize) = match doc[0] {
        0x80..=0x97 => ((doc[0] & 0x1f) as u64, 1),
        0x98 if doc.len() > 1 => (doc[1] as u64, 2),
        0x99 if doc.len() > 2 => (((doc[1] as u64) << 8) | doc[2] as u64, 3),
        _ => return out,
    };
    for (name, c) in [("toplevel-count-minus-1", count.wrapping_sub(1)), ("toplevel-count-plus-1", count + 1)] {
        if count == 0 && name.ends_with("minus-1") { continue; }
        let mut b: Vec<u8> = if c < 24 { vec![0x80 | c as u8] } else if c < 256 { vec![0x98, c as u8] } else { vec![0x99, (c >> 8) as u8, c as u8] };
        b.extend_from_slice(&doc[hdr..]);
        out.push((name.to_string(), b));
    }
    out
}

fn mutate_bytes(rng: &mut Rng, doc: &[u8]) -> (String, Vec<u8>) {
    let mut b = doc.to_vec();
    if b.is_empty() { return ("unchanged".into(), b); }
    match rng.below(9) {
        6 | 7 | 8 => {
            // a length header (array, map, byte or text string with a short length) turned into its 4- or 8-byte form:
            // the bytes that follow are then read as a huge count
            let cands: Vec<usize> = b.iter().enumerate().filter(|(_, x)| matches!(**x, 0x80..=0x97 | 0xa0..=0xb7 | 0x40..=0x57 | 0x60..=0x77)).map(|(i, _)| i).collect();
            if cands.is_empty() { return ("unchanged".into(), b); }
            let i = *rng.pick(&cands);
            b[i] = (b[i] & 0xe0) | if rng.chance(50) { 0x1a } else { 0x1b };
            ("length-header-inflated".into(), b)
        }
        0 => { let n = rng.below(b.len() + 1); b.truncate(n); ("truncated".into(), b) }
        1 | 2 => { let i = rng.below(b.len()); b[i] ^= 1 << rng.below(8); ("bit-flipped".into(), b) }
        3 => { for _ in 0..(2 + rng.below(6)) { let i = rng.below(b.len()); b[i] = rng.below(256) as u8; } ("bytes-replaced".into(), b) }
        4 => { let i = rng.below(b.len()); let k = rng.below(9); for j in 0..k { if i + j < b.len() { b[i + j] = 0xff; } } ("ff-run".into(), b) }
        _ => { let i = rng.below(b.len()); let n = 1 + rng.below(4); let e = (i + n).min(b.len()); b.drain(i..e); ("bytes-deleted".into(), b) }
    }
}

/// what a STAM JSON document itself says about the text its annotations select: for every annotation with a
/// public identifier whose target consists of text selectors with begin-aligned cursors only, the selected ranges
fn document_expectation(doc: &str) -> Vec<(String, Vec<(String, usize, usize)>)> {
    let v: serde_json::Value = match serde_json::from_str(doc) { Ok(v) => v, Err(_) => return vec![] };
    fn collect(t: &serde_json::Value, out: &mut Vec<(String, usize, usize)>) -> bool {
        match t.get("@type").and_then(|x| x.as_str()) {
            Some("TextSelector") => {
                let res = t.get("resource").and_then(|x| x.as_str());
                let cur = |k: &str| t.get("offset").and_then(|o| o.get(k)).and_then(|c| if c.get("@type").and_then(|x| x.as_str()) == Some("BeginAlignedCursor") { c.get("value").and_then(|x| x.as_u64()) } else { None });
                // (a resource named by a temporary identifier `!R<n>` designates a handle, not a name: no expectation)
                match (res, cur("begin"), cur("end")) { (Some(r), Some(b), Some(e)) if !r.starts_with('!') => { out.push((r.to_string(), b as usize, e as usize)); true } _ => false }
            }
            Some("MultiSelector") | Some("CompositeSelector") | Some("DirectionalSelector") => t.get("selectors").and_then(|x| x.as_array()).map(|a| a.iter().all(|s| collect(s, out))).unwrap_or(false),
            _ => false,
        }
    }
    let mut res = vec![];
    if let Some(anns) = v.get("annotations").and_then(|x| x.as_array()) {
        for a in anns {
            if let (Some(id), Some(t)) = (a.get("@id").and_then(|x| x.as_str()), a.get("target")) {
                if id.starts_with('!') { continue; }
                let mut out = vec![];
                if collect(t, &mut out) { out.sort(); res.push((id.to_string(), out)); }
            }
        }
    }
    res
}

/// outcome of loading one case: "ok" (consistent store), "err", "panic:<loc>", "inconsistent:<sig>"
fn load_case(dir: &std::path::Path, case: &Case) -> String { load_case_progress(dir, case, None) }

/// `progress`: a file that gets the word `loaded` once the loader has returned a store (what comes after is the use of it)
fn load_case_progress(dir: &std::path::Path, case: &Case, progress: Option<&std::path::Path>) -> String {
    let sub = dir.join("case");
    std::fs::remove_dir_all(&sub).ok();
    std::fs::create_dir_all(&sub).ok();
    let main = match case.format { "json" => "x.store.stam.json", "csv" => "x.store.stam.csv", _ => "x.store.stam.cbor" };
    let p = sub.join(main);
    std::fs::write(&p, &case.main).ok();
    for (n, b) in &case.extra { std::fs::write(sub.join(n), b).ok(); }
    let ps = p.to_str().unwrap().to_string();
    let r = guarded(std::panic::AssertUnwindSafe(|| {
        if case.format == "json-str" { AnnotationStore::from_str(std::str::from_utf8(&case.main).unwrap_or(""), Config::default()) } else { AnnotationStore::from_file(&ps, Config::default()) }
    }));
    match r {
        Err(m) => format!("panic:{}:{}", last_panic_loc(), m.chars().take(60).collect::<String>().replace('\n', " ")),
        Ok(Err(_)) => "err".into(),
        Ok(Ok(store)) => {
            if let Some(p) = progress { let _ = std::fs::write(p, "loaded"); }
            // what came back must be a store: observable, index-consistent, serialisable
            match guarded(std::panic::AssertUnwindSafe(|| { let o = observe(&store); let c = consistency(&store); substore_probe(&store); let j = store.to_json_string(&Config::default()).is_ok(); (o.len(), c, j) })) {
                Err(m) => format!("loaded-store-panics:{}:{}", last_panic_loc(), m.chars().take(60).collect::<String>().replace('\n', " ")),
                Ok((_, c, j)) => if let Some(d) = case.extra.iter().find(|f| f.0 == "__expect__").and_then(|f| String::from_utf8_lossy(&f.1).lines().find_map(|l| {
                        let (id, sels) = l.split_once('|')?;
                        let mut want: Vec<(String, usize, usize)> = sels.split('+').filter_map(|x| { let q: Vec<&str> = x.rsplitn(3, '.').collect(); if q.len() == 3 { Some((q[2].to_string(), q[1].parse().ok()?, q[0].parse().ok()?)) } else { None } }).collect();
                        want.sort();
                        let a = store.annotation(id)?;
                        let mut got: Vec<(String, usize, usize)> = a.textselections().map(|t| (t.resource().id().unwrap_or("?").to_string(), t.begin(), t.end())).collect();
                        got.sort();
                        if got != want { Some(format!("{}: requested {:?} store {:?}", id, want, got)) } else { None }
                    })) { format!("differs-from-what-was-annotated:{}", d.chars().take(200).collect::<String>()) }
                    else if let Some(d) = (if case.format == "json" { std::str::from_utf8(&case.main).ok().map(document_expectation).unwrap_or_default() } else { vec![] }).into_iter().find_map(|(id, want)| {
                        let a = store.annotation(id.as_str())?;
                        let mut got: Vec<(String, usize, usize)> = a.textselections().map(|t| (t.resource().id().unwrap_or("?").to_string(), t.begin(), t.end())).collect();
                        got.sort();
                        if got != want { Some(format!("{}: document {:?} store {:?}", id, want, got)) } else { None }
                    }) { format!("differs-from-document:{}", d.chars().take(200).collect::<String>().replace('\n', " ")) }
                    else if let Some((sig, detail)) = c.iter().find(|x| !x.0.starts_with("vocabulary") && x.0 != "index/key-data") { format!("inconsistent:{}|{}", sig, detail.chars().take(160).collect::<String>().replace('\n', " ").replace('\t', " ")) } else if !j { "unserialisable".into() } else { "ok".into() },
            }
        }
    }
}

/// ordinary reads that go through the sub-store tables
fn substore_probe(store: &AnnotationStore) -> usize {
    let mut n = store.substores().count();
    for ss in store.substores() { n += ss.id().map(|x| x.len()).unwrap_or(0) + ss.as_ref().annotations_len(); }
    for a in store.annotations() { n += a.substore().map(|_| 1).unwrap_or(0); }
    for r in store.resources() { n += r.substores().count(); }
    for d in store.datasets() { n += d.substores().count(); }
    n
}

fn write_cases(path: &std::path::Path, cases: &[Case]) {
    let mut f = std::fs::File::create(path).expect("batch file");
    for c in cases {
        let extra: Vec<String> = c.extra.iter().map(|(n, b)| format!("{}={}", n, b.iter().map(|x| format!("{:02x}", x)).collect::<String>())).collect();
        writeln!(f, "{}\t{}\t{}\t{}", c.format, c.class.replace('\t', " "), c.main.iter().map(|x| format!("{:02x}", x)).collect::<String>(), extra.join(";")).ok();
    }
}

fn unhexb(s: &str) -> Vec<u8> { (0..s.len() / 2).filter_map(|i| u8::from_str_radix(&s[2 * i..2 * i + 2], 16).ok()).collect() }

fn read_cases(path: &std::path::Path) -> Vec<Case> {
    std::fs::read_to_string(path).unwrap_or_default().lines().filter_map(|l| {
        let p: Vec<&str> = l.split('\t').collect();
        if p.len() < 3 { return None; }
        let format = match p[0] { "json" => "json", "csv" => "csv", "cbor" => "cbor", _ => "json" };
        let extra = p.get(3).map(|e| e.split(';').filter(|x| !x.is_empty()).filter_map(|kv| kv.split_once('=').map(|(n, h)| (n.to_string(), unhexb(h)))).collect()).unwrap_or_default();
        Some(Case { format, class: p[1].to_string(), main: unhexb(p[2]), extra })
    }).collect()
}

/// worker: load every case of the batch from `start`, append one outcome line per case (flushed)
pub fn worker(batch: &str, out: &str, start: usize) {
    install_panic_hook();
    let cases = read_cases(std::path::Path::new(batch));
    let dir = scratch_dir("w");
    let mut f = std::fs::OpenOptions::new().create(true).append(true).open(out).expect("out file");
    let progress = std::path::PathBuf::from(format!("{}.progress", out));
    for c in cases.iter().skip(start) {
        let t0 = std::time::Instant::now();
        let _ = std::fs::write(&progress, "loading");
        let o = load_case_progress(&dir, c, Some(&progress));
        writeln!(f, "{}\t{}", o, t0.elapsed().as_millis()).ok();
        f.flush().ok();
    }
    std::fs::remove_dir_all(&dir).ok();
}

/// run a batch in worker processes under an address-space limit; a worker that dies or hangs pins the case it was on
fn run_batch(cases: &[Case], dir: &std::path::Path, tag: usize) -> Vec<(String, u128)> {
    let batch = dir.join(format!("batch{}.tsv", tag));
    let out = dir.join(format!("out{}.tsv", tag));
    write_cases(&batch, cases);
    std::fs::remove_file(&out).ok();
    let exe = std::env::current_exe().expect("exe");
    let mut results: Vec<(String, u128)> = vec![];
    let mut guard = 0;
    while results.len() < cases.len() && guard < cases.len() + 2 {
        guard += 1;
        let start = results.len();
        let cmd = format!("ulimit -v 4000000; exec timeout 120 '{}' untrusted-worker '{}' '{}' {}", exe.display(), batch.display(), out.display(), start);
        let status = std::process::Command::new("sh").arg("-c").arg(&cmd).stderr(std::process::Stdio::null()).status();
        let lines: Vec<(String, u128)> = std::fs::read_to_string(&out).unwrap_or_default().lines().map(|l| { let (o, t) = l.rsplit_once('\t').unwrap_or((l, "0")); (o.to_string(), t.parse().unwrap_or(0)) }).collect();
        let done = lines.len();
        results = lines;
        if done < cases.len() {
            // the worker died on case `done`
            let how = match status { Ok(s) if s.code() == Some(124) => "hang(>120s)".to_string(), Ok(s) => format!("abort({})", s.code().map(|c| c.to_string()).unwrap_or("signal".into())), Err(e) => format!("spawn-failed({})", e) };
            // had the loader already returned a store? then it is the use of that store that hangs or aborts
            let loaded = std::fs::read_to_string(format!("{}.progress", out.display())).map(|x| x == "loaded").unwrap_or(false);
            let how = if loaded { format!("loaded-store-{}", how) } else { how };
            results.push((how.clone(), 0));
            let mut f = std::fs::OpenOptions::new().append(true).create(true).open(&out).unwrap();
            writeln!(f, "{}\t0", how).ok();
        }
    }
    results
}

fn parsers_stream(rep: &mut Report, rng: &mut Rng, n: usize) {
    let frags = ["", "0", "-0", "-1", "7", "+7", " 7", "7 ", "99999999999999999999", "-99999999999999999999", "1.5", "1e3", "\u{e9}", "-", "--1", "0x10", "\u{0}", "Annotation", "annotation", "ANNOTATION", "annotations", "TextResource", "resource", "key", "data", "datakey", "annotationdataset", "set", "dataset", "textselection", "textselections", "\u{1F600}", "json", "csv", "cbor", "JSON", "text", "TextSelector", "textselector", "MultiSelector", "InternalRangedSelector", "RangedTextSelector", "ResourceSelector", "resourceselector", "DataKeySelector", "AnnotationDataSelector", "DirectionalSelector", "CompositeSelector", "AnnotationSelector", "DataSetSelector"];
    for i in 0..n {
        let s = if i < frags.len() { frags[i].to_string() } else { let a = rng.pick(&frags).to_string(); let b = rng.pick(&frags).to_string(); match rng.below(4) { 0 => format!("{}{}", a, b), 1 => a.chars().rev().collect(), 2 => a.to_uppercase(), _ => a.chars().take(rng.below(6)).collect() } };
        let line = format!("parse: {:?}", s);
        rep.count("parsers:tried");
        let checks: Vec<(&str, Result<(), String>)> = vec![
            ("Cursor", guarded(std::panic::AssertUnwindSafe(|| { let _ = Cursor::try_from(s.as_str()); }))),
            ("Type", guarded(std::panic::AssertUnwindSafe(|| { let _ = Type::try_from(s.as_str()); }))),
            ("DataFormat", guarded(std::panic::AssertUnwindSafe(|| { let _ = DataFormat::try_from(s.as_str()); }))),
            ("SelectorKind", guarded(std::panic::AssertUnwindSafe(|| { let _ = SelectorKind::try_from(s.as_str()); }))),
        ];
        for (name, r) in checks {
            if let Err(m) = r { rep.fail("panic", &format!("C19/parser-panics/{}/{}", name, last_panic_loc()), vec![line.clone()], "Ok or Err", &m); }
        }
    }
    // annotation builders from JSON text
    let builders = ["{}", "[]", "null", "{\"@type\":\"Annotation\"}", "{\"@type\":\"Annotation\",\"target\":{\"@type\":\"TextSelector\",\"resource\":\"r0\",\"offset\":{\"begin\":{\"@type\":\"BeginAlignedCursor\",\"value\":0},\"end\":{\"@type\":\"EndAlignedCursor\",\"value\":1}}}}", "{\"@type\":\"Annotation\",\"target\":{\"@type\":\"MultiSelector\",\"selectors\":[]}}", "{\"@type\":\"Annotation\",\"target\":{\"@type\":\"MultiSelector\",\"selectors\":[{\"@type\":\"MultiSelector\",\"selectors\":[]}]}}", "{\"@type\":\"Annotation\",\"@id\":\"!A99999999999\",\"target\":{\"@type\":\"ResourceSelector\",\"resource\":\"r0\"}}", "{\"@type\":\"Annotation\",\"data\":[{\"@type\":\"AnnotationData\",\"set\":\"s\",\"key\":\"k\",\"value\":{\"@type\":\"Int\",\"value\":99999999999999999999}}],\"target\":{\"@type\":\"ResourceSelector\",\"resource\":\"r0\"}}"];
    for b in builders {
        let line = format!("builder: {}", b);
        rep.count("parsers:builder");
        let r = guarded(std::panic::AssertUnwindSafe(|| {
            let mut store = new_store();
            let _ = store.add_resource(TextResourceBuilder::new().with_id("r0").with_text("hello world"));
            if let Ok(builder) = AnnotationBuilder::from_json_str(b) { let _ = store.annotate(builder); }
            consistency(&store).first().map(|x| x.0.clone())
        }));
        match r { Err(m) => rep.fail("panic", &format!("C19/builder-panics/{}", last_panic_loc()), vec![line], "Ok or Err", &m), Ok(Some(sig)) => rep.fail("oracle", &format!("C19/builder-inconsistent/{}", sig), vec![line], "consistent", &sig), Ok(None) => {} }
    }
}

pub fn run(opts: &Opts) -> Report {
    let mut rep = Report::new(
        "untrusted",
        "valid STAM JSON (pretty, one field per line), STAM CSV (three files) and CBOR serialisations of stores reached by seeded operation histories; JSON: 13 mutation kinds (field deleted/duplicated/reordered/retyped with 28 hostile values, dangling and cyclic references, extreme cursors, temporary identifiers small and huge, truncation, bit flips, deep nesting, block deletion); CSV: 8 kinds per file; CBOR: 6 byte-level kinds; \
         each loaded in a worker process (address space limited to 4 GB, 120 s time-out per batch); the small string parsers and annotation builders in-process; \
         non-trivial = the mutant still loads (the store oracles then apply); distinct = distinct mutant documents",
    );
    let mut rng = Rng::new(opts.seed.wrapping_mul(19_000_003));
    let nbase = if opts.thorough() { 160 } else { 40 };
    let per = if opts.thorough() { 60 } else { 20 };
    let dir = scratch_dir("p");
    let mut cases: Vec<Case> = vec![];
    for i in 0..nbase {
        let (mut store, expect) = base_store(opts.seed, i);
        let expect_file: Vec<(String, Vec<u8>)> = if expect.is_empty() { vec![] } else { vec![("__expect__".to_string(), expect.iter().map(|(id, v)| format!("{}|{}", id, v.iter().map(|(r, b, e)| format!("{}.{}.{}", r, b, e)).collect::<Vec<_>>().join("+"))).collect::<Vec<_>>().join("\n").into_bytes())] };
        // ---- JSON
        if let Ok(js) = store.to_json_string(&Config::default()) {
            // the unmutated document: it must load, and what loads must be a store
            cases.push(Case { format: "json", class: "json/valid".into(), main: js.clone().into_bytes(), extra: expect_file.clone() });
            for _ in 0..per {
                let (class, m) = mutate_text(&mut rng, &js);
                cases.push(Case { format: "json", class: format!("json/{}", class), main: m.into_bytes(), extra: vec![] });
            }
        }
        // ---- CSV
        let sub = dir.join(format!("base{}", i));
        std::fs::create_dir_all(&sub).ok();
        let p = sub.join("x.store.stam.csv");
        if store.to_file(p.to_str().unwrap()).is_ok() {
            let mut files: Vec<(String, Vec<u8>)> = vec![];
            if let Ok(rd) = std::fs::read_dir(&sub) { for e in rd.flatten() { let n = e.file_name().to_string_lossy().to_string(); if let Ok(b) = std::fs::read(e.path()) { files.push((n, b)); } } }
            files.sort();
            for _ in 0..per / 2 {
                if files.is_empty() { break; }
                let k = rng.below(files.len());
                let (class, m) = mutate_csv(&mut rng, &String::from_utf8_lossy(&files[k].1));
                let mut fs = files.clone();
                fs[k].1 = m.into_bytes();
                let which = if fs[k].0 == "x.store.stam.csv" { "manifest" } else if fs[k].0.contains(".annotations.") { "annotations" } else if fs[k].0.contains("dataset") || fs[k].0.contains("annotationset") { "dataset" } else { "resource" };
                let main = fs.iter().find(|f| f.0 == "x.store.stam.csv").map(|f| f.1.clone()).unwrap_or_default();
                cases.push(Case { format: "csv", class: format!("csv/{}/{}", which, class), main, extra: fs.into_iter().filter(|f| f.0 != "x.store.stam.csv").collect() });
            }
        }
        std::fs::remove_dir_all(&sub).ok();
        // ---- CBOR
        let p = dir.join(format!("b{}.store.stam.cbor", i));
        if store.to_file(p.to_str().unwrap()).is_ok() {
            if let Ok(b) = std::fs::read(&p) {
                cases.push(Case { format: "cbor", class: "cbor/valid".into(), main: b.clone(), extra: expect_file.clone() });
                for (class, m) in structural_cbor(&b) { cases.push(Case { format: "cbor", class: format!("cbor/structure/{}", class), main: m, extra: vec![] }); }
                for _ in 0..per / 2 {
                    let (class, m) = mutate_bytes(&mut rng, &b);
                    cases.push(Case { format: "cbor", class: format!("cbor/{}", class), main: m, extra: vec![] });
                }
            }
        }
        std::fs::remove_file(&p).ok();
    }
    // ---- stores with sub-stores (loaded from a root document that @includes them), as CBOR
    for i in 0..4 {
        let sub = dir.join(format!("subs{}", i));
        let root = crate::fam::serial::write_substore_docs(&sub, i);
        if let Ok(Ok(mut st)) = guarded(std::panic::AssertUnwindSafe(|| AnnotationStore::from_file(root.to_str().unwrap(), Config::default()))) {
            let p = dir.join(format!("s{}.store.stam.cbor", i));
            st.set_filename(p.to_str().unwrap());
            if st.save().is_ok() {
                if let Ok(b) = std::fs::read(&p) {
                    cases.push(Case { format: "cbor", class: "cbor/valid/substores".into(), main: b.clone(), extra: vec![] });
                    for (class, m) in structural_cbor(&b) { cases.push(Case { format: "cbor", class: format!("cbor/structure/{}", class), main: m, extra: vec![] }); }
                    for _ in 0..per / 2 {
                        let (class, m) = mutate_bytes(&mut rng, &b);
                        cases.push(Case { format: "cbor", class: format!("cbor/{}", class), main: m, extra: vec![] });
                    }
                }
            }
            std::fs::remove_file(&p).ok();
        }
        std::fs::remove_dir_all(&sub).ok();
    }
    // hand-written hostile documents (references to empty slots, to themselves, to later items; empty structures)
    let res = "{\"@type\": \"TextResource\", \"@id\": \"r\", \"text\": \"hello world\"}";
    let tsel = "{\"@type\": \"TextSelector\", \"resource\": \"r\", \"offset\": {\"@type\": \"Offset\", \"begin\": {\"@type\": \"BeginAlignedCursor\", \"value\": 0}, \"end\": {\"@type\": \"BeginAlignedCursor\", \"value\": 5}}}";
    let set = |data: &str| format!("{{\"@type\": \"AnnotationDataSet\", \"@id\": \"s\", \"keys\": [{{\"@type\": \"DataKey\", \"@id\": \"k\"}}], \"data\": [{}]}}", data);
    let d = |id: &str| format!("{{\"@type\": \"AnnotationData\", \"@id\": \"{}\", \"key\": \"k\", \"value\": {{\"@type\": \"String\", \"value\": \"v\"}}}}", id);
    let dref = |id: &str| format!("{{\"@type\": \"AnnotationData\", \"@id\": \"{}\", \"set\": \"s\"}}", id);
    let dinline = |id: &str| format!("{{\"@type\": \"AnnotationData\", \"@id\": \"{}\", \"set\": \"s\", \"key\": \"k\", \"value\": {{\"@type\": \"String\", \"value\": \"w\"}}}}", id);
    let ann = |id: &str, target: &str, data: &str| format!("{{\"@type\": \"Annotation\", \"@id\": \"{}\", \"target\": {}, \"data\": [{}]}}", id, target, data);
    let store_doc = |sets: &str, anns: &str| format!("{{\"@type\": \"AnnotationStore\", \"annotationsets\": [{}], \"resources\": [{}], \"annotations\": [{}]}}", sets, res, anns);
    let asel = |id: &str| format!("{{\"@type\": \"AnnotationSelector\", \"annotation\": \"{}\"}}", id);
    let crafted: Vec<(&str, String)> = vec![
        ("temp-id-to-empty-slot/inline-data", store_doc(&set(&d("!D3")), &ann("a", tsel, &dinline("!D1")))),
        ("temp-id-to-empty-slot/data-reference", store_doc(&set(&d("!D3")), &ann("a", tsel, &dref("!D1")))),
        ("temp-id-to-empty-slot/annotation-reference", store_doc(&set(&d("d")), &format!("{}, {}", ann("!A3", tsel, &dref("d")), ann("b", &asel("!A1"), &dref("d"))))),
        ("temp-id-beyond-end/data-reference", store_doc(&set(&d("d")), &ann("a", tsel, &dref("!D9")))),
        ("temp-id-beyond-end/annotation-reference", store_doc(&set(&d("d")), &ann("a", &asel("!A9"), &dref("d")))),
        ("self-reference", store_doc(&set(&d("d")), &ann("a", &asel("a"), &dref("d")))),
        ("forward-reference", store_doc(&set(&d("d")), &format!("{}, {}", ann("a", &asel("b"), &dref("d")), ann("b", tsel, &dref("d"))))),
        ("temp-id-decreasing", store_doc(&set(&format!("{}, {}", d("!D3"), d("!D1"))), &ann("a", tsel, &dref("!D3")))),
        ("duplicate-ids", store_doc(&set(&format!("{}, {}", d("d"), d("d"))), &format!("{}, {}", ann("a", tsel, &dref("d")), ann("a", tsel, &dref("d"))))),
        ("empty-complex-selector", store_doc(&set(&d("d")), &ann("a", "{\"@type\": \"MultiSelector\", \"selectors\": []}", &dref("d")))),
        ("nested-complex-selector", store_doc(&set(&d("d")), &ann("a", &format!("{{\"@type\": \"MultiSelector\", \"selectors\": [{{\"@type\": \"CompositeSelector\", \"selectors\": [{}]}}]}}", tsel), &dref("d")))),
        ("key-of-other-set", store_doc(&set(&d("d")), &ann("a", "{\"@type\": \"DataKeySelector\", \"set\": \"nope\", \"key\": \"k\"}", &dref("d")))),
        ("temp-key-id", store_doc(&set(&d("d")), &ann("a", "{\"@type\": \"DataKeySelector\", \"set\": \"s\", \"key\": \"!K7\"}", &dref("d")))),
        ("temp-resource-id", store_doc(&set(&d("d")), &ann("a", "{\"@type\": \"ResourceSelector\", \"resource\": \"!R5\"}", &dref("d")))),
        ("temp-set-id", store_doc(&set(&d("d")), &ann("a", "{\"@type\": \"DataSetSelector\", \"set\": \"!S5\"}", &dref("d")))),
    ];
    for (name, doc) in crafted {
        cases.push(Case { format: "json", class: format!("json/crafted/{}", name), main: doc.into_bytes(), extra: vec![] });
    }
    // documents that include other documents (stores in stores, data sets and resources in stand-off files): cycles,
    // self-inclusion, missing files; the main document is loaded through a path with a directory part, the includes are
    // relative names
    {
        let st = |id: &str, inc: &str, anns: &str| format!("{{\"@type\": \"AnnotationStore\", \"@id\": \"{}\", \"@include\": {}, \"resources\": [{{\"@type\": \"TextResource\", \"@id\": \"r-{}\", \"text\": \"hello world\"}}], \"annotationsets\": [], \"annotations\": [{}]}}", id, inc, id, anns);
        let a = |id: &str, res: &str| format!("{{\"@type\": \"Annotation\", \"@id\": \"{}\", \"target\": {{\"@type\": \"TextSelector\", \"resource\": \"{}\", \"offset\": {{\"@type\": \"Offset\", \"begin\": {{\"@type\": \"BeginAlignedCursor\", \"value\": 0}}, \"end\": {{\"@type\": \"BeginAlignedCursor\", \"value\": 5}}}}}}, \"data\": []}}", id, res);
        let multi: Vec<(&str, String, Vec<(&str, String)>)> = vec![
            ("include/store-cycle-b-c-b", st("a", "\"b.store.stam.json\"", &a("a1", "r-a")), vec![("b.store.stam.json", st("b", "\"c.store.stam.json\"", &a("b1", "r-b"))), ("c.store.stam.json", st("c", "\"b.store.stam.json\"", &a("c1", "r-c")))]),
            ("include/store-includes-itself", st("a", "\"x.store.stam.json\"", &a("a1", "r-a")), vec![]),
            ("include/store-mutual", st("a", "\"b.store.stam.json\"", &a("a1", "r-a")), vec![("b.store.stam.json", st("b", "\"x.store.stam.json\"", &a("b1", "r-b")))]),
            ("include/store-twice", st("a", "[\"b.store.stam.json\", \"b.store.stam.json\"]", &a("a1", "r-a")), vec![("b.store.stam.json", st("b", "[]", &a("b1", "r-b")))]),
            ("include/store-missing", st("a", "\"nope.store.stam.json\"", &a("a1", "r-a")), vec![]),
            ("include/store-chain-of-three", st("a", "\"b.store.stam.json\"", &a("a1", "r-a")), vec![("b.store.stam.json", st("b", "\"c.store.stam.json\"", &a("b1", "r-b"))), ("c.store.stam.json", st("c", "[]", &a("c1", "r-c")))]),
            ("include/dataset-includes-itself", format!("{{\"@type\": \"AnnotationStore\", \"resources\": [], \"annotationsets\": [{{\"@type\": \"AnnotationDataSet\", \"@id\": \"s\", \"@include\": \"s.dataset.stam.json\"}}], \"annotations\": []}}"), vec![("s.dataset.stam.json", "{\"@type\": \"AnnotationDataSet\", \"@id\": \"s\", \"@include\": \"s.dataset.stam.json\"}".to_string())]),
            ("include/resource-missing", format!("{{\"@type\": \"AnnotationStore\", \"resources\": [{{\"@type\": \"TextResource\", \"@id\": \"r\", \"@include\": \"nope.txt\"}}], \"annotationsets\": [], \"annotations\": []}}"), vec![]),
            ("include/resource-json-without-text", format!("{{\"@type\": \"AnnotationStore\", \"resources\": [{{\"@type\": \"TextResource\", \"@id\": \"r\", \"@include\": \"r.json\"}}], \"annotationsets\": [], \"annotations\": []}}"), vec![("r.json", "{\"@type\": \"TextResource\", \"@id\": \"r\"}".to_string())]),
            ("include/resource-json-includes-itself", format!("{{\"@type\": \"AnnotationStore\", \"resources\": [{{\"@type\": \"TextResource\", \"@id\": \"r\", \"@include\": \"r.json\"}}], \"annotationsets\": [], \"annotations\": []}}"), vec![("r.json", "{\"@type\": \"TextResource\", \"@id\": \"r\", \"@include\": \"r.json\"}".to_string())]),
            ("include/resource-is-directory", format!("{{\"@type\": \"AnnotationStore\", \"resources\": [{{\"@type\": \"TextResource\", \"@id\": \"r\", \"@include\": \".\"}}], \"annotationsets\": [], \"annotations\": []}}"), vec![]),
        ];
        for (name, doc, extra) in multi {
            cases.push(Case { format: "json", class: format!("json/crafted/{}", name), main: doc.into_bytes(), extra: extra.into_iter().map(|(n, b)| (n.to_string(), b.into_bytes())).collect() });
        }
        // include paths that are not a file next to the document: directories (the root has no parent), the empty path,
        // dot paths, a file URL, an absolute path to nothing — for stores, datasets and resources
        for (pi, path) in ["/", "//", "/.", "/..", "file:///", ".", "..", "./", "", " ", "/nonexistent-dir/x.store.stam.json", "/tmp", "sub/../x.store.stam.json", "\\u0000"].iter().enumerate() {
            cases.push(Case { format: "json", class: format!("json/crafted/include/path/store-{}", pi), main: st("a", &format!("\"{}\"", path), &a("a1", "r-a")).into_bytes(), extra: vec![] });
            cases.push(Case { format: "json", class: format!("json/crafted/include/path/dataset-{}", pi), main: format!("{{\"@type\": \"AnnotationStore\", \"resources\": [], \"annotationsets\": [{{\"@type\": \"AnnotationDataSet\", \"@id\": \"s\", \"@include\": \"{}\"}}], \"annotations\": []}}", path).into_bytes(), extra: vec![] });
            cases.push(Case { format: "json", class: format!("json/crafted/include/path/resource-{}", pi), main: format!("{{\"@type\": \"AnnotationStore\", \"resources\": [{{\"@type\": \"TextResource\", \"@id\": \"r\", \"@include\": \"{}\"}}], \"annotationsets\": [], \"annotations\": []}}", path).into_bytes(), extra: vec![] });
        }
    }
    // ---- STAM CSV of a small store with complex selectors over annotation selectors with offsets: every ';'-separated
    //      list of every such row loses its last / first element or has one element blanked (exhaustively)
    {
        let mut ex = crate::fam::store::Exec::new();
        for l in ["st addres r0 9", "st annot a0 T:r0:b0:b5", "st annot a1 T:r0:b2:b8", "st annot a2 C[AO:a0:b0:b2;AO:a1:b1:b3] s0/k0/s:v0/d0", "st annot a3 M[T:r0:b0:b1;AO:a1:b0:e-1;R:r0] s0/k0/s:v0/d0 s0/k1/i:1/d1", "st annot a4 X[T:r0:b1:b2;T:r0:b3:b4]", "st annot a5 M[K:s0:k0;T:r0:b0:b1]", "st annot a6 X[D:s0:d0;R:r0]", "st annot a7 C[S:s0;K:s0:k1]"] { ex.exec(l); }
        let sub = dir.join("csvcrafted");
        std::fs::create_dir_all(&sub).ok();
        let p = sub.join("x.store.stam.csv");
        let wrote = ex.store.to_file(p.to_str().unwrap());
        if std::env::var("VERIF_DEBUG").is_ok() { eprintln!("csv crafted: write {:?} into {}", wrote.as_ref().map_err(|e| format!("{}", e)), sub.display()); }
        if wrote.is_ok() {
            let mut files: Vec<(String, Vec<u8>)> = vec![];
            if let Ok(rd) = std::fs::read_dir(&sub) { for e in rd.flatten() { let n = e.file_name().to_string_lossy().to_string(); if let Ok(b) = std::fs::read(e.path()) { files.push((n, b)); } } }
            files.sort();
            if std::env::var("VERIF_DEBUG").is_ok() { eprintln!("csv crafted: files {:?}", files.iter().map(|f| f.0.clone()).collect::<Vec<_>>()); }
            if let Some(k) = files.iter().position(|f| f.0.contains(".annotations.")) {
                let doc = String::from_utf8_lossy(&files[k].1).to_string();
                let lines: Vec<String> = doc.lines().map(|s| s.to_string()).collect();
                for (ri, row) in lines.iter().enumerate().skip(1) {
                    let cells: Vec<String> = row.split(',').map(|s| s.to_string()).collect();
                    for (ci, cell) in cells.iter().enumerate() {
                        if !cell.contains(';') { continue; }
                        let items: Vec<String> = cell.split(';').map(|s| s.to_string()).collect();
                        let mut variants: Vec<(String, Vec<String>)> = vec![("last-dropped".into(), items[..items.len() - 1].to_vec()), ("first-dropped".into(), items[1..].to_vec())];
                        for b in 0..items.len() { let mut v = items.clone(); v[b] = String::new(); variants.push((format!("blanked{}", b), v)); }
                        variants.push(("emptied".into(), vec![]));
                        variants.push(("only-first".into(), items[..1].to_vec()));
                        for (what, v) in variants {
                            let mut c2 = cells.clone(); c2[ci] = v.join(";");
                            let mut l2 = lines.clone(); l2[ri] = c2.join(",");
                            let mut fs = files.clone(); fs[k].1 = l2.join("\n").into_bytes();
                            let main = fs.iter().find(|f| f.0 == "x.store.stam.csv").map(|f| f.1.clone()).unwrap_or_default();
                            cases.push(Case { format: "csv", class: format!("csv/crafted/list-element-{}/col{}", what, ci), main, extra: fs.into_iter().filter(|f| f.0 != "x.store.stam.csv").collect() });
                        }
                    }
                }
            }
        }
        std::fs::remove_dir_all(&sub).ok();
    }
    if std::env::var("VERIF_DEBUG").is_ok() { eprintln!("csv crafted: {} cases in all, {} crafted csv", cases.len(), cases.iter().filter(|c| c.class.starts_with("csv/crafted")).count()); }
    // run in batches
    let bs = 300;
    for (bi, chunk) in cases.chunks(bs).enumerate() {
        let results = run_batch(chunk, &dir, bi);
        for (c, (o, ms)) in chunk.iter().zip(results.iter()) {
            let key = format!("{}|{}", c.format, fnv(&String::from_utf8_lossy(&c.main)));
            rep.case(if o == "ok" { Some(&key) } else { None });
            let outcome = o.split(':').next().unwrap_or("?").to_string();
            rep.count(&format!("{}:{}", c.format, outcome));
            rep.count(&format!("class:{}", c.class.split('/').take(2).collect::<Vec<_>>().join("/")));
            let doc = || -> Vec<String> { let mut v = vec![format!("ut format={} class={}", c.format, c.class), format!("main-hex: {}", c.main.iter().map(|x| format!("{:02x}", x)).collect::<String>())]; for (n, b) in &c.extra { v.push(format!("file {} hex: {}", n, b.iter().map(|x| format!("{:02x}", x)).collect::<String>())); } v };
            if c.format == "cbor" && !c.class.starts_with("cbor/structure/") && !c.class.starts_with("cbor/valid") && (o.starts_with("loaded-store-panics") || o.starts_with("loaded-store-hang") || o.starts_with("loaded-store-abort") || o.starts_with("inconsistent")) {
                // one cause: the CBOR loader does not cross-check what it decodes
                rep.fail(if o.starts_with("loaded") { "panic" } else { "oracle" }, &format!("C19/cbor/corrupted-input-accepted/{}", if o.starts_with("loaded-store-panics") { "store-panics-on-use" } else if o.starts_with("loaded") { "store-hangs-or-aborts-on-use" } else { "store-inconsistent" }), doc(), "an error or a consistent store", o);
            } else if o.starts_with("loaded-store-hang") || o.starts_with("loaded-store-abort") {
                rep.fail("panic", &format!("C19/{}/loaded-store-{}/{}", c.format, if o.starts_with("loaded-store-hang") { "hangs" } else { "aborts" }, c.class.split('/').skip(1).collect::<Vec<_>>().join("/")), doc(), "a usable store or an error", o);
            } else if o.starts_with("panic") {
                let loc = o.split(':').nth(1).unwrap_or("?").to_string() + ":" + o.split(':').nth(2).unwrap_or("?");
                rep.fail("panic", &format!("C19/{}/load-panics/{}", c.format, loc), doc(), "Ok or Err", o);
            } else if o.starts_with("loaded-store-panics") {
                let loc = o.split(':').nth(1).unwrap_or("?").to_string() + ":" + o.split(':').nth(2).unwrap_or("?");
                rep.fail("panic", &format!("C19/{}/loaded-store-panics/{}", c.format, loc), doc(), "a usable store or an error", o);
            } else if o.starts_with("differs-from-what-was-annotated") {
                rep.fail("oracle", &format!("C19/{}/loaded-store-differs-from-what-was-annotated", c.format), doc(), "the text selections the annotations were created with", o);
            } else if o.starts_with("differs-from-document") {
                rep.fail("oracle", &format!("C19/{}/loaded-store-differs-from-document", c.format), doc(), "the text selections the document names", o);
            } else if o.starts_with("inconsistent") {
                rep.fail("oracle", &format!("C19/{}/loaded-store-{}", c.format, o.split('|').next().unwrap_or("").replace(':', "/")), doc(), "a consistent store or an error", o);
            } else if o.starts_with("abort") || o.starts_with("hang") {
                rep.fail("panic", &format!("C19/{}/{}/{}", c.format, o.split('(').next().unwrap_or("abort"), c.class.split('/').skip(1).collect::<Vec<_>>().join("/")), doc(), "Ok or Err", o);
            }
            // (a loaded store that cannot be written back, e.g. a member with an empty file name, is only counted:
            // the property asks for C01-C03 of what is loaded)
            if *ms > 5000 { rep.fail("oracle", &format!("C19/{}/slow/{}", c.format, c.class), doc(), "time proportional to the input", &format!("{} ms for {} bytes", ms, c.main.len())); }
        }
    }
    // a file merged into a store / a dataset that holds something already (`with_file`): JSON merges, CSV may be refused
    {
        let sub = dir.join("withfile");
        std::fs::create_dir_all(&sub).ok();
        let (st0, _) = base_store(opts.seed, 1);
        let csvp = sub.join("m.store.stam.csv"); let jsonp = sub.join("m.store.stam.json");
        let mut w = st0;
        let wrote_j = guarded(std::panic::AssertUnwindSafe(|| w.to_file(jsonp.to_str().unwrap())));
        let mut w2 = AnnotationStore::from_file(jsonp.to_str().unwrap(), Config::default()).ok();
        let wrote_c = w2.as_mut().map(|w2| guarded(std::panic::AssertUnwindSafe(|| w2.to_file(csvp.to_str().unwrap()))));
        if matches!(wrote_j, Ok(Ok(()))) {
            for (what, path, there) in [("json", &jsonp, true), ("csv", &csvp, matches!(wrote_c, Some(Ok(Ok(())))))] {
                if !there { continue; }
                rep.count(&format!("with_file:nonempty-store:{}", what));
                rep.case(Some(&format!("with_file nonempty-store {}", what)));
                let r = guarded(std::panic::AssertUnwindSafe(|| -> Result<usize, StamError> {
                    let st = AnnotationStore::default().with_id("other").with_resource(TextResourceBuilder::new().with_id("other-r").with_text("other text"))?;
                    Ok(st.with_file(path.to_str().unwrap())?.resources_len())
                }));
                if let Err(m) = r { rep.fail("panic", &format!("C19/{}/with_file-on-a-store-that-holds-something-panics", what), vec![format!("AnnotationStore (one resource) .with_file(<a valid {} store>)", what)], "Ok or Err", &m); }
            }
        }
        // a document whose annotations carry temporary identifiers (what the library writes for annotations without
        // a public identifier), merged into a store that holds annotations: what was there stays, what arrives is added
        for nnew in 1..4usize {
            for pre in 1..4usize {
                let doc = format!("{{\"@type\": \"AnnotationStore\", \"annotations\": [{}]}}", (0..nnew).map(|k| format!("{{\"@type\": \"Annotation\", \"@id\": \"!A{}\", \"target\": {{\"@type\": \"TextSelector\", \"resource\": \"r\", \"offset\": {{\"@type\": \"Offset\", \"begin\": {{\"@type\": \"BeginAlignedCursor\", \"value\": {}}}, \"end\": {{\"@type\": \"BeginAlignedCursor\", \"value\": 11}}}}}}, \"data\": [{{\"@type\": \"AnnotationData\", \"set\": \"s\", \"key\": \"k\", \"value\": {{\"@type\": \"String\", \"value\": \"merged{}\"}}}}]}}", k, k, k)).collect::<Vec<_>>().join(", "));
                let path = sub.join(format!("t{}_{}.store.stam.json", nnew, pre));
                std::fs::write(&path, &doc).ok();
                rep.count("with_file:temporary-ids-into-a-store-with-annotations");
                rep.case(Some(&format!("with_file temp-ids {} {}", nnew, pre)));
                let ctx = vec![format!("a store with resource r = 'hello world' and {} annotation(s) P0.. (r 0..k+1); merged into it with with_file(): {}", pre, doc)];
                let r = guarded(std::panic::AssertUnwindSafe(|| -> Result<Vec<String>, StamError> {
                    let mut st = AnnotationStore::default().with_id("first").with_resource(TextResourceBuilder::new().with_id("r").with_text("hello world"))?;
                    for k in 0..pre { st.annotate(AnnotationBuilder::new().with_id(format!("P{}", k)).with_target(SelectorBuilder::textselector("r", Offset::simple(0, k + 1))).with_data("s", "k", format!("own{}", k)))?; }
                    let st = st.with_file(path.to_str().unwrap())?;
                    let mut v: Vec<String> = st.annotations().map(|a| format!("{}:{}:{}", a.id().unwrap_or("~"), a.text_join("|"), a.data().map(|d| d.value().to_string()).collect::<Vec<_>>().join(","))).collect();
                    v.sort();
                    Ok(v)
                }));
                let mut want: Vec<String> = (0..pre).map(|k| format!("P{}:{}:own{}", k, &"hello world"[0..k + 1], k)).collect();
                want.extend((0..nnew).map(|k| format!("~:{}:merged{}", &"hello world"[k..11], k)));
                want.sort();
                match r {
                    Ok(Ok(got)) => if got != want { rep.fail("oracle", "C19/json/with_file/temporary-ids-into-a-store-with-annotations", ctx, &format!("{:?}", want), &format!("{:?}", got)); },
                    Ok(Err(_)) => rep.count("with_file:temporary-ids:refused"),
                    Err(m) => rep.fail("panic", "C19/json/with_file/temporary-ids-into-a-store-with-annotations/panic", ctx, "Ok or Err", &m),
                }
            }
        }
        // datasets
        let dj = sub.join("d.dataset.stam.json");
        std::fs::write(&dj, "{\"@type\": \"AnnotationDataSet\", \"@id\": \"d\", \"keys\": [{\"@type\": \"DataKey\", \"@id\": \"k\"}], \"data\": [{\"@type\": \"AnnotationData\", \"@id\": \"D1\", \"key\": \"k\", \"value\": {\"@type\": \"String\", \"value\": \"v\"}}]}").ok();
        let dc = sub.join("d.dataset.stam.csv");
        std::fs::write(&dc, "Id,Key,Value\nD1,k,v\n").ok();
        for (what, path) in [("json", &dj), ("csv", &dc)] {
            rep.count(&format!("with_file:nonempty-dataset:{}", what));
            rep.case(Some(&format!("with_file nonempty-dataset {}", what)));
            let r = guarded(std::panic::AssertUnwindSafe(|| -> Result<usize, StamError> {
                let mut ds = AnnotationDataSet::new(Config::default()).with_id("mine");
                ds.insert_data(BuildItem::None, "own", "x", true)?;
                Ok(ds.with_file(path.to_str().unwrap())?.keys_len())
            }));
            if let Err(m) = r { rep.fail("panic", &format!("C19/{}/with_file-on-a-dataset-that-holds-something-panics", what), vec![format!("AnnotationDataSet (one key) .with_file(<a valid {} dataset>)", what)], "Ok or Err", &m); }
        }
    }
    // more items of a kind than its handles can number (keys and datasets: 16 bits): refused, or kept apart
    {
        let n = 65537usize;
        let keys_doc = format!("{{\"@type\": \"AnnotationStore\", \"resources\": [], \"annotationsets\": [{{\"@type\": \"AnnotationDataSet\", \"@id\": \"s\", \"keys\": [{}], \"data\": []}}], \"annotations\": []}}", (0..n).map(|i| format!("{{\"@type\": \"DataKey\", \"@id\": \"k{}\"}}", i)).collect::<Vec<_>>().join(","));
        let sets_doc = format!("{{\"@type\": \"AnnotationStore\", \"resources\": [], \"annotationsets\": [{}], \"annotations\": []}}", (0..n).map(|i| format!("{{\"@type\": \"AnnotationDataSet\", \"@id\": \"s{}\", \"keys\": [{{\"@type\": \"DataKey\", \"@id\": \"k\"}}], \"data\": []}}", i)).collect::<Vec<_>>().join(","));
        for (what, doc) in [("keys", keys_doc), ("datasets", sets_doc)] {
            rep.count(&format!("json:more-{}-than-handles", what));
            rep.case(Some(&format!("more-{}-than-handles", what)));
            let ctx = vec![format!("a store document with {} {} (handles of that kind are 16 bits wide)", n, what)];
            let r = guarded(std::panic::AssertUnwindSafe(|| -> Result<Option<String>, StamError> {
                let st = AnnotationStore::from_str(&doc, Config::default())?;
                // the first and the last item are two items, each found under its own identifier
                if what == "keys" {
                    let ds = st.dataset("s").expect("dataset");
                    let (a, b) = (ds.key("k0"), ds.key("k65536"));
                    Ok(match (a, b) { (Some(a), Some(b)) if a.handle() != b.handle() && a.id() == Some("k0") && b.id() == Some("k65536") => None, (a, b) => Some(format!("k0 -> {:?}, k65536 -> {:?}; {} keys", a.map(|k| (k.handle().as_usize(), k.id().map(|x| x.to_string()))), b.map(|k| (k.handle().as_usize(), k.id().map(|x| x.to_string()))), ds.keys().count())) })
                } else {
                    let (a, b) = (st.dataset("s0"), st.dataset("s65536"));
                    Ok(match (a, b) { (Some(a), Some(b)) if a.handle() != b.handle() && a.id() == Some("s0") && b.id() == Some("s65536") => None, (a, b) => Some(format!("s0 -> {:?}, s65536 -> {:?}; {} datasets", a.map(|k| (k.handle().as_usize(), k.id().map(|x| x.to_string()))), b.map(|k| (k.handle().as_usize(), k.id().map(|x| x.to_string()))), st.datasets().count())) })
                }
            }));
            match r {
                Ok(Ok(None)) | Ok(Err(_)) => {}
                Ok(Ok(Some(m))) => rep.fail("oracle", &format!("C19/json/more-{}-than-handles/identifiers-collide", what), ctx, "an error, or every item found under its own identifier", &m),
                Err(m) => rep.fail("panic", &format!("C19/json/more-{}-than-handles/panic", what), ctx, "Ok or Err", &m),
            }
        }
    }
    std::fs::remove_dir_all(&dir).ok();
    parsers_stream(&mut rep, &mut rng, if opts.thorough() { 3000 } else { 400 });
    tempid_stream(&mut rep, &mut rng, if opts.thorough() { 3000 } else { 400 });
    rep.sample(json!({"cases": cases.len()}));
    rep
}

/// replay: the case's documents are in the replay file
pub fn replay(lines: &[String]) {
    let head = match lines.iter().find(|l| l.starts_with("ut format=")) { Some(h) => h, None => return };
    let format = match head.split("format=").nth(1).and_then(|x| x.split_whitespace().next()) { Some("csv") => "csv", Some("cbor") => "cbor", _ => "json" };
    let main = lines.iter().find_map(|l| l.strip_prefix("main-hex: ")).map(unhexb).unwrap_or_default();
    let extra: Vec<(String, Vec<u8>)> = lines.iter().filter_map(|l| l.strip_prefix("file ")).filter_map(|l| l.split_once(" hex: ").map(|(n, h)| (n.to_string(), unhexb(h)))).collect();
    let dir = scratch_dir("r");
    let case = Case { format, class: "replay".into(), main, extra };
    println!("  outcome: {}", load_case(&dir, &case));
    // details of an inconsistency
    let ps = dir.join("case").join(match case.format { "json" => "x.store.stam.json", "csv" => "x.store.stam.csv", _ => "x.store.stam.cbor" });
    if let Ok(Ok(store)) = guarded(std::panic::AssertUnwindSafe(|| AnnotationStore::from_file(ps.to_str().unwrap(), Config::default()))) {
        if let Ok(c) = guarded(std::panic::AssertUnwindSafe(|| consistency(&store))) { for (sig, detail) in c { println!("  {}: {}", sig, detail.chars().take(300).collect::<String>()); } }
    }
    std::fs::remove_dir_all(&dir).ok();
}

// ---------------------------------------------------------------------------------------------
// temporary identifiers vs. the Lean model
// ---------------------------------------------------------------------------------------------

pub fn exec_line(line: &str) -> String {
    let t: Vec<&str> = line.split_whitespace().collect();
    match t.as_slice() {
        ["tid", "resolve", h] => match guarded(std::panic::AssertUnwindSafe(|| stam::verif_resolve_temp_id(&crate::fam::store::unhex_s(h)))) { Ok(Some(n)) => n.to_string(), Ok(None) => "none".into(), Err(m) => format!("panic:{}", m) },
        ["tid", "load", items] => {
            // a document with one annotation per item: '-' = no identifier, n = temporary identifier !A<n>
            let anns: Vec<String> = if *items == "_" { vec![] } else { items.split(',').map(|it| {
                let id = if it == "-" { String::new() } else { format!("\"@id\": \"!A{}\", ", it) };
                format!("{{\"@type\": \"Annotation\", {}\"target\": {{\"@type\": \"ResourceSelector\", \"resource\": \"r\"}}, \"data\": []}}", id)
            }).collect() };
            let doc = format!("{{\"@type\": \"AnnotationStore\", \"resources\": [{{\"@type\": \"TextResource\", \"@id\": \"r\", \"text\": \"hello\"}}], \"annotations\": [{}]}}", anns.join(", "));
            match guarded(std::panic::AssertUnwindSafe(|| AnnotationStore::from_str(&doc, Config::default()))) {
                Ok(Ok(store)) => { let (a, _, _) = store.verif_dump_slots(); let live: Vec<String> = a.iter().enumerate().filter(|(_, l)| **l).map(|(i, _)| i.to_string()).collect(); format!("ok {}", if live.is_empty() { "-".to_string() } else { live.join(",") }) }
                Ok(Err(_)) => "err".into(),
                Err(m) => format!("panic:{}", m.chars().take(60).collect::<String>()),
            }
        }
        ["tid", "merge", pre, items] => {
            // a store that holds `pre` annotations (with public identifiers); a document with one annotation per item merged into it
            let pre: usize = pre.parse().unwrap_or(0);
            let anns: Vec<String> = if *items == "_" { vec![] } else { items.split(',').map(|it| {
                let id = if it == "-" { String::new() } else { format!("\"@id\": \"!A{}\", ", it) };
                format!("{{\"@type\": \"Annotation\", {}\"target\": {{\"@type\": \"ResourceSelector\", \"resource\": \"r\"}}, \"data\": []}}", id)
            }).collect() };
            let doc = format!("{{\"@type\": \"AnnotationStore\", \"annotations\": [{}]}}", anns.join(", "));
            let r = guarded(std::panic::AssertUnwindSafe(|| -> Result<String, StamError> {
                let mut store = AnnotationStore::default().with_resource(TextResourceBuilder::new().with_id("r").with_text("hello"))?;
                for k in 0..pre { store.annotate(AnnotationBuilder::new().with_id(format!("P{}", k)).with_target(SelectorBuilder::resourceselector("r")))?; }
                store.merge_json_str(&doc)?;
                // what was there is still there, under its identifier
                for k in 0..pre { if store.annotation(format!("P{}", k).as_str()).map(|a| a.handle().as_usize()) != Some(k) { return Ok(format!("lost P{}", k)); } }
                let (a, _, _) = store.verif_dump_slots();
                let live: Vec<String> = a.iter().enumerate().filter(|(_, l)| **l).map(|(i, _)| i.to_string()).collect();
                Ok(format!("ok {}", if live.is_empty() { "-".to_string() } else { live.join(",") }))
            }));
            match r { Ok(Ok(s)) => s, Ok(Err(_)) => "err".into(), Err(m) => format!("panic:{}", m.chars().take(60).collect::<String>()) }
        }
        _ => "bad-op".into(),
    }
}

pub fn tempid_stream(rep: &mut Report, rng: &mut Rng, n: usize) {
    for i in 0..n {
        let k = rng.below(7);
        let mut next = 0usize;
        let items: Vec<String> = (0..k).map(|_| match rng.below(10) {
            0..=3 => { next += 1; "-".to_string() }
            4..=6 => { next += rng.below(4); let h = next; next += 1; h.to_string() }                 // increasing, with gaps
            7 => { let h = next.saturating_sub(1 + rng.below(3)); h.to_string() }                        // not increasing: must be refused
            8 => { next += 1000 + rng.below(100000); let h = next; next += 1; h.to_string() }          // a large but harmless gap
            _ => (*rng.pick(&["4611686018427387904", "9223372036854775807", "18446744073709551615"])).to_string(), // never allocatable
        }).collect();
        let line = format!("tid load {}", if items.is_empty() { "_".to_string() } else { items.join(",") });
        let a = exec_line(&line);
        rep.count("tid:load");
        if i % 50 == 0 { rep.sample(json!({"line": line, "implementation": a})); }
        rep.case(Some(&line));
        rep.model_case(vec![line], vec![a], "temp-id-load");
    }
    // the same documents merged into a store that holds annotations already
    // first the fixed corpus: temporary identifiers at the edge of the machine word (the bound `handle + pre` must not overflow)
    for line in ["tid merge 1 18446744073709551615", "tid merge 2 18446744073709551614", "tid merge 3 0,18446744073709551615",
                 "tid merge 4 -,18446744073709551612", "tid merge 1 9223372036854775807", "tid merge 2 -,-,18446744073709551615"] {
        let a = exec_line(line);
        rep.count(&format!("tid:merge-edge:{}", a.split(' ').next().unwrap_or("?")));
        rep.case(Some(line));
        if a.starts_with("lost") { rep.fail("oracle", "C19/json/merge/annotation-that-was-there-is-gone", vec![line.to_string()], "what was in the store stays", &a); }
        if a.starts_with("panic") { rep.fail("panic", "C19/json/merge/temporary-identifier-at-the-edge-of-the-word", vec![line.to_string()], "an error, not a panic", &a); }
        rep.model_case(vec![line.to_string()], vec![a], "temp-id-merge");
    }
    for i in 0..n {
        let pre = 1 + rng.below(4);
        let k = 1 + rng.below(5);
        let mut next = 0usize;
        let items: Vec<String> = (0..k).map(|_| match rng.below(10) {
            0..=2 => { next += 1; "-".to_string() }
            3..=6 => { next += rng.below(3); let h = next; next += 1; h.to_string() }                  // what a store writes: increasing from 0, with gaps
            7 => { let h = next.saturating_sub(1 + rng.below(3)); h.to_string() }
            8 => { next += pre + rng.below(6); let h = next; next += 1; h.to_string() }                  // beyond what is there
            _ => if rng.below(3) == 0 { (*rng.pick(&["18446744073709551615", "18446744073709551614", "9223372036854775808"])).to_string() }   // never allocatable; `handle + pre` beyond the word
                 else { next += 1000 + rng.below(1000); let h = next; next += 1; h.to_string() }
        }).collect();
        let line = format!("tid merge {} {}", pre, items.join(","));
        let a = exec_line(&line);
        rep.count(&format!("tid:merge:{}", a.split(' ').next().unwrap_or("?")));
        if i % 50 == 0 { rep.sample(json!({"line": line, "implementation": a})); }
        rep.case(Some(&line));
        if a.starts_with("lost") { rep.fail("oracle", "C19/json/merge/annotation-that-was-there-is-gone", vec![line.clone()], "what was in the store stays", &a); }
        rep.model_case(vec![line], vec![a], "temp-id-merge");
    }
    for s in ["!A0", "!A42", "!D7", "!A", "!", "A1", "!a1", "!A-1", "!A+5", "!A 1", "!A1x", "!\u{c9}3", "!\u{e9}3", "!AA", "!A007", "", "!!1", "!Z99999"] {
        let line = format!("tid resolve {}", hex(s));
        let a = exec_line(&line);
        rep.count("tid:resolve");
        rep.model_case(vec![line], vec![a], "temp-id-resolve");
    }
}
/// diagnostic: write a small store with a composite of annotation selectors with offsets as STAM CSV into `dir`
pub fn csv_sample(dir: &str) {
    let mut ex = crate::fam::store::Exec::new();
    for l in ["st addres r0 9", "st annot a0 T:r0:b0:b5", "st annot a1 T:r0:b2:b8", "st annot a2 C[AO:a0:b0:b2;AO:a1:b1:b3] s0/k0/s:v0/d0", "st annot a5 M[K:s0:k0;T:r0:b0:b1]", "st annot a6 X[D:s0:d0;R:r0]", "st annot a7 C[S:s0;K:s0:k0]"] { println!("{} -> {}", l, ex.exec(l)); }
    std::fs::create_dir_all(dir).ok();
    let p = format!("{}/x.store.stam.csv", dir);
    println!("{:?}", ex.store.to_file(&p).map_err(|e| format!("{}", e)));
}

pub fn debug_load(path: &str) { println!("{:?}", AnnotationStore::from_file(path, Config::default()).map(|s| s.annotations_len()).map_err(|e| format!("{}", e))); }
