//! C10: crafted cases taken over from a sub-agent's hunt for violations (hunt/C10-hunt3.rs, helpers and assertions as written);
//! `run_all` runs them on the implementation: a failed assertion is a concrete failing input.
#![allow(dead_code, unused_imports, unused_variables, unused_mut)]
use crate::common::*;
// Violations of the property
//   "Annotation data is a deduplicated vocabulary and data search equals a scan"
// Every test in this file FAILS on the current code and would pass on a correct implementation.

use stam::*;

/// number of data items WITHOUT a public identifier that carry this key and this value
fn count_idless(set: &AnnotationDataSet, key: &str, value: &DataValue) -> usize {
    let key = set.key(key).expect("key must exist").handle().unwrap();
    set.data()
        .filter(|d| d.id().is_none() && d.key() == key && d.value() == value)
        .count()
}

/// VIOLATION 1: a dataset read from STAM JSON is not deduplicated.
///
/// Two data items without "@id" and with the same key and value become two data items
/// (and `find_data` then answers two items for one vocabulary entry, while annotations built
/// later with this key and value are all attached to the first one only).
///
/// Cause: src/annotationdataset.rs, `DataVisitor::visit_seq` calls
/// `build_insert_data(databuilder, false)` ("safety disabled, data duplicates allowed at this
/// stage"), which switches off the `data_by_value` check of `AnnotationDataSet::insert_data`.
pub fn json_dataset_with_repeated_idless_data_is_deduplicated() {
    let json = r#"{
        "@type": "AnnotationDataSet",
        "@id": "set",
        "keys": [ {"@type": "DataKey", "@id": "k"} ],
        "data": [
            {"@type": "AnnotationData", "key": "k", "value": {"@type": "String", "value": "v"}},
            {"@type": "AnnotationData", "key": "k", "value": {"@type": "String", "value": "v"}}
        ]
    }"#;
    let set = AnnotationDataSet::from_json_str(json, Config::default()).unwrap();
    assert_eq!(
        count_idless(&set, "k", &"v".into()),
        1,
        "the same key and value without identifier must be one data item"
    );
}

/// VIOLATION 1b (same cause, the everyday form of it): merging the JSON of a dataset into that
/// very dataset (`AnnotationDataSet::merge_json_str`, also `with_file()` and "@include") doubles
/// all its data without identifier.
///
/// Cause: as above, src/annotationdataset.rs `DataVisitor::visit_seq` inserts with safety off,
/// straight into the dataset that already holds the same key and value.
pub fn merging_dataset_json_into_the_dataset_does_not_duplicate_idless_data() {
    let mut set = AnnotationDataSet::new(Config::default()).with_id("set");
    set.insert_data(BuildItem::None, "k", "v", true).unwrap();
    set.insert_data(BuildItem::None, "k", "w", true).unwrap();
    let json = set.to_json_string().unwrap();
    set.merge_json_str(&json).unwrap();
    assert_eq!(count_idless(&set, "k", &"v".into()), 1);
    assert_eq!(count_idless(&set, "k", &"w".into()), 1);
    assert_eq!(set.data().count(), 2);
}

/// VIOLATION 2: a dataset read from STAM CSV is not deduplicated either.
///
/// Cause: src/csv.rs, `impl FromCsv for AnnotationDataSet`, `from_csv_reader` calls
/// `dataset.build_insert_data(builder, false)` ("safety is off for faster parsing").
pub fn csv_dataset_with_repeated_idless_rows_is_deduplicated() {
    let dir_owned = format!("{}/target/hunt-h3c10", env!("CARGO_MANIFEST_DIR"));
    let dir = dir_owned.as_str();
    std::fs::create_dir_all(dir).unwrap();
    let path = format!("{}/dup.dataset.stam.csv", dir);
    std::fs::write(&path, "Id,Key,Value\n,k,v\n,k,v\n").unwrap();
    let set = AnnotationDataSet::from_file(&path, Config::default()).unwrap();
    assert_eq!(
        count_idless(&set, "k", &"v".into()),
        1,
        "the same key and value without identifier must be one data item"
    );
}

/// VIOLATION 3: after merging a second store (as written by the library itself) into a first
/// one, the annotations of the second store refer to OTHER data items than they were built with.
///
/// Store A: dataset "set" holds, without identifiers, (k,"x") at handle 0 and (k,"v") at handle 1.
/// Store B: dataset "set" holds, without identifiers, (k,"v") at handle 0 and (k,"new") at handle 1;
///          annotation B1 is built with (k,"v"), annotation B2 with (k,"new").
/// B is serialised with `to_json_string` (data without identifier is written and referenced
/// by its temporary id "!D0", "!D1") and merged into A with `merge_json_str`.
/// Afterwards B1 carries (k,"x") and B2 carries (k,"v"): neither refers to the one item
/// with its key and value.
///
/// Cause: src/annotationdataset.rs, `AnnotationDataSet::merge` (Storable impl): the data of the
/// other set are skipped (when shared) or appended under new handles, but no record is kept of
/// where each item of the other set went. The annotations of the merged file name their data by
/// temporary id, i.e. by the handle the item had in the OTHER set, and
/// `AnnotationStore::insert_data` -> `AnnotationDataSet::insert_data` (`self.get(&id)`,
/// src/store.rs `resolve_id`) resolves that number against the merged set.
pub fn annotations_of_a_merged_store_keep_their_data() {
    let text = "Hello world";
    let mut a = AnnotationStore::default()
        .with_id("A")
        .with_resource(TextResourceBuilder::new().with_id("r").with_text(text))
        .unwrap()
        .with_annotation(
            AnnotationBuilder::new()
                .with_id("A1")
                .with_target(SelectorBuilder::textselector("r", Offset::simple(0, 5)))
                .with_data("set", "k", "x"),
        )
        .unwrap()
        .with_annotation(
            AnnotationBuilder::new()
                .with_id("A2")
                .with_target(SelectorBuilder::textselector("r", Offset::simple(0, 5)))
                .with_data("set", "k", "v"),
        )
        .unwrap();
    let b = AnnotationStore::default()
        .with_id("B")
        .with_resource(TextResourceBuilder::new().with_id("r").with_text(text))
        .unwrap()
        .with_annotation(
            AnnotationBuilder::new()
                .with_id("B1")
                .with_target(SelectorBuilder::textselector("r", Offset::simple(6, 11)))
                .with_data("set", "k", "v"),
        )
        .unwrap()
        .with_annotation(
            AnnotationBuilder::new()
                .with_id("B2")
                .with_target(SelectorBuilder::textselector("r", Offset::simple(6, 11)))
                .with_data("set", "k", "new"),
        )
        .unwrap();
    let json_b = b.to_json_string(&Config::default()).unwrap();
    a.merge_json_str(&json_b).unwrap();

    let values = |id: &str| -> Vec<DataValue> {
        a.annotation(id)
            .expect("annotation must exist")
            .data()
            .map(|d| d.value().clone())
            .collect()
    };
    //(store A itself is untouched)
    assert_eq!(values("A1"), vec![DataValue::from("x")]);
    assert_eq!(values("A2"), vec![DataValue::from("v")]);
    //the annotations that came from B still say what they said in B
    assert_eq!(values("B1"), vec![DataValue::from("v")], "B1 was built with k=v");
    assert_eq!(values("B2"), vec![DataValue::from("new")], "B2 was built with k=new");
    //and the shared vocabulary entry is shared: A2 and B1 refer to one and the same item
    let set = a.dataset("set").unwrap();
    let v: Vec<_> = set.find_data("k", DataOperator::Equals("v".into())).collect();
    assert_eq!(v.len(), 1);
    let users: Vec<_> = v[0].annotations().map(|x| x.id().unwrap().to_string()).collect();
    assert_eq!(users, vec!["A2".to_string(), "B1".to_string()]);
}

/// VIOLATION 4: data added without a public identifier is not shared when the `id` argument is
/// a handle (or reference) that does not resolve, e.g. the handle of an item that was removed.
///
/// `insert_data(Handle(99), "k", "v")` creates a second item (k,"v") without identifier.
///
/// Cause: src/annotationdataset.rs, `AnnotationDataSet::insert_data`: the check for an existing
/// key and value is guarded by `id.is_none()`, which is false for `BuildItem::Handle` /
/// `BuildItem::Ref`, although such an id gives the new item no public identifier
/// (`id.to_string()` is `None` for them), so the item is added "without an explicit identifier".
pub fn stale_handle_as_id_does_not_bypass_sharing() {
    let mut set = AnnotationDataSet::new(Config::default()).with_id("set");
    let first = set.insert_data(BuildItem::None, "k", "v", true).unwrap();
    let second = set
        .insert_data(
            BuildItem::from(AnnotationDataHandle::new(99)),
            "k",
            "v",
            true,
        )
        .unwrap();
    assert_eq!(first, second, "the same key and value is the one item");
    assert_eq!(count_idless(&set, "k", &"v".into()), 1);
}

/// VIOLATION 5: the float value NaN is never shared: every insertion of (k, NaN) without
/// identifier makes a new data item, and every annotation built with it gets an item of its own.
///
/// Cause: src/annotationdataset.rs, `AnnotationDataSet::data_by_value` compares with
/// `data.value() == value`, the derived `PartialEq` of `DataValue` (src/datavalue.rs), under
/// which `Float(NaN)` is not equal to itself (also inside a `List`).
pub fn nan_value_is_shared() {
    let mut set = AnnotationDataSet::new(Config::default()).with_id("set");
    let first = set
        .insert_data(BuildItem::None, "k", f64::NAN, true)
        .unwrap();
    let second = set
        .insert_data(BuildItem::None, "k", f64::NAN, true)
        .unwrap();
    assert_eq!(first, second, "the same key and value is the one item");
    assert_eq!(set.data().count(), 1);
}

/// VIOLATION 6: looking up data by a key of ANOTHER dataset answers the data of an unrelated key.
///
/// set1 has key "a" (handle 0), set2 has key "b" (handle 0) with data (b, 1). Asking set2 for
/// the data with key `a` (a `ResultItem<DataKey>` of set1) answers (b, 1); a scan of set2 for
/// items that carry key "a" of set1 selects nothing. The same holds for
/// `store.find_data("set2", key_a, ..)`, `ResultItem<DataKey>::test` and
/// `ResultItem<AnnotationData>::test`.
///
/// Cause: src/store.rs, `impl Request<T> for ResultItem<'a, T>` / `&ResultItem`: `to_handle`
/// answers the bare handle of the item and ignores the store it is asked about, so in
/// src/api/annotationdataset.rs `find_data` -> `self.key(key)` the handle is looked up in the
/// wrong dataset.
pub fn key_of_another_dataset_finds_nothing() {
    let store = AnnotationStore::default()
        .with_id("s")
        .with_dataset(
            AnnotationDataSetBuilder::new()
                .with_id("set1")
                .with_key_value("a", "x"),
        )
        .unwrap()
        .with_dataset(
            AnnotationDataSetBuilder::new()
                .with_id("set2")
                .with_key_value("b", 1),
        )
        .unwrap();
    let key_a = store.key("set1", "a").unwrap();
    let set2 = store.dataset("set2").unwrap();
    let scan: Vec<_> = set2
        .data()
        .filter(|d| d.key() == key_a) //(compares dataset and key)
        .map(|d| d.handle())
        .collect();
    assert!(scan.is_empty());
    let found: Vec<_> = set2
        .find_data(key_a.clone(), DataOperator::Any)
        .map(|d| d.handle())
        .collect();
    assert_eq!(found, scan, "no data of set2 carries a key of set1");
}


pub fn run_all(rep: &mut Report) {
    let mut cases: Vec<(&str, Box<dyn Fn() -> Result<(), String>>)> = vec![];
    cases.push(("json-dataset-with-repeated-idless-data-is-deduplicated", Box::new(|| { json_dataset_with_repeated_idless_data_is_deduplicated(); Ok(()) })));
    cases.push(("merging-dataset-json-into-the-dataset-does-not-duplicate-idless-data", Box::new(|| { merging_dataset_json_into_the_dataset_does_not_duplicate_idless_data(); Ok(()) })));
    cases.push(("csv-dataset-with-repeated-idless-rows-is-deduplicated", Box::new(|| { csv_dataset_with_repeated_idless_rows_is_deduplicated(); Ok(()) })));
    cases.push(("annotations-of-a-merged-store-keep-their-data", Box::new(|| { annotations_of_a_merged_store_keep_their_data(); Ok(()) })));
    cases.push(("stale-handle-as-id-does-not-bypass-sharing", Box::new(|| { stale_handle_as_id_does_not_bypass_sharing(); Ok(()) })));
    cases.push(("nan-value-is-shared", Box::new(|| { nan_value_is_shared(); Ok(()) })));
    cases.push(("key-of-another-dataset-finds-nothing", Box::new(|| { key_of_another_dataset_finds_nothing(); Ok(()) })));
    for (name, f) in cases {
        rep.count("crafted-cases-from-the-hunts");
        rep.case(Some(&format!("crafted {}", name)));
        let what = vec![format!("the case `{}` of hunt/C10-hunt3.rs", name.replace('-', "_"))];
        match guarded(std::panic::AssertUnwindSafe(|| f())) {
            Ok(Ok(())) => {}
            Ok(Err(e)) => rep.fail("oracle", &format!("C10/crafted/{}", name), what, "what the property requires (see the assertions of the case)", &e),
            Err(m) => rep.fail("oracle", &format!("C10/crafted/{}", name), what, "what the property requires (see the assertions of the case)", &m.chars().take(300).collect::<String>()),
        }
    }
}
