//! C08 (query results equal the meaning of their constraints, however evaluated).
//!
//!  * helper collections: `Handles::union / intersection / contains / position` against set semantics, and
//!    `LimitIterator::limit` against slice semantics (also compared with the Lean model: `hs` / `lim` lines);
//!  * queries over stores reached by operation histories: the result set does not depend on the order of the
//!    constraints; a conjunction equals the intersection of its members' results (each member evaluated as the
//!    primary, index-driven constraint); a disjunction equals the union without duplicates; LIMIT equals the slice
//!    of the unlimited results; a sub-query equals nested iteration; the parsed text, the programmatically built
//!    query and the iterator API agree; ADD / DELETE change the store as the direct calls do.
use crate::common::*;
use crate::fam::store::{observe, Exec, Gen};
use serde_json::json;
use stam::*;
use std::collections::BTreeSet;

fn list_s(v: &[usize]) -> String { if v.is_empty() { "-".into() } else { v.iter().map(|x| x.to_string()).collect::<Vec<_>>().join(",") } }
fn parse_list(s: &str) -> Vec<usize> { if s == "-" { vec![] } else { s.split(',').filter_map(|x| x.parse().ok()).collect() } }

fn mk<'a>(store: &'a AnnotationStore, v: &[usize], declare_sorted: Option<bool>) -> Handles<'a, Annotation> {
    let hs: Vec<AnnotationHandle> = v.iter().map(|x| AnnotationHandle::new(*x)).collect();
    match declare_sorted { None => Handles::from_iter(hs.into_iter(), store), Some(s) => Handles::new(std::borrow::Cow::Owned(hs), s, store) }
}

/// `hs union|inter a b` / `hs contains|position a x`: lists are comma separated handles; the sorted flag is the one
/// `Handles::from_iter` computes
pub fn exec_line(store: &AnnotationStore, line: &str) -> String {
    let t: Vec<&str> = line.split_whitespace().collect();
    match t.as_slice() {
        ["hs", op, a, b] => {
            let (av, bv) = (parse_list(a), parse_list(b));
            let r = guarded(std::panic::AssertUnwindSafe(|| {
                let mut ha = mk(store, &av, None);
                match *op {
                    "union" => { let hb = mk(store, &bv, None); ha.union(&hb); format!("{} s={}", list_s(&ha.iter().map(|h| h.as_usize()).collect::<Vec<_>>()), ha.returns_sorted() as u8) }
                    "inter" => { let hb = mk(store, &bv, None); ha.intersection(&hb); format!("{} s={}", list_s(&ha.iter().map(|h| h.as_usize()).collect::<Vec<_>>()), ha.returns_sorted() as u8) }
                    "contains" => format!("{}", ha.contains(&AnnotationHandle::new(bv.first().copied().unwrap_or(0)))),
                    "position" => match ha.position(&AnnotationHandle::new(bv.first().copied().unwrap_or(0))) { Some(p) => p.to_string(), None => "none".into() },
                    _ => "bad-op".into(),
                }
            }));
            r.unwrap_or_else(|m| format!("panic:{}", m.chars().take(60).collect::<String>()))
        }
        ["lim", b, e, n] => {
            let (b, e, n): (isize, isize, usize) = (b.parse().unwrap_or(0), e.parse().unwrap_or(0), n.parse().unwrap_or(0));
            match guarded(std::panic::AssertUnwindSafe(|| (0..n).limit(b, e).collect::<Vec<usize>>())) { Ok(v) => list_s(&v), Err(m) => format!("panic:{}", m.chars().take(60).collect::<String>()) }
        }
        _ => "bad-op".into(),
    }
}

/// `items[b..e]` with the documented meaning: negative numbers are relative to the end, end = 0 means until the end
fn slice_oracle(n: usize, b: isize, e: isize) -> Vec<usize> {
    let n = n as isize;
    let lo = if b >= 0 { b.min(n) } else { (n + b).max(0) };
    let hi = if e > 0 { e.min(n) } else { (n + e).max(0) };
    if lo >= hi { vec![] } else { (lo as usize..hi as usize).collect() }
}

fn gen_list(rng: &mut Rng, sorted: bool, dups: bool) -> Vec<usize> {
    let n = rng.below(7);
    let mut v: Vec<usize> = (0..n).map(|_| rng.below(12)).collect();
    if !dups { let mut seen = BTreeSet::new(); v.retain(|x| seen.insert(*x)); }
    if sorted { v.sort(); }
    v
}

pub fn collections_stream(rep: &mut Report, rng: &mut Rng, n: usize) {
    let store = new_store();
    for i in 0..n {
        let (sa, sb) = (rng.chance(70), rng.chance(70));
        let a = gen_list(rng, sa, false);
        let b = gen_list(rng, sb, false);
        for op in ["union", "inter"] {
            let line = format!("hs {} {} {}", op, list_s(&a), list_s(&b));
            let got = exec_line(&store, &line);
            let cls = format!("{}{}", if sa { "sorted" } else { "unsorted" }, if sb { "+sorted" } else { "+unsorted" });
            rep.count(&format!("hs:{}:{}", op, cls));
            rep.case(Some(&line));
            // set semantics: membership, no duplicates, order of the left operand retained (when nothing forces a re-sort)
            let got_list = parse_list(got.split(' ').next().unwrap_or("-"));
            let sa_: BTreeSet<usize> = a.iter().copied().collect();
            let sb_: BTreeSet<usize> = b.iter().copied().collect();
            let want: BTreeSet<usize> = if op == "union" { sa_.union(&sb_).copied().collect() } else { sa_.intersection(&sb_).copied().collect() };
            let got_set: BTreeSet<usize> = got_list.iter().copied().collect();
            if got.starts_with("panic") {
                rep.fail("panic", &format!("C08/handles/{}/{}", op, cls), vec![line.clone()], "-", &got);
            } else if got_set != want {
                rep.fail("oracle", &format!("C08/handles/{}/wrong-members/{}", op, cls), vec![line.clone()], &list_s(&want.iter().copied().collect::<Vec<_>>()), &got);
            } else if got_list.len() != got_set.len() {
                rep.fail("oracle", &format!("C08/handles/{}/duplicates/{}", op, cls), vec![line.clone()], &list_s(&want.iter().copied().collect::<Vec<_>>()), &got);
            } else if got.ends_with("s=1") && !got_list.windows(2).all(|w| w[0] <= w[1]) {
                rep.fail("oracle", &format!("C08/handles/{}/flag-sorted-but-unsorted/{}", op, cls), vec![line.clone()], "sorted", &got);
            } else if op == "inter" && got_list != a.iter().copied().filter(|x| sb_.contains(x)).collect::<Vec<_>>() {
                rep.fail("oracle", &format!("C08/handles/inter/order-not-retained/{}", cls), vec![line.clone()], &list_s(&a.iter().copied().filter(|x| sb_.contains(x)).collect::<Vec<_>>()), &got);
            }
            rep.model_case(vec![line], vec![got], "handles");
        }
        let x = rng.below(12);
        for op in ["contains", "position"] {
            let line = format!("hs {} {} {}", op, list_s(&a), x);
            let got = exec_line(&store, &line);
            let want = if op == "contains" { a.contains(&x).to_string() } else { a.iter().position(|y| *y == x).map(|p| p.to_string()).unwrap_or("none".into()) };
            rep.count(&format!("hs:{}", op));
            if got != want { rep.fail("oracle", &format!("C08/handles/{}", op), vec![line.clone()], &want, &got); }
            rep.model_case(vec![line], vec![got], "handles");
        }
        let _ = i;
    }
    // LimitIter: every (begin, end, length) in a box
    for n in 0..8usize {
        for b in -9isize..=9 {
            for e in -9isize..=9 {
                let line = format!("lim {} {} {}", b, e, n);
                let got = exec_line(&store, &line);
                let want = list_s(&slice_oracle(n, b, e));
                rep.count("lim");
                let cls = format!("{}{}", if b < 0 { "begin<0" } else { "begin>=0" }, if e < 0 { "+end<0" } else if e == 0 { "+end=0" } else { "+end>0" });
                rep.case(if !slice_oracle(n, b, e).is_empty() { Some(&line) } else { None });
                if got != want { rep.fail(if got.starts_with("panic") { "panic" } else { "oracle" }, &format!("C08/limit/{}", cls), vec![line.clone()], &want, &got); }
                rep.model_case(vec![line], vec![got], "limit");
            }
        }
    }
}

// ---------------------------------------------------------------------------------------------
// queries on stores
// ---------------------------------------------------------------------------------------------

/// canonical rendering of one result row: each item by type and handle(s)
pub fn row_item(it: &QueryResultItem) -> String {
    match it {
        QueryResultItem::None => "none".to_string(),
        QueryResultItem::Annotation(a) => format!("A{}", a.handle().as_usize()),
        QueryResultItem::AnnotationData(d) => format!("D{}.{}", d.set().handle().as_usize(), d.handle().as_usize()),
        QueryResultItem::DataKey(k) => format!("K{}.{}", k.set().handle().as_usize(), k.handle().as_usize()),
        QueryResultItem::TextResource(r) => format!("R{}", r.handle().as_usize()),
        QueryResultItem::AnnotationDataSet(s) => format!("S{}", s.handle().as_usize()),
        QueryResultItem::TextSelection(t) => format!("T{}:{}-{}", t.resource().handle().as_usize(), t.begin(), t.end()),
        _ => "?".to_string(),
    }
}
fn row(items: &QueryResultItems) -> String { items.iter().map(row_item).collect::<Vec<_>>().join("+") }

fn data_constraint<'a>(toks: &'a [&'a str], op: &'a DataOperator<'a>) -> Option<Constraint<'a>> {
    Some(match (toks[0], toks[1]) {
        ("*", "*") => Constraint::Value(op.clone(), SelectionQualifier::Normal),
        (set, key) if set != "*" && key != "*" => if matches!(op, DataOperator::Any) { Constraint::DataKey { set, key, qualifier: SelectionQualifier::Normal } } else { Constraint::KeyValue { set, key, operator: op.clone(), qualifier: SelectionQualifier::Normal } },
        _ => return None,
    })
}

fn handles_of(store: &AnnotationStore, query: Query) -> String {
    let _ = stam::verif_hooks::verif_take_query_error();
    match guarded(std::panic::AssertUnwindSafe(|| -> Result<Vec<usize>, String> {
        let it = store.query(query).map_err(|e| format!("{}", e))?;
        let v: Vec<usize> = it.filter_map(|r| match r.iter().next() { Some(QueryResultItem::Annotation(a)) => Some(a.handle().as_usize()), _ => None }).collect();
        match stam::verif_hooks::verif_take_query_error() { Some(e) => Err(e), None => Ok(v) }
    })) { Ok(Ok(v)) => list_s(&v), Ok(Err(e)) => format!("refused:{}", e.chars().take(50).collect::<String>()), Err(p) => format!("panic:{}", p.chars().take(50).collect::<String>()) }
}

/// `st qann set key op…` on the implementation: the constraint as first constraint (p=) and behind a first constraint
/// that admits every annotation (f=)
pub fn qann_impl(store: &AnnotationStore, c: &str) -> String {
    let toks: Vec<&str> = c.split_whitespace().collect();
    if toks.len() < 3 { return "bad-op".into(); }
    let op = match crate::fam::data::parse_op(&toks[2..], &mut 0) { Some(o) => o, None => return "bad-op".into() };
    let all: Vec<AnnotationHandle> = store.annotations().map(|a| a.handle()).collect();
    let cons = match data_constraint(&toks, &op) { Some(c) => c, None => return "bad-op".into() };
    let p = handles_of(store, Query::new(QueryType::Select, Some(Type::Annotation), Some("x")).with_constraint(cons.clone()));
    let f = handles_of(store, Query::new(QueryType::Select, Some(Type::Annotation), Some("x"))
        .with_constraint(Constraint::Annotations(Handles::new(std::borrow::Cow::Owned(all), true, store), SelectionQualifier::Normal, AnnotationDepth::Zero))
        .with_constraint(cons));
    format!("p={} f={}", p, f)
}

/// `st qand c1 ;; c2 ;; …` on the implementation: the conjunction as written (the first constraint is index-driven)
pub fn qand_impl(store: &AnnotationStore, cs: &[String]) -> String {
    let toks: Vec<Vec<&str>> = cs.iter().map(|c| c.split_whitespace().collect()).collect();
    let ops: Vec<Option<DataOperator>> = toks.iter().map(|t| if t.len() < 3 { None } else { crate::fam::data::parse_op(&t[2..], &mut 0) }).collect();
    if ops.iter().any(|o| o.is_none()) { return "bad-op".into(); }
    let mut query = Query::new(QueryType::Select, Some(Type::Annotation), Some("x"));
    for (t, o) in toks.iter().zip(ops.iter()) {
        match data_constraint(t, o.as_ref().unwrap()) { Some(c) => query = query.with_constraint(c), None => return "bad-op".into() }
    }
    handles_of(store, query)
}

/// run a query given as text; Err = refused (syntax or unsupported combination)
pub fn run_text(store: &AnnotationStore, q: &str) -> Result<Vec<String>, String> {
    match guarded(std::panic::AssertUnwindSafe(|| -> Result<Vec<String>, String> {
        let query = Query::try_from(q).map_err(|e| format!("{}", e))?;
        let _ = stam::verif_hooks::verif_take_query_error();
        let it = store.query(query).map_err(|e| format!("{}", e))?;
        let rows: Vec<String> = it.map(|r| row(&r)).collect();
        // an evaluation error ends the iteration (and is only printed): that is a refusal, not an empty answer
        match stam::verif_hooks::verif_take_query_error() { Some(e) => Err(e), None => Ok(rows) }
    })) { Ok(r) => r, Err(m) => Err(format!("PANIC {} @{}", m.chars().take(80).collect::<String>(), last_panic_loc())) }
}

pub struct Vocab { pub res: Vec<String>, pub sets: Vec<String>, pub anns: Vec<String>, pub keys: Vec<(String, String)>, pub data: Vec<(String, String, String)>, pub words: Vec<String> }

pub fn vocab(store: &AnnotationStore) -> Vocab {
    let mut v = Vocab { res: vec![], sets: vec![], anns: vec![], keys: vec![], data: vec![], words: vec![] };
    for r in store.resources() { if let Some(id) = r.id() { v.res.push(id.to_string()); } for w in r.text().split(' ').filter(|w| !w.is_empty() && w.is_ascii()).take(3) { v.words.push(w.to_string()); } }
    for s in store.datasets() {
        if let Some(sid) = s.id() {
            v.sets.push(sid.to_string());
            for k in s.keys() { if let Some(kid) = k.id() { v.keys.push((sid.to_string(), kid.to_string())); } }
            for d in s.data() { if let (Some(kid), DataValue::String(val)) = (d.key().id(), d.value()) { if !val.contains('"') && !val.contains('\\') && !val.contains('|') { v.data.push((sid.to_string(), kid.to_string(), val.clone())); } } }
        }
    }
    for a in store.annotations() { if let Some(id) = a.id() { v.anns.push(id.to_string()); } }
    v
}

/// one constraint applicable to `rtype`, drawn from the store's vocabulary
fn constraint(rng: &mut Rng, v: &Vocab, rtype: &str) -> Option<String> {
    let q = |s: &str| format!("\"{}\"", s);
    let pick = |rng: &mut Rng, xs: &Vec<String>| -> Option<String> { if xs.is_empty() { None } else { Some(xs[rng.below(xs.len())].clone()) } };
    Some(match (rtype, rng.below(10)) {
        ("ANNOTATION", 0) | ("DATA", 0) => { let (s, k, val) = v.data.get(rng.below(v.data.len().max(1)))?.clone(); format!("DATA {} {} = {}", q(&s), q(&k), q(&val)) }
        ("ANNOTATION", 1) | ("DATA", 1) | ("KEY", 1) => { let (s, k) = v.keys.get(rng.below(v.keys.len().max(1)))?.clone(); format!("DATA {} {}", q(&s), q(&k)) }
        ("ANNOTATION", 2) | ("TEXT", 2) => format!("RESOURCE {}", q(&pick(rng, &v.res)?)),
        ("ANNOTATION", 3) | ("DATA", 3) | ("KEY", 3) => format!("DATASET {}", q(&pick(rng, &v.sets)?)),
        ("ANNOTATION", 4) | ("TEXT", 4) => format!("TEXT {}", q(&pick(rng, &v.words)?)),
        ("ANNOTATION", 5) | ("TEXT", 5) | ("DATA", 5) | ("RESOURCE", 5) => format!("ANNOTATION {}", q(&pick(rng, &v.anns)?)),
        ("ANNOTATION", 6) => format!("ANNOTATION AS TARGET {}", q(&pick(rng, &v.anns)?)),
        ("ANNOTATION", 7) | ("RESOURCE", 7) | ("DATASET", 7) | ("DATA", 7) | ("KEY", 7) => format!("ID {}", q(&match rtype { "ANNOTATION" => pick(rng, &v.anns)?, "RESOURCE" => pick(rng, &v.res)?, "DATASET" => pick(rng, &v.sets)?, _ => return None })),
        ("DATA", 8) | ("ANNOTATION", 8) => { let (_, _, val) = v.data.get(rng.below(v.data.len().max(1)))?.clone(); format!("VALUE = {}", q(&val)) }
        ("RESOURCE", 2) | ("DATASET", 2) => { let (s, k) = v.keys.get(rng.below(v.keys.len().max(1)))?.clone(); format!("DATA AS METADATA {} {}", q(&s), q(&k)) }
        ("RESOURCE", 4) => format!("DATASET {}", q(&pick(rng, &v.sets)?)),
        _ => return None,
    })
}

pub fn as_set(v: &[String]) -> BTreeSet<String> { v.iter().cloned().collect() }

pub fn check_store(rep: &mut Report, script: &[String], rng: &mut Rng) {
    let mut ex = Exec::new();
    let script_outs: Vec<String> = script.iter().map(|l| ex.exec(l)).collect();
    let store = &ex.store;
    let v = vocab(store);
    let ctx = |q: &str| -> Vec<String> { let mut c = script.to_vec(); c.push(format!("query: {}", q)); c };
    let types = ["ANNOTATION", "DATA", "KEY", "TEXT", "RESOURCE", "DATASET"];
    // ---- data constraints of SELECT ANNOTATION through the store model: index-driven (first) and filter (later) evaluation,
    //      and conjunctions with the first constraint index-driven (`st qann` / `st qand` lines, QuerySem.lean)
    {
        let mut lines: Vec<String> = script.to_vec();
        let mut outs: Vec<String> = script_outs.clone();
        let opmenu = ["any", "eqi:0", "eqi:1", "ge:1", "not eqi:0", "lt:2"];
        let mut cons: Vec<String> = vec![];
        for _ in 0..6 {
            let c = match rng.below(4) {
                0 => match v.data.get(rng.below(v.data.len().max(1))) { Some((s_, k_, val)) => format!("{} {} eq:{}", s_, k_, hex(val)), None => continue },
                1 => match v.keys.get(rng.below(v.keys.len().max(1))) { Some((s_, k_)) => format!("{} {} {}", s_, k_, opmenu[rng.below(opmenu.len())]), None => continue },
                2 => match v.data.get(rng.below(v.data.len().max(1))) { Some((_, _, val)) => format!("* * eq:{}", hex(val)), None => continue },
                _ => format!("* * {}", opmenu[1 + rng.below(opmenu.len() - 1)]),
            };
            if !cons.contains(&c) { cons.push(c); }
        }
        for c in &cons {
            let line = format!("st qann {}", c);
            let got = qann_impl(store, c);
            rep.count("query:qann");
            if !got.starts_with("p=- ") { rep.count("query:qann:nonempty"); }
            lines.push(line);
            outs.push(got);
        }
        if cons.len() >= 2 {
            for _ in 0..3 {
                let k = 2 + rng.below(2.min(cons.len() - 1));
                let mut pick: Vec<String> = vec![];
                for _ in 0..k { let c = cons[rng.below(cons.len())].clone(); if !pick.contains(&c) { pick.push(c); } }
                if pick.len() < 2 { continue; }
                let line = format!("st qand {}", pick.join(" ;; "));
                let got = qand_impl(store, &pick);
                rep.count("query:qand");
                if got != "-" { rep.count("query:qand:nonempty"); }
                rep.case(Some(&format!("{}|{}", script.join("|"), line)));
                lines.push(line);
                outs.push(got);
            }
        }
        if lines.len() > script.len() { rep.model_case(lines, outs, "data-constraints"); }
    }
    for _ in 0..12 {
        let rtype = *rng.pick(&types);
        // up to three constraints that the library accepts on their own as primary constraint
        let mut cs: Vec<(String, Vec<String>)> = vec![];
        for _ in 0..6 {
            if cs.len() >= 3 { break; }
            if let Some(c) = constraint(rng, &v, rtype) {
                if cs.iter().any(|x| x.0 == c) { continue; }
                let q1 = format!("SELECT {} ?x WHERE {};", rtype, c);
                match run_text(store, &q1) {
                    Ok(r) => cs.push((c, r)),
                    Err(e) if e.starts_with("PANIC") => { rep.fail("panic", &format!("C08/query-panics/{}/{}", rtype, c.split(' ').next().unwrap_or("?")), ctx(&q1), "results or an error", &e); }
                    Err(_) => { rep.count(&format!("query:refused:{}:{}", rtype, c.split(' ').next().unwrap_or("?"))); }
                }
            }
        }
        if cs.is_empty() { continue; }
        rep.count(&format!("query:{}:{}-constraints", rtype, cs.len()));
        let kw = |c: &str| c.split('"').next().unwrap_or("?").trim().replace(' ', "-");
        // ---- each constraint as primary (index-driven) vs. as filter behind a primary that admits every item
        let universal: Option<String> = match rtype {
            "ANNOTATION" if !v.anns.is_empty() && store.annotations().all(|a| a.id().is_some()) => Some(format!("[ {} ]", v.anns.iter().map(|a| format!("ID \"{}\"", a)).collect::<Vec<_>>().join(" OR "))),
            "RESOURCE" if !v.res.is_empty() => Some(format!("[ {} ]", v.res.iter().map(|a| format!("ID \"{}\"", a)).collect::<Vec<_>>().join(" OR "))),
            "DATASET" if !v.sets.is_empty() => Some(format!("[ {} ]", v.sets.iter().map(|a| format!("ID \"{}\"", a)).collect::<Vec<_>>().join(" OR "))),
            "DATA" | "KEY" if !v.sets.is_empty() => Some(format!("[ {} ]", v.sets.iter().map(|a| format!("DATASET \"{}\"", a)).collect::<Vec<_>>().join(" OR "))),
            _ => None,
        };
        let mut pf_differs: Vec<String> = vec![];
        if let Some(u) = &universal {
            for (c, r) in &cs {
                let q = format!("SELECT {} ?x WHERE {}; {};", rtype, u, c);
                match run_text(store, &q) {
                    Ok(rf) => if as_set(&rf) != as_set(r) {
                        pf_differs.push(kw(c));
                        rep.fail("oracle", &format!("C08/primary-vs-filter/{}/{}", rtype, kw(c)), ctx(&format!("SELECT {} ?x WHERE {};   vs   {}", rtype, c, q)), &format!("as primary: {:?}", as_set(r)), &format!("as filter: {:?}", as_set(&rf)));
                    },
                    Err(e) if e.starts_with("PANIC") => rep.fail("panic", &format!("C08/query-panics/{}/{}", rtype, kw(c)), ctx(&q), "results", &e),
                    Err(_) => rep.count(&format!("query:not-implemented-as-filter:{}:{}", rtype, kw(c))),
                }
            }
        }
        // ---- conjunction: every order gives the same set, equal to the intersection of the members' own results
        if cs.len() >= 2 {
            let want: BTreeSet<String> = cs.iter().map(|x| as_set(&x.1)).reduce(|a, b| a.intersection(&b).cloned().collect()).unwrap();
            let n = cs.len();
            let orders: Vec<Vec<usize>> = if n == 2 { vec![vec![0, 1], vec![1, 0]] } else { vec![vec![0, 1, 2], vec![0, 2, 1], vec![1, 0, 2], vec![1, 2, 0], vec![2, 0, 1], vec![2, 1, 0]] };
            let mut first: Option<(String, BTreeSet<String>)> = None;
            let mut refused: Vec<(String, String)> = vec![];
            let mut tried = 0;
            for o in orders {
                let q = format!("SELECT {} ?x WHERE {};", rtype, o.iter().map(|i| cs[*i].0.clone()).collect::<Vec<_>>().join("; "));
                let key = format!("{}|{}", script.join("|"), q);
                rep.case(Some(&key));
                let sig = format!("{}/{}", rtype, o.iter().map(|i| kw(&cs[*i].0)).collect::<BTreeSet<_>>().into_iter().collect::<Vec<_>>().join("+"));
                match run_text(store, &q) {
                    Ok(r) => {
                        let got = as_set(&r);
                        // a difference that a member's own primary-vs-filter difference (reported above) explains is not reported twice
                        let explained = !pf_differs.is_empty();
                        if got != want && !explained { rep.fail("oracle", &format!("C08/conjunction-differs-from-intersection/{}", sig), ctx(&q), &format!("{:?}", want), &format!("{:?}", got)); }
                        if let Some((q0, f)) = &first { if *f != got && !explained { rep.fail("oracle", &format!("C08/constraint-order-changes-result/{}", sig), ctx(&format!("{}   vs   {}", q0, q)), &format!("{:?}", f), &format!("{:?}", got)); } } else { first = Some((q.clone(), got)); }
                    }
                    Err(e) if e.starts_with("PANIC") => rep.fail("panic", &format!("C08/query-panics/{}", sig), ctx(&q), "results", &e),
                    Err(e) => { refused.push((q.clone(), e)); }
                }
                tried += 1;
            }
            // a conjunction that is accepted in one order and refused in another: the order of the constraints matters
            if !refused.is_empty() && refused.len() < tried {
                let refused_kw = refused[0].1.split("Constraint ").nth(1).and_then(|x| x.split(' ').next()).unwrap_or("?").to_string();
                rep.fail("oracle", &format!("C08/constraint-order-changes-acceptance/{}/{}-as-secondary", rtype, refused_kw), ctx(&refused[0].0), "accepted in every order or in none", &refused[0].1);
            } else if !refused.is_empty() { rep.count(&format!("query:conjunction-refused-in-every-order:{}", rtype)); }
            // ---- disjunction: union without duplicates
            let q = format!("SELECT {} ?x WHERE [ {} ];", rtype, cs.iter().map(|x| x.0.clone()).collect::<Vec<_>>().join(" OR "));
            let want_u: BTreeSet<String> = cs.iter().flat_map(|x| x.1.iter().cloned()).collect();
            let sig = format!("{}/{}", rtype, cs.iter().map(|x| kw(&x.0)).collect::<BTreeSet<_>>().into_iter().collect::<Vec<_>>().join("+"));
            match run_text(store, &q) {
                Ok(r) => {
                    if as_set(&r) != want_u { rep.fail("oracle", &format!("C08/union-differs/{}", sig), ctx(&q), &format!("{:?}", want_u), &format!("{:?}", r)); }
                    else if as_set(&r).len() != r.len() { rep.fail("oracle", &format!("C08/union-duplicates/{}", sig), ctx(&q), "each item once", &format!("{:?}", r)); }
                }
                Err(e) if e.starts_with("PANIC") => rep.fail("panic", &format!("C08/query-panics/union/{}", sig), ctx(&q), "results", &e),
                Err(_) => rep.count("query:union-refused"),
            }
        }
        // ---- LIMIT: the slice of the unlimited results
        let (c0, r0) = &cs[0];
        for _ in 0..2 {
            let (b, e) = (rng.range(-4, 4) as isize, rng.range(-4, 4) as isize);
            let q = format!("SELECT {} ?x WHERE {}; LIMIT {} {};", rtype, c0, b, e);
            let want: Vec<String> = slice_oracle(r0.len(), b, e).into_iter().map(|i| r0[i].clone()).collect();
            match run_text(store, &q) {
                Ok(r) => if r != want { rep.fail("oracle", &format!("C08/limit-differs/{}", format!("{}{}", if b < 0 { "begin<0" } else { "begin>=0" }, if e < 0 { "+end<0" } else if e == 0 { "+end=0" } else { "+end>0" })), ctx(&q), &format!("{:?}", want), &format!("{:?}", r)); },
                Err(e_) if e_.starts_with("PANIC") => rep.fail("panic", "C08/query-panics/limit", ctx(&q), "results", &e_),
                Err(_) => rep.count("query:limit-refused"),
            }
        }
    }
}

pub fn run(opts: &Opts) -> Report {
    let mut rep = Report::new(
        "query",
        "helper collections: 2000 (quick) / 20000 random pairs of handle lists (sorted and unsorted) through union, intersection, contains, position; LimitIter exhaustively for begin, end in -9..9 and lengths 0..7; \
         queries: stores from seeded operation histories of the store family; for each of the six result types constraints drawn from the store's own vocabulary (data, key, value, text, resource, dataset, annotation, annotation-as-target, id, metadata), checked alone, in every order, as a conjunction against the intersection of the members' results, as a disjunction against the union, and with random LIMIT against the slice; \
         structured queries (query2): STAMQL text vs. the same query built with Query::new/with_constraint; single constraints vs. the iterator API; sub-query chains of depth 2 and 3 (OPTIONAL or not) vs. nested iteration level by level with the outer variables bound, the shape of the iteration also through the Lean model of QueryIter (sq lines); a constraint on a variable vs. the constant form; ADD (one or two targets, COMPOSITE/MULTI/DIRECTIONAL, with/without ID) and DELETE (all five item types) vs. the direct calls on a second copy of the store, compared by full observation; \
         iterator API (iterapi): every filter_* method of the annotation, data, key, dataset, resource and text selection iterators against Iterator::filter with the documented predicate; \
         non-trivial = a multi-constraint query or a non-empty slice; distinct = distinct (store, query)",
    );
    let mut rng = Rng::new(opts.seed.wrapping_mul(23_000_009));
    collections_stream(&mut rep, &mut rng, if opts.thorough() { 20000 } else { 2000 });
    crate::fam::query2::check_nocase(&mut rep);
    let n = if opts.thorough() { 1500 } else { 150 };
    for i in 0..n {
        let mut g = Gen::new(opts.seed.wrapping_mul(29_000_017).wrapping_add(i as u64));
        g.force_ids = true;
        let mut script: Vec<String> = if i % 3 == 2 { crate::fam::store::scenario(&mut g) } else { vec![] };
        let nops = 8 + g.rng.below(24);
        script.extend((0..nops).map(|_| g.op()));
        // every annotation gets a public identifier (the union of all identifiers serves as a primary constraint that admits every annotation)
        let script: Vec<String> = script.into_iter().enumerate().map(|(k, l)| if l.starts_with("st annot ~ ") { l.replacen("st annot ~ ", &format!("st annot z{} ", k), 1) } else { l }).collect();
        check_store(&mut rep, &script, &mut rng);
        crate::fam::query2::check_store2(&mut rep, &script, &mut rng);
        crate::fam::query2::check_mut(&mut rep, &script, &mut rng);
        crate::fam::iterapi::check_iterators(&mut rep, &script, &mut rng);
        if i == 0 { rep.sample(json!({"script": script})); }
    }
    // ---------- the same offsets selected in two resources: each text selection is a result once ----------
    {
        let script: Vec<String> = vec!["st addres r0 9".into(), "st addres r1 9".into(), "st annot a0 T:r0:b0:b5 s0/k0/s:v".into(), "st annot a1 T:r1:b0:b5 s0/k0/s:v".into(), "st annot a2 T:r0:b0:b5 s0/k0/s:v".into(), "st annot a3 T:r1:b2:b4 s0/k0/s:v".into()];
        let mut ex = Exec::new();
        for l in &script { ex.exec(l); }
        for text in ["SELECT TEXT ?t WHERE DATA \"s0\" \"k0\" = \"v\";", "SELECT TEXT ?t;"] {
            rep.count("query:same-offsets-in-two-resources");
            rep.case(Some(&format!("same-offsets-in-two-resources {}", text)));
            let ctx: Vec<String> = script.iter().cloned().chain(std::iter::once(text.to_string())).collect();
            let got = guarded(std::panic::AssertUnwindSafe(|| -> Result<Vec<String>, String> {
                let q = Query::try_from(text).map_err(|e| format!("{}", e))?;
                Ok(ex.store.query(q).map_err(|e| format!("{}", e))?.filter_map(|row| row.iter().next().and_then(|x| if let QueryResultItem::TextSelection(t) = x { Some(format!("{}:{}-{}", t.resource().id().unwrap_or("?"), t.begin(), t.end())) } else { None })).collect())
            }));
            match got {
                Err(m) => rep.fail("panic", "C08/same-offsets-in-two-resources/panic", ctx, "rows", &m),
                Ok(Err(_)) => {}
                Ok(Ok(rows)) => { let mut u = rows.clone(); u.sort(); u.dedup(); if u.len() != rows.len() { rep.fail("oracle", "C08/same-offsets-in-two-resources/a-text-selection-twice", ctx, &format!("each once: {:?}", u), &format!("{:?}", rows)); } }
            }
        }
        // the iterator form of the related-text search over references in two resources (C06)
        rep.count("query:related-text-over-two-resources");
        let got = guarded(std::panic::AssertUnwindSafe(|| -> Vec<String> {
            let refs: Vec<ResultTextSelection> = ex.store.annotations().flat_map(|a| a.textselections().collect::<Vec<_>>()).collect();
            refs.into_iter().related_text(TextSelectionOperator::embeds()).map(|t| format!("{}:{}-{}", t.resource().id().unwrap_or("?"), t.begin(), t.end())).collect()
        }));
        if let Ok(rows) = got { let mut u = rows.clone(); u.sort(); u.dedup(); if u.len() != rows.len() { rep.fail("oracle", "C08/same-offsets-in-two-resources/related-text-twice", script.clone(), &format!("each once: {:?}", u), &format!("{:?}", rows)); } }
    }
    let _ = observe;
    rep
}

/// diagnostic: run queries (one per line after the `--` separator) on the store a script builds
pub fn debug(path: &str) {
    let text = std::fs::read_to_string(path).unwrap_or_default();
    let mut ex = Exec::new();
    let mut in_q = false;
    for l in text.lines() {
        if l.trim() == "--" { in_q = true; continue; }
        if !in_q { ex.exec(l); }
        else if l.starts_with("ADD") || l.starts_with("DELETE") { let r = crate::fam::query2::run_mut(&mut ex.store, l); println!("{}\n   => {:?}\n   store afterwards: {}", l, r, observe(&ex.store)); }
        else { println!("{}\n   => {:?}", l, run_text(&ex.store, l)); }
    }
}
