//! C16 (transposition): texts sharing fragments (re-ordered, with and without gaps between them, two or
//! three sides, simple and complex transpositions) and source annotations inside one fragment, spanning
//! adjacent fragments (re-segmentation), partly or wholly outside, with one or several selections.
//!
//! Comparisons:
//!  * implementation vs. direct oracle: success iff the source is covered by the source side; on success the
//!    returned annotations can be added, the new transposition links sides with piecewise identical text, the
//!    source side spells the source text, the other sides lie in the other sides' resources, and transposing
//!    back over the new transposition returns the source-side offsets; on failure the store is unchanged;
//!  * implementation vs. Lean model (`tp` line): the pieces per side.
use crate::common::*;
use crate::fam::store::observe;
use serde_json::json;
use stam::*;

#[derive(Clone, Debug)]
pub struct TCase {
    pub texts: Vec<String>,
    /// per side: fragments (resource, begin, end), fragment j of every side has the same text
    pub sides: Vec<Vec<(usize, usize, usize)>>,
    /// the transposition is a simple one (DirectionalSelector over text selectors, one fragment per side)
    pub simple: bool,
    pub src_res: usize,
    pub source: Vec<(usize, usize)>,
    /// T (single text selector), X, M, C (complex selector over the selections)
    pub kind: char,
    pub source_has_id: bool,
    pub allow_simple: bool,
    pub by_index: Option<usize>,
    /// the source is an existing annotation named in the configuration (existing_source_side + source_side_id)
    pub existing_source: bool,
    pub no_reseg: bool,
}

fn sel_s(v: &[(usize, usize, usize)]) -> String {
    if v.is_empty() { "-".into() } else { v.iter().map(|(r, b, e)| format!("{}.{}.{}", r, b, e)).collect::<Vec<_>>().join("+") }
}
fn parse_sels(s: &str) -> Option<Vec<(usize, usize, usize)>> {
    if s == "-" { return Some(vec![]); }
    s.split('+').map(|x| { let p: Vec<&str> = x.split('.').collect(); if p.len() == 3 { Some((p[0].parse().ok()?, p[1].parse().ok()?, p[2].parse().ok()?)) } else { None } }).collect()
}

impl TCase {
    pub fn line(&self) -> String {
        format!(
            "tpcfg texts={} sides={} simple={} src={}:{} kind={} id={} allow_simple={} byindex={} existing={} noreseg={}",
            self.texts.iter().map(|t| hex(t)).collect::<Vec<_>>().join(";"),
            self.sides.iter().map(|s| sel_s(s)).collect::<Vec<_>>().join("|"),
            self.simple as u8,
            self.src_res,
            sel_s(&self.source.iter().map(|(b, e)| (self.src_res, *b, *e)).collect::<Vec<_>>()),
            self.kind,
            self.source_has_id as u8,
            self.allow_simple as u8,
            self.by_index.map(|x| x.to_string()).unwrap_or("-".into()),
            self.existing_source as u8,
            self.no_reseg as u8
        )
    }
    pub fn parse(line: &str) -> Option<TCase> {
        let mut c = TCase { texts: vec![], sides: vec![], simple: false, src_res: 0, source: vec![], kind: 'T', source_has_id: true, allow_simple: false, by_index: None, existing_source: false, no_reseg: false };
        for kv in line.split_whitespace().skip(1) {
            let (k, v) = kv.split_once('=')?;
            match k {
                "texts" => c.texts = v.split(';').map(|h| crate::fam::store::unhex_s(h)).collect(),
                "sides" => c.sides = v.split('|').map(parse_sels).collect::<Option<Vec<_>>>()?,
                "simple" => c.simple = v == "1",
                "src" => { let (r, s) = v.split_once(':')?; c.src_res = r.parse().ok()?; c.source = parse_sels(s)?.into_iter().map(|(_, b, e)| (b, e)).collect(); }
                "kind" => c.kind = v.chars().next()?,
                "id" => c.source_has_id = v == "1",
                "allow_simple" => c.allow_simple = v == "1",
                "byindex" => c.by_index = v.parse().ok(),
                "existing" => c.existing_source = v == "1",
                "noreseg" => c.no_reseg = v == "1",
                _ => {}
            }
        }
        Some(c)
    }
    /// the side the source is looked for in (first side in the source's resource / the forced one)
    pub fn source_side(&self) -> Option<usize> {
        match self.by_index { Some(i) => Some(i), None => self.sides.iter().position(|s| s.iter().any(|f| f.0 == self.src_res)) }
    }
}

fn build(case: &TCase) -> Result<AnnotationStore, StamError> {
    let mut store = new_store();
    for (i, t) in case.texts.iter().enumerate() {
        store.add_resource(TextResourceBuilder::new().with_id(format!("r{}", i)).with_text(t.clone()))?;
    }
    let tsel = |(r, b, e): (usize, usize, usize)| SelectorBuilder::textselector(format!("r{}", r), Offset::simple(b, e));
    if case.simple {
        store.annotate(
            AnnotationBuilder::new().with_id("via").with_target(SelectorBuilder::directionalselector(case.sides.iter().map(|s| tsel(s[0])).collect::<Vec<_>>())).with_data("https://w3id.org/stam/extensions/stam-transpose/", "Transposition", DataValue::Null),
        )?;
    } else {
        for (i, s) in case.sides.iter().enumerate() {
            let target = if s.len() == 1 { tsel(s[0]) } else { SelectorBuilder::directionalselector(s.iter().map(|f| tsel(*f)).collect::<Vec<_>>()) };
            store.annotate(AnnotationBuilder::new().with_id(format!("side{}", i)).with_target(target))?;
        }
        store.annotate(
            AnnotationBuilder::new().with_id("via").with_target(SelectorBuilder::directionalselector((0..case.sides.len()).map(|i| SelectorBuilder::annotationselector(format!("side{}", i), None)).collect::<Vec<_>>())).with_data("https://w3id.org/stam/extensions/stam-transpose/", "Transposition", DataValue::Null),
        )?;
    }
    let subs: Vec<SelectorBuilder> = case.source.iter().map(|(b, e)| tsel((case.src_res, *b, *e))).collect();
    let target = match (case.kind, subs.len()) {
        ('T', _) | (_, 1) => subs.into_iter().next().unwrap(),
        ('M', _) => SelectorBuilder::multiselector(subs),
        ('C', _) => SelectorBuilder::compositeselector(subs),
        _ => SelectorBuilder::directionalselector(subs),
    };
    let mut b = AnnotationBuilder::new().with_target(target).with_data("ds", "k", "v");
    if case.source_has_id { b = b.with_id("src"); }
    store.annotate(b)?;
    Ok(store)
}

fn pieces(a: &ResultItem<Annotation>) -> Vec<(usize, usize, usize, String)> {
    a.textselections().map(|t| (t.resource().handle().as_usize(), t.begin(), t.end(), t.text().to_string())).collect()
}

/// sides of a transposition annotation: one entry per side, each the ordered pieces
fn sides_of(store: &AnnotationStore, id: &str) -> Option<Vec<Vec<(usize, usize, usize, String)>>> {
    let t = store.annotation(id)?;
    let subs: Vec<_> = t.annotations_in_targets(AnnotationDepth::One).collect();
    if subs.is_empty() {
        Some(t.textselections().map(|x| vec![(x.resource().handle().as_usize(), x.begin(), x.end(), x.text().to_string())]).collect())
    } else {
        Some(subs.iter().map(|a| pieces(a)).collect())
    }
}

fn show_sides(s: &[Vec<(usize, usize, usize, String)>]) -> String {
    s.iter().map(|side| sel_s(&side.iter().map(|p| (p.0, p.1, p.2)).collect::<Vec<_>>())).collect::<Vec<_>>().join("|")
}

/// is every character of the selection inside some fragment of the side (in that resource)?
fn covered(case: &TCase, side: usize, b: usize, e: usize) -> bool {
    b < e && (b..e).all(|p| case.sides[side].iter().any(|f| f.0 == case.src_res && f.1 <= p && p < f.2))
}

fn tp_line(case: &TCase, src: &[(usize, usize, usize)]) -> String {
    format!("tp {} {} {} {} {}", case.simple as u8, case.src_res, sel_s(src), case.by_index.map(|x| x.to_string()).unwrap_or("-".into()), case.sides.iter().map(|s| sel_s(s)).collect::<Vec<_>>().join("|"))
}

/// returns the model line and the implementation's answer
pub fn check_case(rep: &mut Report, case: &TCase) -> Option<(String, String)> {
    let ctx = vec![case.line()];
    let mut store = match guarded(std::panic::AssertUnwindSafe(|| build(case))) {
        Ok(Ok(s)) => s,
        Ok(Err(_)) => { rep.count("setup:refused"); return None; }
        Err(m) => { rep.fail("panic", "C16/setup-panics", ctx, "-", &m); return None; }
    };
    let src_handle = store.annotations().find(|a| a.id() == Some("src") || (a.id().is_none())).map(|a| a.handle());
    let src_handle = match src_handle { Some(h) => h, None => return None };
    let before = observe(&store);
    let cfg = TransposeConfig {
        transposition_id: Some("NT".into()),
        resegmentation_id: Some("NR".into()),
        target_side_ids: (0..case.sides.len()).map(|i| format!("T{}", i)).collect(),
        allow_simple: case.allow_simple,
        source_side: match case.by_index { Some(i) => TranspositionSide::ByIndex(i), None => TranspositionSide::Auto },
        existing_source_side: case.existing_source && case.source_has_id,
        source_side_id: if case.existing_source && case.source_has_id { Some("src".into()) } else { None },
        no_resegmentation: case.no_reseg,
        ..Default::default()
    };
    let res = guarded(std::panic::AssertUnwindSafe(|| {
        let via = store.annotation("via").expect("via");
        let src = store.annotation(src_handle).expect("src");
        let src_pieces = pieces(&src);
        (src.transpose(&via, cfg.clone()), src_pieces)
    }));
    let sside = case.source_side();
    let covers_all = |s: usize| !case.source.is_empty() && case.source.iter().all(|(b, e)| covered(case, s, *b, *e));
    let want_ok = match (case.by_index, sside) {
        (Some(i), _) => i < case.sides.len() && covers_all(i),
        // (no side forced: the side the source lies in — with several sides in the source's resource, one of them must cover all of it)
        (None, Some(_)) => (0..case.sides.len()).any(|s| covers_all(s)),
        _ => false,
    };
    rep.count(&format!("source:{}", if want_ok { if case.source.len() > 1 { "covered/multi" } else { "covered/one" } } else { "not-covered" }));
    let (builders, src_pieces) = match res {
        Err(m) => { rep.fail("panic", "C16/transpose-panics", ctx, if want_ok { "ok" } else { "err" }, &m); return Some((tp_line(case, &case.source.iter().map(|(b, e)| (case.src_res, *b, *e)).collect::<Vec<_>>()), format!("panic"))); }
        Ok((Err(_), p)) => {
            if observe(&store) != before { rep.fail("oracle", "C16/failed-transpose-changed-store", ctx.clone(), "unchanged", "changed"); }
            rep.count(if want_ok { "outcome:covered-but-refused" } else { "outcome:refused" });
            return Some((tp_line(case, &p.iter().map(|x| (x.0, x.1, x.2)).collect::<Vec<_>>()), "err".into()));
        }
        Ok((Ok(b), p)) => (b, p),
    };
    let zero_width = case.source.iter().any(|(b, e)| b == e);
    if zero_width { rep.count("source:zero-width-selection (coverage oracle not applied)"); }
    if !want_ok && !zero_width {
        rep.fail("oracle", "C16/uncovered-source-accepted", ctx.clone(), "an error", &format!("{} annotations returned", builders.len()));
    }
    rep.count("outcome:transposed");
    let line = tp_line(case, &src_pieces.iter().map(|x| (x.0, x.1, x.2)).collect::<Vec<_>>());
    let n = builders.len();
    let added = guarded(std::panic::AssertUnwindSafe(|| store.annotate_from_iter(builders.into_iter())));
    match added {
        Ok(Ok(v)) if v.len() == n => {}
        other => { rep.fail(if other.is_err() { "panic" } else { "oracle" }, "C16/returned-annotations-cannot-be-added", ctx.clone(), "added", &format!("{:?}", other.map(|r| r.map(|v| v.len()).map_err(|e| format!("{}", e)))));  return Some((line, "ok unaddable".into())); }
    }
    let source_text: Vec<String> = src_pieces.iter().map(|p| p.3.clone()).collect();
    let sides = match sides_of(&store, "NT") {
        Some(s) => s,
        None => { rep.fail("oracle", "C16/no-new-transposition", ctx.clone(), "annotation NT", "none"); return Some((line, "ok no-transposition".into())); }
    };
    let answer = format!("ok {}", show_sides(&sides));
    // the sides link piecewise identical text
    let first: Vec<&String> = sides[0].iter().map(|p| &p.3).collect();
    for s in &sides {
        let t: Vec<&String> = s.iter().map(|p| &p.3).collect();
        if t != first {
            rep.fail("oracle", "C16/new-transposition-sides-differ", ctx.clone(), &format!("{:?}", first), &format!("{:?}", t));
        }
    }
    // one side spells the source (in the source's resource, covering exactly the source's characters in order)
    let joined_src = source_text.concat();
    let src_side = sides.iter().position(|s| s.iter().all(|p| p.0 == case.src_res) && s.iter().map(|p| p.3.as_str()).collect::<String>() == joined_src && {
        // same characters: the concatenated position lists agree
        let a: Vec<usize> = s.iter().flat_map(|p| p.1..p.2).collect();
        let b: Vec<usize> = src_pieces.iter().flat_map(|p| p.1..p.2).collect();
        a == b
    });
    if src_side.is_none() {
        rep.fail("oracle", "C16/no-side-spells-the-source", ctx.clone(), &format!("{:?}", src_pieces), &show_sides(&sides));
    }
    if sides.len() != case.sides.len() {
        rep.fail("oracle", "C16/side-count", ctx.clone(), &case.sides.len().to_string(), &sides.len().to_string());
    }
    // the other sides lie in the resources of the other sides of `via`, in order
    if let (Some(ss), Some(vs)) = (src_side, sside) {
        let got: Vec<usize> = sides.iter().enumerate().filter(|(i, _)| *i != ss).map(|(_, s)| s.first().map(|p| p.0).unwrap_or(usize::MAX)).collect();
        let want: Vec<usize> = case.sides.iter().enumerate().filter(|(i, _)| *i != vs).map(|(_, s)| s[0].0).collect();
        if got != want || sides.iter().any(|s| s.iter().any(|p| p.0 != s[0].0)) {
            rep.fail("oracle", "C16/transposed-in-wrong-resource", ctx.clone(), &format!("{:?}", want), &format!("{:?}", got));
        }
        // transposed annotations exist under the requested ids and carry the source's data
        let complex_out = store.annotation("NT").map(|t| t.annotations_in_targets(AnnotationDepth::One).count() > 0).unwrap_or(false);
        if !complex_out { rep.count("outcome:simple-transposition-out"); }
        for (k, i) in (0..case.sides.len()).filter(|i| *i != vs && complex_out).enumerate() {
            let _ = i;
            match store.annotation(format!("T{}", k).as_str()) {
                Some(t) => {
                    if t.data().count() != 1 { rep.fail("oracle", "C16/transposed-annotation-data", ctx.clone(), "the source's data", &t.data().count().to_string()); }
                }
                None => rep.fail("oracle", "C16/transposed-annotation-missing", ctx.clone(), &format!("T{}", k), "none"),
            }
        }
        // transposing back over the new transposition returns the source-side offsets
        if sides.len() >= 2 {
            let other = (0..sides.len()).find(|i| *i != ss).unwrap();
            let back = guarded(std::panic::AssertUnwindSafe(|| {
                let via2 = store.annotation("NT").expect("NT");
                let subs: Vec<_> = via2.annotations_in_targets(AnnotationDepth::One).collect();
                let cfg2 = TransposeConfig { transposition_id: Some("NT2".into()), resegmentation_id: Some("NR2".into()), target_side_ids: (0..sides.len()).map(|i| format!("B{}", i)).collect(), source_side: TranspositionSide::ByIndex(other), ..Default::default() };
                if subs.is_empty() {
                    // simple transposition: transpose the text selection of the other side
                    let ts: ResultTextSelectionSet = via2.textselections().skip(other).take(1).collect();
                    ts.transpose(&via2, cfg2)
                } else {
                    subs[other].transpose(&via2, cfg2)
                }
            }));
            match back {
                Ok(Ok(b2)) => {
                    let n2 = b2.len();
                    match guarded(std::panic::AssertUnwindSafe(|| store.annotate_from_iter(b2.into_iter()))) {
                        Ok(Ok(v)) if v.len() == n2 => {
                            if let Some(s2) = sides_of(&store, "NT2") {
                                let want: Vec<(usize, usize, usize)> = sides[ss].iter().map(|p| (p.0, p.1, p.2)).collect();
                                // compare as character sequences (the way back may segment differently only if the way there did)
                                let flat = |v: &Vec<(usize, usize, usize)>| -> Vec<(usize, usize)> { v.iter().flat_map(|p| (p.1..p.2).map(move |x| (p.0, x))).collect() };
                                let found = s2.iter().any(|s| { let g: Vec<(usize, usize, usize)> = s.iter().map(|p| (p.0, p.1, p.2)).collect(); g == want || (flat(&g) == flat(&want) && !want.is_empty()) });
                                let exact = s2.iter().any(|s| { let g: Vec<(usize, usize, usize)> = s.iter().map(|p| (p.0, p.1, p.2)).collect(); g == want });
                                if !found { rep.fail("oracle", "C16/transposing-back-differs", ctx.clone(), &sel_s(&want), &show_sides(&s2)); }
                                else if !exact { rep.count("back:same-characters-other-segmentation"); }
                            } else { rep.fail("oracle", "C16/transposing-back-no-transposition", ctx.clone(), "NT2", "none"); }
                        }
                        other => rep.fail(if other.is_err() { "panic" } else { "oracle" }, "C16/transposing-back-cannot-be-added", ctx.clone(), "added", &format!("{:?}", other.map(|r| r.map(|v| v.len()).map_err(|e| format!("{}", e))))),
                    }
                }
                Ok(Err(e)) => rep.fail("oracle", "C16/transposing-back-refused", ctx.clone(), "ok", &format!("{}", e)),
                Err(m) => rep.fail("panic", "C16/transposing-back-panics", ctx.clone(), "ok", &m),
            }
        }
    }
    Some((line, answer))
}

fn rand_str(rng: &mut Rng, n: usize, alphabet: &[char]) -> String {
    (0..n).map(|_| *rng.pick(alphabet)).collect()
}

pub fn gen_case(seed: u64, i: usize) -> TCase {
    let mut rng = Rng::new(seed.wrapping_mul(5_000_011).wrapping_add(i as u64));
    let nsides = if rng.chance(25) { 3 } else { 2 };
    let simple = rng.chance(25);
    let k = if simple { 1 } else { 1 + rng.below(4) };
    let frag_alpha = ['a', 'b', 'c', 'd', '\u{e9}'];
    let fill_alpha = ['x', 'y', ' '];
    // a zero-width fragment now and then (not in a simple transposition, where it is the only one)
    let frags: Vec<String> = (0..k).map(|_| { let n = if !simple && k > 1 && rng.chance(4) { 0 } else { 1 + rng.below(5) }; rand_str(&mut rng, n, &frag_alpha) }).collect();
    let mut texts = vec![];
    let mut sides = vec![];
    for s in 0..nsides {
        // order of the fragments in this side's text
        let mut order: Vec<usize> = (0..k).collect();
        if s > 0 && rng.chance(50) {
            for a in (1..k).rev() { let b = rng.below(a + 1); order.swap(a, b); }
        }
        let mut text = String::new();
        let mut pos = vec![(0usize, 0usize); k];
        let mut clen = 0usize;
        let lead = rng.below(3);
        text.push_str(&rand_str(&mut rng, lead, &fill_alpha)); clen += lead;
        for (n, j) in order.iter().enumerate() {
            if n > 0 {
                // adjacent fragments (no filler) half of the time
                let f = if rng.chance(50) { 0 } else { 1 + rng.below(2) };
                text.push_str(&rand_str(&mut rng, f, &fill_alpha)); clen += f;
            }
            let l = frags[*j].chars().count();
            pos[*j] = (clen, clen + l);
            text.push_str(&frags[*j]); clen += l;
        }
        let trail = rng.below(3);
        text.push_str(&rand_str(&mut rng, trail, &fill_alpha));
        texts.push(text);
        sides.push(pos.iter().map(|(b, e)| (s, *b, *e)).collect::<Vec<_>>());
    }
    // every eighth case: all sides lie in ONE resource, one after the other (adjacent half of the time): a source can
    // then touch two sides at once, which no side covers
    if rng.chance(12) {
        let mut text = String::new();
        let mut shift = 0usize;
        for s in 0..nsides {
            if s > 0 && rng.chance(50) { let f = 1 + rng.below(2); text.push_str(&rand_str(&mut rng, f, &fill_alpha)); shift += f; }
            for f in sides[s].iter_mut() { *f = (0, f.1 + shift, f.2 + shift); }
            text.push_str(&texts[s]);
            shift += texts[s].chars().count();
        }
        texts = vec![text];
    }
    let one_resource = texts.len() == 1 && nsides > 1;
    let src_res = if one_resource { 0 } else if rng.chance(85) { 0 } else { rng.below(nsides) };
    let tl = texts[src_res].chars().count();
    let frs: Vec<(usize, usize, usize)> = if one_resource { sides[rng.below(nsides)].clone() } else { sides[src_res].clone() };
    let nsel = match rng.below(10) { 0..=5 => 1, 6..=8 => 2, _ => 3 };
    let mut source = vec![];
    for _ in 0..nsel {
        let f = *rng.pick(&frs);
        let sel = match rng.below(10) {
            0..=3 => { let b = f.1 + rng.below(f.2 - f.1); let e = (b + 1 + rng.below((f.2 - b).max(1))).min(tl); (b, e) }       // inside one fragment
            4 => (f.1, f.2),                                                                                      // a whole fragment
            5..=7 => { let b = f.1 + rng.below(f.2 - f.1); let e = (b + 1 + rng.below(8)).min(tl); (b, e) }       // running on (adjacent fragments or outside)
            8 => { let b = rng.below(tl.max(1)); let e = (b + 1 + rng.below(4)).min(tl); (b, e.max(b)) }           // anywhere
            _ => { let b = f.1.saturating_sub(1 + rng.below(2)); (b, f.2.min(b + 1 + rng.below(4))) }             // starting before
        };
        if sel.0 < sel.1 { source.push(sel); }
    }
    if source.is_empty() { source.push((frs[0].1, frs[0].2)); }
    if rng.chance(70) { source.sort(); source.dedup(); }
    let kind = *rng.pick(&['T', 'X', 'X', 'M', 'C']);
    if kind == 'T' { source.truncate(1); }
    TCase {
        texts, sides, simple, src_res, source,
        kind,
        source_has_id: rng.chance(75),
        allow_simple: rng.chance(20),
        by_index: if rng.chance(10) { Some(rng.below(nsides)) } else { None },
        existing_source: rng.chance(35),
        no_reseg: rng.chance(30),
    }
}

pub fn replay(lines: &[String]) -> Option<(String, String)> {
    let l = lines.iter().find(|l| l.starts_with("tpcfg"))?;
    let case = TCase::parse(l)?;
    let mut r = Report::new("replay", "");
    let a = check_case(&mut r, &case);
    for f in &r.failures {
        println!("  ORACLE: {} {} expected={} got={}", f.kind, f.signature, f.expected, f.got);
    }
    a
}

pub fn run(opts: &Opts) -> Report {
    let mut rep = Report::new(
        "transpose",
        "two or three texts sharing 1-4 fragments (re-ordered on the other sides, adjacent or separated by fillers, multi-byte characters), simple and complex transpositions, \
         source annotations with 1-3 selections inside a fragment, over a whole fragment, running on over adjacent fragments, starting before a fragment or anywhere; every selector kind for the source; \
         non-trivial = the source is covered (a transposition must come out); distinct = distinct cases",
    );
    let n = if opts.thorough() { 60000 } else { 6000 };
    for i in 0..n {
        let case = gen_case(opts.seed, i);
        let line = case.line();
        let sside = case.source_side();
        let cov = match sside { Some(s) if s < case.sides.len() => case.source.iter().all(|(b, e)| covered(&case, s, *b, *e)), _ => false };
        rep.case(if cov { Some(&line) } else { None });
        let a = check_case(&mut rep, &case);
        // (the Lean model is of sides in pairwise different resources; with several sides in one resource the oracles decide)
        let one_resource = case.texts.len() == 1 && case.sides.len() > 1;
        if one_resource { rep.count("sides:all-in-one-resource (oracles only)"); }
        if let (Some((tpl, answer)), false) = (&a, one_resource) {
            rep.model_case_ctx(vec![line.clone()], vec![tpl.clone()], vec![answer.clone()], "transpose");
        }
        if i == 0 { rep.sample(json!({"case": line, "implementation": a})); }
    }
    crate::fam::transpose_crafted::run_all(&mut rep);
    rep
}
