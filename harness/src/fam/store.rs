//! G1: the store under operation histories (C01 reverse lookups, C02 removal cascade, C03 identifiers,
//! C10 data vocabulary, C14 failed mutations). The implementation executor interprets `st …` protocol
//! lines; the same lines go to the Lean model; independent consistency oracles run after every op.
use crate::common::*;
use crate::fam::offset::{cur_str, parse_cur};
use serde_json::json;
use stam::*;
use std::collections::{BTreeMap, BTreeSet};

// ---------------------------------------------------------------------------------------------
// executor
// ---------------------------------------------------------------------------------------------

pub struct Exec {
    pub store: AnnotationStore,
}

thread_local! { pub static LAST_ERR: std::cell::RefCell<String> = std::cell::RefCell::new(String::new()); }
/// variant name of the error the last failed operation returned
pub fn last_err() -> String { LAST_ERR.with(|l| l.borrow().clone()) }

fn ok_or_err<T>(r: Result<Result<T, StamError>, String>, f: impl Fn(T) -> String) -> String {
    match r {
        Ok(Ok(v)) => format!("ok {}", f(v)),
        Ok(Err(e)) => {
            let d = format!("{:?}", e);
            // variant name; for the wrappers BuildError(inner, ..) / StoreError(inner, ..) the innermost variant
            const VARIANTS: &[&str] = &["HandleError", "IdNotFoundError", "NotFoundError", "VariableNotFoundError", "NoIdError", "Unbound", "AlreadyBound", "AlreadyExists", "DuplicateIdError", "BuildError", "StoreError", "IOError", "JsonError", "CsvError", "RegexError", "QuerySyntaxError", "SerializationError", "DeserializationError", "WrongSelectorType", "WrongSelectorTarget", "CursorOutOfBounds", "InvalidOffset", "InvalidCursor", "NoTarget", "NoText", "InUse", "IncompleteError", "ValueError", "UndefinedVariable", "TransposeError", "ValidationError", "OtherError"];
            let mut names: Vec<&str> = vec![];
            let mut rest = d.as_str();
            loop {
                let id_len = rest.chars().take_while(|c| c.is_alphanumeric()).count();
                let id = &rest[..id_len];
                if VARIANTS.contains(&id) && rest[id_len..].starts_with('(') {
                    names.push(id);
                    rest = &rest[id_len + 1..];
                    if id != "BuildError" && id != "StoreError" { break; }
                } else { break; }
            }
            let cause = names.last().map(|x| x.to_string()).unwrap_or("?".into());
            LAST_ERR.with(|l| *l.borrow_mut() = cause);
            "err".into()
        }
        Err(m) => format!("panic:{}", m.chars().take(70).collect::<String>()),
    }
}

/// values: n | b:0/1 | i:<int> | s:<str> | f:<quarters> (the float q/4) | d:<unix milliseconds> | l:<elem>|<elem>…
pub fn parse_value(s: &str) -> DataValue {
    match s.split_once(':') {
        Some(("i", v)) => DataValue::Int(v.parse().unwrap_or(0)),
        Some(("s", v)) => DataValue::String(v.to_string()),
        // a string given as the hex of its UTF-8 (white space at its edges, line breaks: what a script line cannot carry)
        Some(("x", v)) => DataValue::String(unhex_s(v)),
        Some(("b", v)) => DataValue::Bool(v == "1"),
        Some(("f", v)) => DataValue::Float(v.parse::<i64>().unwrap_or(0) as f64 / 4.0),
        // `d:<milliseconds>` (UTC) or `d:<milliseconds>@<offset in minutes>`
        // (an offset with seconds: `@<minutes>s<seconds>`)
        // (a fraction below the millisecond: `d:<milliseconds>n<nanoseconds>…`)
        Some(("d", v)) if v.contains('n') => { let (head, off) = match v.split_once('@') { Some((a, b)) => (a, format!("@{}", b)), None => (v, String::new()) }; let (ms, ns) = head.split_once('n').unwrap(); match parse_value(&format!("d:{}{}", ms, off)) { DataValue::Datetime(d) => DataValue::Datetime(d + chrono::Duration::nanoseconds(ns.parse().unwrap_or(0))), x => x } }
        Some(("d", v)) => { let (ms, off) = match v.split_once('@') { Some((a, b)) => (a, match b.split_once('s') { Some((m, sec)) => m.parse::<i32>().unwrap_or(0) * 60 + sec.parse::<i32>().unwrap_or(0), None => b.parse::<i32>().unwrap_or(0) * 60 }), None => (v, 0) }; let utc = DateTime::from_timestamp_millis(ms.parse().unwrap_or(0)).unwrap(); DataValue::Datetime(utc.with_timezone(&FixedOffset::east_opt(off).unwrap_or(FixedOffset::east_opt(0).unwrap()))) }
        Some(("l", v)) => DataValue::List(v.split('|').filter(|x| !x.is_empty()).map(parse_value).collect()),
        _ => DataValue::Null,
    }
}
pub fn show_value(v: &DataValue) -> String {
    match v {
        DataValue::Int(i) => format!("i:{}", i),
        DataValue::String(s) if s.is_empty() || s.chars().any(|c| c.is_whitespace()) => format!("x:{}", hex(s)),
        DataValue::String(s) => format!("s:{}", s),
        DataValue::Bool(b) => format!("b:{}", *b as u8),
        DataValue::Null => "n".into(),
        DataValue::Float(f) => format!("f:{}", (*f * 4.0) as i64),
        DataValue::Datetime(d) if d.timestamp_subsec_nanos() % 1_000_000 != 0 => { let whole = *d - chrono::Duration::nanoseconds((d.timestamp_subsec_nanos() % 1_000_000) as i64); let base = show_value(&DataValue::Datetime(whole)); let (head, off) = match base.split_once('@') { Some((a, b)) => (a.to_string(), format!("@{}", b)), None => (base.clone(), String::new()) }; format!("{}n{}{}", head, d.timestamp_subsec_nanos() % 1_000_000, off) }
        DataValue::Datetime(d) => { let secs = d.offset().local_minus_utc(); let off = secs / 60; if secs == 0 { format!("d:{}", d.timestamp_millis()) } else if secs % 60 != 0 { format!("d:{}@{}s{}", d.timestamp_millis(), off, secs % 60) } else { format!("d:{}@{}", d.timestamp_millis(), off) } }
        DataValue::List(l) => format!("l:{}", l.iter().map(show_value).collect::<Vec<_>>().join("|")),
    }
}

fn ann_ref<'a>(s: &str) -> BuildItem<'a, Annotation> {
    match s.strip_prefix('#') {
        Some(h) => BuildItem::Handle(AnnotationHandle::new(h.parse().unwrap_or(usize::MAX >> 40))),
        None => BuildItem::Id(s.to_string()),
    }
}
fn data_ref<'a>(s: &str) -> BuildItem<'a, AnnotationData> {
    match s.strip_prefix('#') {
        Some(h) => BuildItem::Handle(AnnotationDataHandle::new(h.parse().unwrap_or(usize::MAX >> 40))),
        None => BuildItem::Id(s.to_string()),
    }
}

fn parse_simple_target(t: &str) -> Option<SelectorBuilder<'static>> {
    let p: Vec<&str> = t.split(':').collect();
    Some(match (p[0], p.len()) {
        ("R", 2) => SelectorBuilder::resourceselector(p[1].to_string()),
        ("T", 4) => SelectorBuilder::textselector(p[1].to_string(), Offset::new(parse_cur(p[2])?, parse_cur(p[3])?)),
        ("A", 2) => SelectorBuilder::annotationselector(ann_ref(p[1]), None),
        ("AO", 4) => SelectorBuilder::annotationselector(ann_ref(p[1]), Some(Offset::new(parse_cur(p[2])?, parse_cur(p[3])?))),
        ("S", 2) => SelectorBuilder::datasetselector(p[1].to_string()),
        ("K", 3) => SelectorBuilder::datakeyselector(p[1].to_string(), p[2].to_string()),
        ("D", 3) => SelectorBuilder::annotationdataselector(p[1].to_string(), data_ref(p[2])),
        _ => return None,
    })
}

pub fn parse_target(t: &str) -> Option<SelectorBuilder<'static>> {
    let kind = t.chars().next()?;
    if t.len() > 2 && (kind == 'M' || kind == 'C' || kind == 'X') && t[1..].starts_with('[') && t.ends_with(']') {
        let inner = &t[2..t.len() - 1];
        let mut subs = vec![];
        for part in inner.split(';').filter(|x| !x.is_empty()) {
            // one level of nesting is expressible (it must be rejected by the library)
            subs.push(if part.starts_with("M[") || part.starts_with("C[") || part.starts_with("X[") {
                parse_target(&part.replace('|', ";"))?
            } else {
                parse_simple_target(part)?
            });
        }
        Some(match kind {
            'M' => SelectorBuilder::multiselector(subs),
            'C' => SelectorBuilder::compositeselector(subs),
            _ => SelectorBuilder::directionalselector(subs),
        })
    } else {
        parse_simple_target(t)
    }
}

fn parse_data(d: &str) -> Option<AnnotationDataBuilder<'static>> {
    let p: Vec<&str> = d.split('/').collect();
    if p.len() < 3 {
        return None;
    }
    let mut b = AnnotationDataBuilder::new().with_dataset(BuildItem::Id(p[0].to_string()));
    if p[1] != "~" {
        b = b.with_key(BuildItem::Id(p[1].to_string()));
    }
    if p[2] != "~" {
        b = b.with_value(parse_value(p[2]));
    }
    if p.len() > 3 {
        b = b.with_id(data_ref(p[3]));
    }
    Some(b)
}

fn mode_s(m: &OffsetMode) -> &'static str {
    match m {
        OffsetMode::BeginBegin => "bb",
        OffsetMode::BeginEnd => "be",
        OffsetMode::EndBegin => "eb",
        OffsetMode::EndEnd => "ee",
    }
}

fn show_simple(sel: &Selector) -> String {
    match sel {
        Selector::ResourceSelector(r) => format!("R{}", r.as_usize()),
        Selector::TextSelector(r, t, m) => format!("T{}.{}.{}", r.as_usize(), t.as_usize(), mode_s(m)),
        Selector::AnnotationSelector(a, None) => format!("A{}", a.as_usize()),
        Selector::AnnotationSelector(a, Some((r, t, m))) => format!("AO{}.{}.{}.{}", a.as_usize(), r.as_usize(), t.as_usize(), mode_s(m)),
        Selector::DataSetSelector(s) => format!("S{}", s.as_usize()),
        Selector::DataKeySelector(s, k) => format!("K{}.{}", s.as_usize(), k.as_usize()),
        Selector::AnnotationDataSelector(s, d) => format!("D{}.{}", s.as_usize(), d.as_usize()),
        _ => "?".into(),
    }
}

/// the members of every complex target: as iteration hands them out (each annotation selector with offset marked
/// with whether it covers its annotation's whole text), and as they are stored; one `rg` line for the Lean model of
/// the folding loop each
pub fn ranged_lines(store: &AnnotationStore) -> Vec<(String, String, bool)> {
    let mut out = vec![];
    for a in store.annotations() {
        let subs: &Vec<Selector> = match a.as_ref().target() { Selector::MultiSelector(v) | Selector::CompositeSelector(v) | Selector::DirectionalSelector(v) => v, _ => continue };
        let stored: Vec<String> = subs.iter().map(|s| match s {
            Selector::RangedTextSelector { resource, begin, end } => format!("RT{}.{}.{}", resource.as_usize(), begin.as_usize(), end.as_usize()),
            Selector::RangedAnnotationSelector { begin, end, with_text } => format!("RA{}.{}.{}", begin.as_usize(), end.as_usize(), if *with_text { 1 } else { 0 }),
            other => show_simple(other),
        }).collect();
        let handed: Vec<Selector> = a.as_ref().target().iter(store, false).map(|s| s.as_ref().clone()).filter(|s| !s.is_complex() && !matches!(s, Selector::RangedTextSelector { .. } | Selector::RangedAnnotationSelector { .. })).collect();
        let members: Vec<String> = handed.iter().map(|s| match s {
            Selector::AnnotationSelector(x, Some((r, t, _))) => {
                // does (r, t) cover the whole text of annotation x?
                let whole = store.annotation(*x).map(|ax| { let ts: Vec<_> = ax.textselections().collect(); ts.len() == 1 && ts[0].resource().handle() == *r && ts[0].handle() == Some(*t) }).unwrap_or(false);
                format!("{}.{}", show_simple(s), if whole { 1 } else { 0 })
            }
            other => show_simple(other),
        }).collect();
        if members.is_empty() { continue; }
        let shown: Vec<String> = handed.iter().map(show_simple).collect();
        out.push((format!("rg {}", members.join(" ")), format!("{} | {}", stored.join(";"), shown.join(";")), stored.iter().any(|x| x.starts_with("RT") || x.starts_with("RA"))));
    }
    out
}

/// canonical rendering of a target with internal ranged selectors expanded
pub fn show_target(store: &AnnotationStore, sel: &Selector) -> String {
    let kind = match sel {
        Selector::MultiSelector(_) => Some('M'),
        Selector::CompositeSelector(_) => Some('C'),
        Selector::DirectionalSelector(_) => Some('X'),
        _ => None,
    };
    match kind {
        None => show_simple(sel),
        Some(k) => {
            let subs: Vec<String> = sel
                .iter(store, false)
                .filter(|s| !s.as_ref().is_complex() && !matches!(s.as_ref(), Selector::RangedTextSelector { .. } | Selector::RangedAnnotationSelector { .. }))
                .map(|s| show_simple(s.as_ref()))
                .collect();
            format!("{}[{}]", k, subs.join(";"))
        }
    }
}

pub fn unhex_s(s: &str) -> String {
    if s == "-" {
        return String::new();
    }
    let bytes: Vec<u8> = (0..s.len() / 2).filter_map(|i| u8::from_str_radix(&s[2 * i..2 * i + 2], 16).ok()).collect();
    String::from_utf8_lossy(&bytes).to_string()
}

fn hl(v: impl Iterator<Item = usize>) -> String {
    let v: Vec<String> = v.map(|x| x.to_string()).collect();
    if v.is_empty() { "-".into() } else { v.join(",") }
}

/// the fixed text pattern of generated resources: words of four letters, with two- and four-byte characters mixed in
pub fn pattern_char(i: usize) -> char {
    if i % 5 == 4 { ' ' } else if i % 7 == 3 { '\u{e9}' } else if i % 11 == 6 { '\u{1F600}' } else { (b'a' + (i % 23) as u8) as char }
}

impl Exec {
    pub fn new() -> Self {
        Exec { store: new_store() }
    }

    pub fn exec(&mut self, line: &str) -> String {
        let t: Vec<&str> = line.split_whitespace().collect();
        if t.len() < 2 || t[0] != "st" {
            return "bad-op".into();
        }
        let store = &mut self.store;
        match t[1] {
            "addres" if t.len() == 4 => {
                let text: String = (0..t[3].parse::<usize>().unwrap_or(0)).map(pattern_char).collect();
                let r = guarded(std::panic::AssertUnwindSafe(|| store.add_resource(TextResourceBuilder::new().with_id(t[2]).with_text(text))));
                ok_or_err(r, |h| h.as_usize().to_string())
            }
            "addset" if t.len() == 3 || t.len() == 4 => {
                if t.len() == 4 {
                    // a vocabulary-only dataset: keys declared, no data
                    let r = guarded(std::panic::AssertUnwindSafe(|| {
                        let mut set = AnnotationDataSet::new(Config::default()).with_id(t[2]);
                        for k in t[3].split(',').filter(|x| !x.is_empty()) {
                            set.insert(DataKey::new(k))?;
                        }
                        store.insert(set)
                    }));
                    return ok_or_err(r, |h| h.as_usize().to_string());
                }
                let b = AnnotationDataSetBuilder::new().with_id(t[2]);
                let r = guarded(std::panic::AssertUnwindSafe(|| store.add_dataset(b)));
                ok_or_err(r, |h| h.as_usize().to_string())
            }
            "adddata" if t.len() == 6 => {
                let mut b = AnnotationDataBuilder::new().with_dataset(BuildItem::Id(t[2].to_string())).with_key(BuildItem::Id(t[4].to_string())).with_value(parse_value(t[5]));
                if t[3] != "~" {
                    b = b.with_id(data_ref(t[3]));
                }
                let r = guarded(std::panic::AssertUnwindSafe(|| store.insert_data(b)));
                ok_or_err(r, |(s, d)| format!("{}.{}", s.as_usize(), d.as_usize()))
            }
            "annot" if t.len() >= 4 => {
                let mut b = AnnotationBuilder::new();
                if t[2] != "~" {
                    b = b.with_id(t[2]);
                }
                match parse_target(t[3]) {
                    Some(tg) => b = b.with_target(tg),
                    None => return "bad-op".into(),
                }
                for d in &t[4..] {
                    match parse_data(d) {
                        Some(db) => b = b.with_data_builder(db),
                        None => return "bad-op".into(),
                    }
                }
                let r = guarded(std::panic::AssertUnwindSafe(|| store.annotate(b)));
                ok_or_err(r, |h| h.as_usize().to_string())
            }
            // `st batch id^target^data… …`: AnnotationStore::annotate_from_iter
            "batch" if t.len() >= 3 => {
                let mut builders = vec![];
                for item in &t[2..] {
                    let f: Vec<&str> = item.split('^').collect();
                    if f.len() < 2 { return "bad-op".into(); }
                    let mut b = AnnotationBuilder::new();
                    if f[0] != "~" { b = b.with_id(f[0]); }
                    match parse_target(f[1]) { Some(tg) => b = b.with_target(tg), None => return "bad-op".into() }
                    for d in &f[2..] { match parse_data(d) { Some(db) => b = b.with_data_builder(db), None => return "bad-op".into() } }
                    builders.push(b);
                }
                let r = guarded(std::panic::AssertUnwindSafe(|| store.annotate_from_iter(builders.into_iter())));
                ok_or_err(r, |hs| hs.iter().map(|h| h.as_usize().to_string()).collect::<Vec<_>>().join(","))
            }
            // `st protect text|checksum|both|auto`: AnnotationStore::protect_text
            "protect" if t.len() == 3 => {
                let mode = match t[2] { "text" => TextValidationMode::Text, "checksum" => TextValidationMode::Checksum, "both" => TextValidationMode::Both, _ => TextValidationMode::Auto };
                let r = guarded(std::panic::AssertUnwindSafe(|| store.protect_text(mode)));
                ok_or_err(r, |_| "-".into())
            }
            // `st annotval <id> <resource> <b> <e> text|checksum`: an annotation on resource[b..e) that already carries the
            // validation datum (in the text-validation dataset) a protected store would hold for that text
            "annotval" if t.len() == 7 => {
                let (b, e): (usize, usize) = (t[4].parse().unwrap_or(0), t[5].parse().unwrap_or(0));
                let txt: String = store.resource(t[3]).map(|r| r.text().chars().skip(b).take(e.saturating_sub(b)).collect()).unwrap_or_default();
                let (key, val) = if t[6] == "text" { ("text", txt.clone()) } else { use sha1::{Digest, Sha1}; let mut h = Sha1::new(); h.update(txt.as_bytes()); ("checksum", h.finalize().iter().map(|x| format!("{:02x}", x)).collect::<String>()) };
                let bld = AnnotationBuilder::new().with_id(t[2].to_string()).with_target(SelectorBuilder::textselector(t[3].to_string(), Offset::simple(b, e))).with_data("https://w3id.org/stam/extensions/stam-textvalidation/", key, val);
                let r = guarded(std::panic::AssertUnwindSafe(|| store.annotate(bld)));
                ok_or_err(r, |h| h.as_usize().to_string())
            }
            "rmann" if t.len() == 3 => {
                let r = guarded(std::panic::AssertUnwindSafe(|| match t[2].strip_prefix('#') {
                    Some(h) => store.remove_annotation(AnnotationHandle::new(h.parse().unwrap_or(usize::MAX >> 40))),
                    None => store.remove_annotation(t[2]),
                }));
                ok_or_err(r, |_| "-".into())
            }
            "rmdata" if t.len() == 5 => {
                let strict = t[4] == "1";
                let r = guarded(std::panic::AssertUnwindSafe(|| match t[3].strip_prefix('#') {
                    Some(h) => store.remove_data(t[2], AnnotationDataHandle::new(h.parse().unwrap_or(usize::MAX >> 40)), strict),
                    None => store.remove_data(t[2], t[3], strict),
                }));
                ok_or_err(r, |_| "-".into())
            }
            "rmkey" if t.len() == 5 => {
                let strict = t[4] == "1";
                let r = guarded(std::panic::AssertUnwindSafe(|| store.remove_key(t[2], t[3], strict)));
                ok_or_err(r, |_| "-".into())
            }
            "rmres" if t.len() == 3 => ok_or_err(guarded(std::panic::AssertUnwindSafe(|| store.remove_resource(t[2]))), |_| "-".into()),
            "rmset" if t.len() == 3 => ok_or_err(guarded(std::panic::AssertUnwindSafe(|| store.remove_dataset(t[2]))), |_| "-".into()),
            "finddata" if t.len() >= 5 => {
                // C10: find_data on the store (set "*" = any set, key "*" = any key), operator in prefix tokens
                let mut pos = 4;
                let op = match crate::fam::data::parse_op(&t, &mut pos) {
                    Some(o) => o,
                    None => return "bad-op".into(),
                };
                let r = guarded(std::panic::AssertUnwindSafe(|| {
                    let it: Vec<(usize, usize)> = match (t[2], t[3]) {
                        ("*", "*") => store.find_data(false, false, op).map(|d| (d.set().handle().as_usize(), d.handle().as_usize())).collect(),
                        ("*", k) => store.find_data(false, k, op).map(|d| (d.set().handle().as_usize(), d.handle().as_usize())).collect(),
                        (s, "*") => store.find_data(s, false, op).map(|d| (d.set().handle().as_usize(), d.handle().as_usize())).collect(),
                        (s, k) => store.find_data(s, k, op).map(|d| (d.set().handle().as_usize(), d.handle().as_usize())).collect(),
                    };
                    it
                }));
                match r {
                    Ok(v) => if v.is_empty() { "-".into() } else { v.iter().map(|(s, d)| format!("{}.{}", s, d)).collect::<Vec<_>>().join(",") },
                    Err(m) => format!("panic:{}", m.chars().take(60).collect::<String>()),
                }
            }
            "resolve" if t.len() == 4 => {
                // C03: look a public identifier up through the API; answer = handle of the item found
                let id = unhex_s(t[3]);
                let idr = id.as_str();
                let kind: Vec<&str> = t[2].split(':').collect();
                let r = guarded(std::panic::AssertUnwindSafe(|| match kind[0] {
                    "ann" => store.annotation(idr).map(|x| x.handle().as_usize()),
                    "res" => store.resource(idr).map(|x| x.handle().as_usize()),
                    "set" => store.dataset(idr).map(|x| x.handle().as_usize()),
                    "key" => store.dataset(kind[1]).and_then(|s| s.key(idr).map(|x| x.handle().as_usize())),
                    _ => store.dataset(kind[1]).and_then(|s| s.annotationdata(idr).map(|x| x.handle().as_usize())),
                }));
                match r {
                    Ok(Some(h)) => format!("h{}", h),
                    Ok(None) => "none".into(),
                    Err(m) => format!("panic:{}", m.chars().take(60).collect::<String>()),
                }
            }
            "stripann" => {
                store.strip_annotation_ids();
                "ok -".into()
            }
            "stripdata" => {
                store.strip_data_ids();
                "ok -".into()
            }
            "reindex" => {
                let old = std::mem::replace(store, new_store());
                match guarded(std::panic::AssertUnwindSafe(|| old.reindex())) {
                    Ok(st) => {
                        *store = st;
                        "ok -".into()
                    }
                    Err(m) => format!("panic:{}", m.chars().take(60).collect::<String>()),
                }
            }
            "obs" => match guarded(std::panic::AssertUnwindSafe(|| observe(store))) {
                Ok(s) => s,
                Err(m) => format!("panic:{}", m.chars().take(70).collect::<String>()),
            },
            _ => "bad-op".into(),
        }
    }
}

/// The full observation of C01: every item, every lookup of `observe_at`, through the public API.
pub fn observe(store: &AnnotationStore) -> String {
    let mut out: Vec<String> = vec![];
    let (aslots, rslots, sslots) = store.verif_dump_slots();
    for (h, live) in aslots.iter().enumerate() {
        if !*live {
            out.push(format!("A{}x", h));
            continue;
        }
        let a = store.annotation(AnnotationHandle::new(h)).expect("live annotation");
        let sels: Vec<String> = a.textselections().map(|t| format!("{}.{}-{}", t.resource().handle().as_usize(), t.begin(), t.end())).collect();
        out.push(format!(
            "A{}[{}]({})(d={})(t={})(by={})(in={})",
            h,
            a.id().unwrap_or("~"),
            show_target(store, a.as_ref().target()),
            { let v: Vec<String> = a.data().map(|d| format!("{}.{}", d.set().handle().as_usize(), d.handle().as_usize())).collect(); if v.is_empty() { "-".into() } else { v.join(",") } },
            if sels.is_empty() { "-".into() } else { sels.join(",") },
            hl(a.annotations().map(|x| x.handle().as_usize())),
            hl(a.annotations_in_targets(AnnotationDepth::One).map(|x| x.handle().as_usize())),
        ));
    }
    for (h, live) in rslots.iter().enumerate() {
        if !*live {
            out.push(format!("R{}x", h));
            continue;
        }
        let r = store.resource(TextResourceHandle::new(h)).expect("live resource");
        let slots = r.as_ref().verif_dump_textselections();
        let mut sels: Vec<String> = vec![];
        for (th, slot) in slots.iter().enumerate() {
            match slot {
                Some((_, b, e)) => {
                    let ts = r.textselection_by_handle(TextSelectionHandle::new(th)).expect("selection");
                    sels.push(format!("{}:{}-{}:{}", th, b, e, hl(ts.annotations().map(|x| x.handle().as_usize()))));
                }
                None => sels.push(format!("{}:x", th)),
            }
        }
        out.push(format!(
            "R{}[{}]({})(a={})(m={})(s={})",
            h,
            r.id().unwrap_or("~"),
            r.textlen(),
            hl(r.annotations().map(|x| x.handle().as_usize())),
            hl(r.annotations_as_metadata().map(|x| x.handle().as_usize())),
            if sels.is_empty() { "-".into() } else { sels.join("/") },
        ));
    }
    for (h, live) in sslots.iter().enumerate() {
        if !*live {
            out.push(format!("D{}x", h));
            continue;
        }
        let s = store.dataset(AnnotationDataSetHandle::new(h)).expect("live dataset");
        let (kslots, dslots) = s.as_ref().verif_dump_slots();
        let mut keys: Vec<String> = vec![];
        for (kh, kl) in kslots.iter().enumerate() {
            if !*kl {
                keys.push(format!("{}:x", kh));
                continue;
            }
            let k = s.key(DataKeyHandle::new(kh)).expect("live key");
            keys.push(format!(
                "{}:{}:{}:{}:{}",
                kh,
                k.id().unwrap_or("~"),
                hl(k.data().map(|d| d.handle().as_usize())),
                hl(k.annotations().map(|x| x.handle().as_usize())),
                hl(k.annotations_as_metadata().map(|x| x.handle().as_usize())),
            ));
        }
        let mut data: Vec<String> = vec![];
        for (dh, dl) in dslots.iter().enumerate() {
            if !*dl {
                data.push(format!("{}:x", dh));
                continue;
            }
            let d = s.annotationdata(AnnotationDataHandle::new(dh)).expect("live data");
            data.push(format!(
                "{}:{}:{}:{}:{}:{}",
                dh,
                d.id().unwrap_or("~"),
                d.key().handle().as_usize(),
                show_value(d.value()),
                hl(d.annotations().map(|x| x.handle().as_usize())),
                hl(d.annotations_as_metadata().map(|x| x.handle().as_usize())),
            ));
        }
        out.push(format!(
            "D{}[{}](m={})(k={})(v={})",
            h,
            s.id().unwrap_or("~"),
            hl(s.annotations().map(|x| x.handle().as_usize())),
            if keys.is_empty() { "-".into() } else { keys.join("/") },
            if data.is_empty() { "-".into() } else { data.join("/") },
        ));
    }
    let tc = store.index_totalcount();
    out.push(format!("N={},{},{},{},{},{},{}", tc.0, tc.1, tc.2, tc.3, tc.4, tc.6, tc.7));
    out.join(" ")
}

// ---------------------------------------------------------------------------------------------
// independent oracles on the implementation
// ---------------------------------------------------------------------------------------------

/// forward keys of an annotation, from its own target and data only
#[derive(Clone, Debug, PartialEq, Eq, PartialOrd, Ord)]
pub enum FKey {
    Data(usize, usize),
    TSel(usize, usize),
    ResMeta(usize),
    SetMeta(usize),
    Ann(usize),
    KeyMeta(usize, usize),
    DataMeta(usize, usize),
}

pub fn forward_keys(store: &AnnotationStore, a: &Annotation) -> Vec<FKey> {
    let mut v = vec![];
    for (s, d) in a.raw_data() {
        v.push(FKey::Data(s.as_usize(), d.as_usize()));
    }
    for sel in a.target().iter(store, false) {
        match sel.as_ref() {
            Selector::ResourceSelector(r) => v.push(FKey::ResMeta(r.as_usize())),
            Selector::TextSelector(r, t, _) => v.push(FKey::TSel(r.as_usize(), t.as_usize())),
            Selector::AnnotationSelector(x, None) => v.push(FKey::Ann(x.as_usize())),
            Selector::AnnotationSelector(x, Some((r, t, _))) => {
                v.push(FKey::Ann(x.as_usize()));
                v.push(FKey::TSel(r.as_usize(), t.as_usize()));
            }
            Selector::DataSetSelector(s) => v.push(FKey::SetMeta(s.as_usize())),
            Selector::DataKeySelector(s, k) => v.push(FKey::KeyMeta(s.as_usize(), k.as_usize())),
            Selector::AnnotationDataSelector(s, d) => v.push(FKey::DataMeta(s.as_usize(), d.as_usize())),
            _ => {}
        }
    }
    v
}

/// C01/C02/C03/C10 invariants checked directly on the implementation (raw index dumps, not masked by
/// handle-skipping iterators). Returns (signature, detail) for every breach.
pub fn consistency(store: &AnnotationStore) -> Vec<(String, String)> {
    let mut bad: Vec<(String, String)> = vec![];
    let (aslots, rslots, sslots) = store.verif_dump_slots();
    // expected reverse index from forward references
    let mut expect: BTreeMap<FKey, Vec<usize>> = BTreeMap::new();
    let mut live: Vec<usize> = vec![];
    for (h, l) in aslots.iter().enumerate() {
        if !*l {
            continue;
        }
        live.push(h);
        let a: &Annotation = store.get(AnnotationHandle::new(h)).expect("live");
        let mut seen = BTreeSet::new();
        for k in forward_keys(store, a) {
            // dangling forward references (C02)
            let resolves = match &k {
                FKey::Data(s, d) | FKey::DataMeta(s, d) => sslots.get(*s) == Some(&true) && store.dataset(AnnotationDataSetHandle::new(*s)).map(|x| x.as_ref().verif_dump_slots().1.get(*d) == Some(&true)).unwrap_or(false),
                FKey::KeyMeta(s, kk) => sslots.get(*s) == Some(&true) && store.dataset(AnnotationDataSetHandle::new(*s)).map(|x| x.as_ref().verif_dump_slots().0.get(*kk) == Some(&true)).unwrap_or(false),
                FKey::TSel(r, t) => rslots.get(*r) == Some(&true) && store.resource(TextResourceHandle::new(*r)).map(|x| matches!(x.as_ref().verif_dump_textselections().get(*t), Some(Some(_)))).unwrap_or(false),
                FKey::ResMeta(r) => rslots.get(*r) == Some(&true),
                FKey::SetMeta(s) => sslots.get(*s) == Some(&true),
                FKey::Ann(x) => aslots.get(*x) == Some(&true),
            };
            if !resolves {
                bad.push((format!("dangling/{}", kind_of(&k)), format!("annotation {} refers to {:?} which no longer exists", h, k)));
            }
            if seen.insert(k.clone()) {
                expect.entry(k).or_default().push(h);
            }
        }
        // the public forward navigation: what the annotation references as metadata, each item once, in handle order
        if let Some(item) = store.annotation(AnnotationHandle::new(h)) {
            let want_sets: Vec<usize> = seen.iter().filter_map(|k| if let FKey::SetMeta(s) = k { Some(*s) } else { None }).collect::<BTreeSet<_>>().into_iter().collect();
            let got_sets: Vec<usize> = item.datasets().map(|d| d.handle().as_usize()).collect();
            if got_sets != want_sets { bad.push(("forward/datasets".into(), format!("annotation {} references datasets {:?} through DataSetSelectors, annotation.datasets() gives {:?}", h, want_sets, got_sets))); }
            // (resources_as_metadata() follows annotation selectors to the annotations targeted, by design: not compared here)
        }
    }
    // actual reverse index
    let mut actual: BTreeMap<FKey, Vec<usize>> = BTreeMap::new();
    for (map, a, b, v) in store.verif_dump_relations() {
        if v.is_empty() {
            continue;
        }
        let k = match map {
            "dataset_data_annotation_map" => FKey::Data(a, b),
            "textrelationmap" => FKey::TSel(a, b),
            "resource_annotation_metamap" => FKey::ResMeta(a),
            "dataset_annotation_metamap" => FKey::SetMeta(a),
            "annotation_annotation_map" => FKey::Ann(a),
            "key_annotation_metamap" => FKey::KeyMeta(a, b),
            _ => FKey::DataMeta(a, b),
        };
        actual.insert(k, v);
    }
    let keys: BTreeSet<FKey> = expect.keys().chain(actual.keys()).cloned().collect();
    for k in keys {
        let e = expect.get(&k).cloned().unwrap_or_default();
        let a = actual.get(&k).cloned().unwrap_or_default();
        if e != a {
            let what = if a.windows(2).any(|w| w[0] == w[1]) || { let mut s = a.clone(); s.sort(); s.dedup(); s.len() != a.len() } {
                "twice"
            } else if a.iter().any(|x| !e.contains(x)) {
                if a.iter().any(|x| !live.contains(x)) { "stale" } else { "extra" }
            } else if e.iter().any(|x| !a.contains(x)) {
                "missing"
            } else {
                "order"
            };
            bad.push((format!("index/{}/{}", kind_of(&k), what), format!("{:?}: index has {:?}, forward references give {:?}", k, a, e)));
        }
    }
    // the counting / membership shortcuts of the API answer what the iterators they abbreviate answer (C01)
    {
        let sc = guarded(std::panic::AssertUnwindSafe(|| -> Vec<(String, String)> {
            let mut bad: Vec<(String, String)> = vec![];
            let hs = |it: &mut dyn Iterator<Item = ResultItem<Annotation>>| -> Vec<usize> { it.map(|x| x.handle().as_usize()).collect() };
            let mut total_by_map: BTreeMap<&'static str, usize> = BTreeMap::new();
            for (map, _, _, v) in store.verif_dump_relations() { *total_by_map.entry(map).or_default() += v.len(); }
            let t = store.index_totalcount();
            let got_tot = [("dataset_data_annotation_map", t.0), ("textrelationmap", t.1), ("resource_annotation_metamap", t.2), ("dataset_annotation_metamap", t.3), ("annotation_annotation_map", t.4), ("key_annotation_metamap", t.6), ("data_annotation_metamap", t.7)];
            for (m, n) in got_tot { if total_by_map.get(m).copied().unwrap_or(0) != n { bad.push(("shortcut/index_totalcount".into(), format!("{}: index_totalcount says {}, the index holds {}", m, n, total_by_map.get(m).copied().unwrap_or(0)))); } }
            for a in store.annotations() {
                let by = hs(&mut a.annotations());
                let byh: Vec<usize> = a.annotations_handles().iter().map(|h| h.as_usize()).collect();
                if by != byh { bad.push(("shortcut/annotations_handles".into(), format!("annotation {}: annotations() {:?}, annotations_handles() {:?}", a.handle().as_usize(), by, byh))); }
                // what the annotation targets, itself or through the annotations it targets (an AnnotationSelector passes
                // through to its target's targets, as it does for text)
                let mut fk: Vec<FKey> = vec![];
                let mut todo = vec![a.handle().as_usize()];
                let mut seen_a: BTreeSet<usize> = BTreeSet::new();
                while let Some(h) = todo.pop() {
                    if !seen_a.insert(h) { continue; }
                    if let Ok(x) = store.get(AnnotationHandle::new(h)) { let x: &Annotation = x; for k in forward_keys(store, x) { if let FKey::Ann(t) = k { todo.push(t); } fk.push(k); } }
                }
                let want_dm: BTreeSet<(usize, usize)> = fk.iter().filter_map(|k| if let FKey::DataMeta(s_, d) = k { Some((*s_, *d)) } else { None }).collect();
                let got_dm: BTreeSet<(usize, usize)> = a.data_as_metadata().map(|d| (d.set().handle().as_usize(), d.handle().as_usize())).collect();
                if want_dm != got_dm { bad.push(("shortcut/data_as_metadata".into(), format!("annotation {}: target names {:?}, data_as_metadata() {:?}", a.handle().as_usize(), want_dm, got_dm))); }
                let want_km: BTreeSet<(usize, usize)> = fk.iter().filter_map(|k| if let FKey::KeyMeta(s_, d) = k { Some((*s_, *d)) } else { None }).collect();
                let got_km: BTreeSet<(usize, usize)> = a.keys_as_metadata().map(|d| (d.set().handle().as_usize(), d.handle().as_usize())).collect();
                if want_km != got_km { bad.push(("shortcut/keys_as_metadata".into(), format!("annotation {}: target names {:?}, keys_as_metadata() {:?}", a.handle().as_usize(), want_km, got_km))); }
                for d in a.data() { if !a.has_data(&d) { bad.push(("shortcut/has_data".into(), format!("annotation {} carries {}.{} but has_data() says no", a.handle().as_usize(), d.set().handle().as_usize(), d.handle().as_usize()))); } }
                for t in a.textselections() { if t.annotations_len() != t.annotations().count() { bad.push(("shortcut/textselection.annotations_len".into(), format!("{}-{}: annotations_len() {}, annotations() {}", t.begin(), t.end(), t.annotations_len(), t.annotations().count()))); } }
            }
            for ds in store.datasets() {
                for d in ds.data() {
                    if d.annotations_len() != d.annotations().count() { bad.push(("shortcut/data.annotations_len".into(), format!("data {}.{}: annotations_len() {}, annotations() {}", ds.handle().as_usize(), d.handle().as_usize(), d.annotations_len(), d.annotations().count()))); }
                    for a in store.annotations().take(6) { let carries = a.data().any(|x| x.handle() == d.handle() && x.set().handle() == d.set().handle()); if a.has_data(&d) != carries { bad.push(("shortcut/has_data".into(), format!("annotation {} / data {}.{}: has_data() {}, data() {}", a.handle().as_usize(), ds.handle().as_usize(), d.handle().as_usize(), a.has_data(&d), carries))); } }
                    for r in store.resources() {
                        let want: Vec<usize> = r.annotations_as_metadata().filter(|x| x.data().any(|y| y.handle() == d.handle() && y.set().handle() == d.set().handle())).map(|x| x.handle().as_usize()).collect();
                        let got: Vec<usize> = r.annotations_by_metadata_about(d.clone()).map(|x| x.handle().as_usize()).collect();
                        if want != got || r.has_metadata_about(d.clone()) != !want.is_empty() { bad.push(("shortcut/annotations_by_metadata_about".into(), format!("resource {} / data {}.{}: {:?} vs {:?}, has_metadata_about {}", r.handle().as_usize(), ds.handle().as_usize(), d.handle().as_usize(), want, got, r.has_metadata_about(d.clone())))); }
                    }
                }
                for k in ds.keys() {
                    // annotations_count: the annotations that use the key through their data (annotations() of the key)
                    let n = k.annotations().count();
                    if k.annotations_count() != n { bad.push(("shortcut/key.annotations_count".into(), format!("key {}.{}: annotations_count() {}, annotations() {}", ds.handle().as_usize(), k.handle().as_usize(), k.annotations_count(), n))); }
                }
            }
            bad
        }));
        match sc { Ok(v) => bad.extend(v), Err(p) => bad.push(("shortcut/panics".into(), p)) }
    }
    // id maps (C03): exactly the live items that carry an id
    let mut want_ids: Vec<(&'static str, String, usize)> = vec![];
    for h in &live {
        let a: &Annotation = store.get(AnnotationHandle::new(*h)).unwrap();
        if let Some(id) = a.id() { want_ids.push(("annotation", id.to_string(), *h)); }
    }
    for (h, l) in rslots.iter().enumerate() {
        if *l { if let Some(id) = store.resource(TextResourceHandle::new(h)).unwrap().id() { want_ids.push(("resource", id.to_string(), h)); } }
    }
    for (h, l) in sslots.iter().enumerate() {
        if *l { if let Some(id) = store.dataset(AnnotationDataSetHandle::new(h)).unwrap().id() { want_ids.push(("dataset", id.to_string(), h)); } }
    }
    let mut got_ids = store.verif_dump_idmaps();
    want_ids.sort();
    got_ids.sort();
    if want_ids != got_ids {
        bad.push(("idmap/store".into(), format!("id maps {:?}, live items with ids {:?}", got_ids, want_ids)));
    }
    // datasets: key->data index and id maps (C10)
    for (h, l) in sslots.iter().enumerate() {
        if !*l { continue; }
        let s = store.dataset(AnnotationDataSetHandle::new(h)).unwrap();
        let (kslots, dslots) = s.as_ref().verif_dump_slots();
        let mut want: BTreeMap<usize, Vec<usize>> = BTreeMap::new();
        let mut want_ids: Vec<(&'static str, String, usize)> = vec![];
        let mut seen_kv: BTreeSet<(usize, String)> = BTreeSet::new();
        for (dh, dl) in dslots.iter().enumerate() {
            if !*dl { continue; }
            let d = s.annotationdata(AnnotationDataHandle::new(dh)).unwrap();
            let kh = d.key().handle().as_usize();
            if kslots.get(kh) != Some(&true) {
                bad.push(("dangling/data-key".into(), format!("data {}.{} has removed key {}", h, dh, kh)));
            }
            want.entry(kh).or_default().push(dh);
            if let Some(id) = d.id() { want_ids.push(("data", id.to_string(), dh)); }
            else if !seen_kv.insert((kh, show_value(d.value()))) {
                bad.push(("vocabulary/duplicate-data".into(), format!("set {} holds two id-less data items with key {} value {}", h, kh, show_value(d.value()))));
            }
        }
        let mut key_ids: BTreeSet<String> = BTreeSet::new();
        for (kh, kl) in kslots.iter().enumerate() {
            if !*kl { continue; }
            let k = s.key(DataKeyHandle::new(kh)).unwrap();
            let id = k.id().unwrap_or("~").to_string();
            want_ids.push(("key", id.clone(), kh));
            if !key_ids.insert(id.clone()) {
                bad.push(("vocabulary/duplicate-key".into(), format!("set {} has key {:?} twice", h, id)));
            }
        }
        let got: BTreeMap<usize, Vec<usize>> = s.as_ref().verif_dump_key_data_map().into_iter().filter(|(_, v)| !v.is_empty()).collect();
        if got != want {
            bad.push(("index/key-data".into(), format!("set {}: key->data index {:?}, data items give {:?}", h, got, want)));
        }
        let mut got_ids = s.as_ref().verif_dump_idmaps();
        want_ids.sort();
        got_ids.sort();
        if want_ids != got_ids {
            bad.push(("idmap/dataset".into(), format!("set {}: id maps {:?}, live items {:?}", h, got_ids, want_ids)));
        }
    }
    // resources: position index <-> selections
    for (h, l) in rslots.iter().enumerate() {
        if !*l { continue; }
        let r = store.resource(TextResourceHandle::new(h)).unwrap();
        let sels = r.as_ref().verif_dump_textselections();
        let mut want_b: BTreeMap<usize, Vec<(usize, usize)>> = BTreeMap::new();
        let mut want_e: BTreeMap<usize, Vec<(usize, usize)>> = BTreeMap::new();
        let mut ranges = BTreeSet::new();
        for (th, s) in sels.iter().enumerate() {
            if let Some((hh, b, e)) = s {
                if *hh != th { bad.push(("posindex/handle".into(), format!("resource {} selection slot {} carries handle {}", h, th, hh))); }
                if !ranges.insert((*b, *e)) { bad.push(("posindex/duplicate-selection".into(), format!("resource {} has range {}-{} twice", h, b, e))); }
                want_b.entry(*b).or_default().push((*e, th));
                want_e.entry(*e).or_default().push((*b, th));
            }
        }
        let mut got_b: BTreeMap<usize, Vec<(usize, usize)>> = BTreeMap::new();
        let mut got_e: BTreeMap<usize, Vec<(usize, usize)>> = BTreeMap::new();
        for (pos, _, b2e, e2b) in r.as_ref().verif_dump_positionindex() {
            if !b2e.is_empty() { got_b.insert(pos, b2e); }
            if !e2b.is_empty() { got_e.insert(pos, e2b); }
        }
        if want_b != got_b || want_e != got_e {
            bad.push(("posindex/entries".into(), format!("resource {}: index {:?}/{:?}, selections give {:?}/{:?}", h, got_b, got_e, want_b, want_e)));
        }
    }
    bad
}

fn kind_of(k: &FKey) -> &'static str {
    match k {
        FKey::Data(..) => "data",
        FKey::TSel(..) => "text",
        FKey::ResMeta(..) => "resource-meta",
        FKey::SetMeta(..) => "dataset-meta",
        FKey::Ann(..) => "annotation",
        FKey::KeyMeta(..) => "key-meta",
        FKey::DataMeta(..) => "data-meta",
    }
}

/// live annotation handles with their (target, data) rendering
fn live_annotations(store: &AnnotationStore) -> BTreeMap<usize, (String, Vec<(usize, usize)>)> {
    let mut m = BTreeMap::new();
    for (h, l) in store.verif_dump_slots().0.iter().enumerate() {
        if *l {
            let a: &Annotation = store.get(AnnotationHandle::new(h)).unwrap();
            m.insert(h, (show_target(store, a.target()), a.raw_data().iter().map(|(s, d)| (s.as_usize(), d.as_usize())).collect()));
        }
    }
    m
}

/// expected set of annotations removed by a removal op (documentation semantics), computed before the op
fn expected_removed(store: &AnnotationStore, line: &str) -> Option<(BTreeSet<usize>, BTreeMap<usize, Vec<(usize, usize)>>)> {
    let t: Vec<&str> = line.split_whitespace().collect();
    let (aslots, _, _) = store.verif_dump_slots();
    let mut fwd: BTreeMap<usize, Vec<FKey>> = BTreeMap::new();
    for (h, l) in aslots.iter().enumerate() {
        if *l {
            fwd.insert(h, forward_keys(store, store.get(AnnotationHandle::new(h)).unwrap()));
        }
    }
    let mut seeds: BTreeSet<usize> = BTreeSet::new();
    let mut modified: BTreeMap<usize, Vec<(usize, usize)>> = BTreeMap::new();
    match t[1] {
        "rmann" => {
            let h = match t[2].strip_prefix('#') {
                Some(h) => h.parse().ok()?,
                None => store.annotation(t[2])?.handle().as_usize(),
            };
            if !fwd.contains_key(&h) { return None; }
            seeds.insert(h);
        }
        "rmres" => {
            let r = store.resource(t[2])?.handle().as_usize();
            for (h, ks) in &fwd {
                if ks.iter().any(|k| matches!(k, FKey::TSel(x, _) | FKey::ResMeta(x) if *x == r)) { seeds.insert(*h); }
            }
        }
        "rmset" => {
            let s = store.dataset(t[2])?.handle().as_usize();
            for (h, ks) in &fwd {
                if ks.iter().any(|k| matches!(k, FKey::Data(x, _) | FKey::SetMeta(x) | FKey::KeyMeta(x, _) | FKey::DataMeta(x, _) if *x == s)) { seeds.insert(*h); }
            }
        }
        "rmdata" | "rmkey" => {
            let set = store.dataset(t[2])?;
            let s = set.handle().as_usize();
            let strict = t[4] == "1";
            let mut datas: Vec<usize> = vec![];
            let mut key: Option<usize> = None;
            if t[1] == "rmdata" {
                let d = match t[3].strip_prefix('#') {
                    Some(h) => set.annotationdata(AnnotationDataHandle::new(h.parse().ok()?))?,
                    None => set.annotationdata(t[3])?,
                };
                datas.push(d.handle().as_usize());
            } else {
                let k = set.key(t[3])?;
                key = Some(k.handle().as_usize());
                datas = k.data().map(|d| d.handle().as_usize()).collect();
            }
            for (h, ks) in &fwd {
                let a: &Annotation = store.get(AnnotationHandle::new(*h)).unwrap();
                let mine: Vec<(usize, usize)> = a.raw_data().iter().map(|(x, y)| (x.as_usize(), y.as_usize())).collect();
                let hit = mine.iter().any(|(x, y)| *x == s && datas.contains(y));
                if ks.iter().any(|k| matches!(k, FKey::DataMeta(x, y) if *x == s && datas.contains(y))) || key.map(|kk| ks.contains(&FKey::KeyMeta(s, kk))).unwrap_or(false) {
                    seeds.insert(*h);
                } else if hit {
                    let rest: Vec<(usize, usize)> = mine.iter().filter(|(x, y)| !(*x == s && datas.contains(y))).cloned().collect();
                    if strict || rest.is_empty() { seeds.insert(*h); } else { modified.insert(*h, rest); }
                }
            }
        }
        _ => return None,
    }
    // transitive closure through annotations on annotations
    let mut closure = seeds.clone();
    loop {
        let mut grew = false;
        for (h, ks) in &fwd {
            if !closure.contains(h) && ks.iter().any(|k| matches!(k, FKey::Ann(x) if closure.contains(x))) {
                closure.insert(*h);
                grew = true;
            }
        }
        if !grew { break; }
    }
    Some((closure, modified))
}

// ---------------------------------------------------------------------------------------------
// script generation
// ---------------------------------------------------------------------------------------------

pub struct Gen {
    pub rng: Rng,
    /// draw values of every type (serialisation families)
    pub rich: bool,
    /// give every annotation and every data item a public id (no temporary ids in serialisations)
    pub force_ids: bool,
    res: Vec<(String, usize)>,
    sets: Vec<String>,
    keys: Vec<String>,
    anns: Vec<String>, // ids or #handles of annotations created so far
    nann: usize,
    data_ids: Vec<(String, String)>,
    /// give some annotations a public identifier in the shape of a temporary one (`!A7`): only where the store itself is
    /// examined; the serialisation formats reserve that shape (a known finding of C05/C15)
    pub temp_shaped_ids: bool,
    next_id: usize,
}

impl Gen {
    pub fn new(seed: u64) -> Self {
        Gen { rng: Rng::new(seed), rich: false, force_ids: false, res: vec![], sets: vec![], keys: vec![], anns: vec![], nann: 0, data_ids: vec![], next_id: 0, temp_shaped_ids: false }
    }
    fn pick_res(&mut self) -> String {
        if self.res.is_empty() || self.rng.chance(6) { "nores".into() } else { self.rng.pick(&self.res).0.clone() }
    }
    fn pick_set(&mut self) -> String {
        if self.rng.chance(5) { return "noset".into(); }
        if self.sets.is_empty() || self.rng.chance(10) { format!("s{}", self.rng.below(3)) } else { self.rng.pick(&self.sets).clone() }
    }
    fn pick_ann(&mut self) -> String {
        if self.anns.is_empty() || self.rng.chance(6) { "noann".into() } else { self.rng.pick(&self.anns).clone() }
    }
    fn cursors(&mut self, n: usize) -> (Cursor, Cursor) {
        let invalid = self.rng.chance(8);
        let b = self.rng.below(n + 1);
        let e = if invalid { self.rng.below(n + 3) } else { b + self.rng.below(n - b + 1) };
        let (b, e) = if invalid && self.rng.chance(50) { (e.max(b), b.min(e).saturating_sub(1)) } else { (b, e) };
        let c = |rng: &mut Rng, p: usize| if rng.chance(25) { Cursor::EndAligned(p as isize - n as isize) } else { Cursor::BeginAligned(p) };
        (c(&mut self.rng, b), c(&mut self.rng, e))
    }
    fn simple_target(&mut self, kinds: &[u8]) -> String {
        match *self.rng.pick(kinds) {
            0 => format!("R:{}", self.pick_res()),
            1 => {
                let r = self.pick_res();
                let n = self.res.iter().find(|x| x.0 == r).map(|x| x.1).unwrap_or(5);
                // favour a few hot offsets so that selections are shared between annotations
                let (c1, c2) = if self.rng.chance(45) { let b = self.rng.below(3).min(n); (Cursor::BeginAligned(b), Cursor::BeginAligned((b + 2).min(n))) } else { self.cursors(n) };
                format!("T:{}:{}:{}", r, cur_str(&c1), cur_str(&c2))
            }
            2 => format!("A:{}", self.pick_ann()),
            3 => {
                let (c1, c2) = self.cursors(2);
                format!("AO:{}:{}:{}", self.pick_ann(), cur_str(&c1), cur_str(&c2))
            }
            4 => format!("S:{}", self.pick_set()),
            5 => format!("K:{}:{}", self.pick_set(), if self.rng.chance(8) { "nokey".to_string() } else { format!("k{}", self.rng.below(3)) }),
            _ => {
                if self.data_ids.is_empty() || self.rng.chance(8) { format!("D:{}:nodata", self.pick_set()) } else { let (s, d) = self.rng.pick(&self.data_ids).clone(); format!("D:{}:{}", s, d) }
            }
        }
    }
    fn target(&mut self) -> String {
        if self.res.len() >= 2 && self.rng.chance(7) {
            // several fresh, adjacent selections on one resource followed by selections on another:
            // consecutive handles per resource (the shape internal range-compression looks for)
            let kind = *self.rng.pick(&['M', 'C', 'X']);
            let a = self.rng.below(self.res.len());
            let mut b = self.rng.below(self.res.len());
            if b == a { b = (a + 1) % self.res.len(); }
            let (ra, na) = self.res[a].clone();
            let (rb, nb) = self.res[b].clone();
            let mut subs = vec![];
            let start = self.rng.below(3);
            for i in 0..(2 + self.rng.below(2)) {
                let x = (start + i).min(na);
                subs.push(format!("T:{}:b{}:b{}", ra, x, (x + 1).min(na)));
            }
            for i in 0..(1 + self.rng.below(2)) {
                let x = (start + i + self.rng.below(2)).min(nb);
                subs.push(format!("T:{}:b{}:b{}", rb, x, (x + 1 + self.rng.below(2)).min(nb)));
            }
            return format!("{}[{}]", kind, subs.join(";"));
        }
        if self.anns.len() >= 2 && self.rng.chance(5) {
            // annotation selectors WITH offsets on annotations created one after the other (consecutive handles: the
            // shape the range-compression of annotation selectors looks for); whole-text offsets mixed with partial ones
            let kind = *self.rng.pick(&['M', 'C', 'X']);
            let i = self.rng.below(self.anns.len() - 1);
            let k = (2 + self.rng.below(2)).min(self.anns.len() - i);
            let offs = ["b0:e0", "b0:e0", "b0:e-1", "b0:b1", "b1:e0", "e-1:e0"];
            let subs: Vec<String> = (0..k).map(|j| format!("AO:{}:{}", self.anns[i + j], if j == 0 && self.rng.chance(60) { "b0:e0" } else { *self.rng.pick(&offs) })).collect();
            return format!("{}[{}]", kind, subs.join(";"));
        }
        if self.rng.chance(72) {
            return self.simple_target(&[0, 1, 1, 1, 1, 2, 2, 3, 3, 4, 5, 6]);
        }
        let kind = *self.rng.pick(&['M', 'C', 'X']);
        // homogeneous / canonically ordered mixes (see DESIGN: the sub-selector comparator)
        let family: &[u8] = match self.rng.below(7) {
            0 | 1 => &[1],
            2 => &[1, 3],
            3 => &[0],
            4 => &[2],
            5 => &[1, 0, 4],
            _ => &[5, 6, 4],
        };
        let n = 1 + self.rng.below(4);
        let mut subs: Vec<String> = (0..n).map(|_| self.simple_target(family)).collect();
        if self.rng.chance(12) && !subs.is_empty() {
            let dup = subs[0].clone();
            subs.push(dup); // the same item twice
        }
        if self.rng.chance(5) {
            // nested complex selector: must be refused, and refused before anything of it is resolved
            let nested = if self.rng.chance(40) || self.res.is_empty() { "M[R:r0]".to_string() } else {
                let (r, n) = self.rng.pick(&self.res).clone();
                let k = *self.rng.pick(&['M', 'C', 'X']);
                let x = self.rng.below(n.max(1));
                let y = (x + 1 + self.rng.below(3)).min(n);
                let z = (y + self.rng.below(2)).min(n);
                format!("{}[T:{}:b{}:b{}|T:{}:b{}:b{}]", k, r, x, y, r, z, (z + 1).min(n))
            };
            if self.rng.chance(50) { subs.push(nested) } else { subs.insert(0, nested) }
        }
        format!("{}[{}]", kind, subs.join(";"))
    }
    fn data(&mut self) -> String {
        let set = self.pick_set();
        if !self.data_ids.is_empty() && self.rng.chance(15) {
            let (s, d) = self.rng.pick(&self.data_ids).clone();
            return format!("{}/~/~/{}", s, d);
        }
        if self.rng.chance(4) {
            return format!("{}/~/~/nodata", set);
        }
        let key = format!("k{}", self.rng.below(3));
        let val = match self.rng.below(if self.rich { 14 } else { 2 }) {
            0 => format!("s:v{}", self.rng.below(3)),
            1 => format!("i:{}", self.rng.below(3)),
            2 => "n".to_string(),
            3 => format!("b:{}", self.rng.below(2)),
            4 => format!("f:{}", self.rng.range(-9, 9)),
            5 => format!("d:{}{}", 1_600_000_000_000i64 + (self.rng.below(4) * 250 + self.rng.below(3) * 1000) as i64, ["", "", "@120", "@-300", "@330", "@765"][self.rng.below(6)]),
            6 => format!("l:i:{}|s:v{}|f:{}", self.rng.below(3), self.rng.below(3), self.rng.below(8)),
            7 => format!("s:{}", ["\u{e9}t\u{e9}", "\u{1F600}", "q\"uote", "back\\slash", "semi;colon", "comma,x", "tab\tx"][self.rng.below(7)].replace(' ', "_")),
            8 => format!("i:{}", -(self.rng.below(1000) as i64)),
            9 => format!("x:{}", hex(["  lead", "trail  ", " both ", "line\n", "\nline", "tab\t", " ", "\t", "two  words", "a\r\nb"][self.rng.below(10)])),
            // integers that a 64-bit float cannot hold, and the extremes
            10 => format!("i:{}", ["9007199254740993", "-9007199254740993", "9223372036854775806", "-9223372036854775807", "9223372036854775807", "-9223372036854775808", "4611686018427387905", "9007199254740992"][self.rng.below(8)]),
            11 => format!("l:i:{}|i:{}", ["9007199254740993", "-9223372036854775807"][self.rng.below(2)], self.rng.below(3)),
            _ => format!("s:v{}", self.rng.below(3)),
        };
        if self.force_ids || self.rng.chance(15) {
            self.next_id += 1;
            let id = format!("d{}", self.next_id);
            self.data_ids.push((set.clone(), id.clone()));
            format!("{}/{}/{}/{}", set, key, val, id)
        } else {
            if !self.sets.contains(&set) && set != "noset" { self.sets.push(set.clone()); }
            format!("{}/{}/{}", set, key, val)
        }
    }
    pub fn op(&mut self) -> String {
        let c = self.rng.below(100);
        if self.res.is_empty() || c < 6 {
            // (sometimes an identifier that begins like a temporary identifier of its own kind without being one)
            let id = if !self.res.is_empty() && self.rng.chance(15) { self.res[0].0.clone() } else if self.rng.chance(8) { format!("!Rome{}", self.res.len()) } else { format!("r{}", self.res.len()) };
            let n = self.rng.below(9);
            if !self.res.iter().any(|x| x.0 == id) { self.res.push((id.clone(), n)); }
            return format!("st addres {} {}", id, n);
        }
        if c < 10 {
            let id = if self.rng.chance(8) { "!Sets".to_string() } else { format!("s{}", self.rng.below(3)) };
            if !self.sets.contains(&id) { self.sets.push(id.clone()); }
            if self.rng.chance(40) {
                // a dataset that declares keys but holds no data (yet)
                let keys: Vec<String> = (0..1 + self.rng.below(3)).map(|_| format!("k{}", self.rng.below(3))).collect();
                return format!("st addset {} {}", id, keys.join(","));
            }
            return format!("st addset {}", id);
        }
        if c < 17 {
            let d = self.data();
            let p: Vec<&str> = d.split('/').collect();
            if p[1] == "~" { return format!("st adddata {} {} k0 s:v0", p[0], p[3]); }
            return format!("st adddata {} {} {} {}", p[0], p.get(3).unwrap_or(&"~"), p[1], p[2]);
        }
        if c < 72 {
            let id = if self.force_ids || self.rng.chance(70) {
                if !self.anns.is_empty() && self.rng.chance(6) { self.rng.pick(&self.anns).clone() } else if self.rng.chance(6) { format!("!Alpha{}", self.nann) } else if self.rng.chance(3) { format!("!A{}x", self.nann) } else if self.temp_shaped_ids && self.rng.chance(4) { format!("!A{}", self.nann + 3 + self.rng.below(3)) } else { format!("a{}", self.nann) }
            } else { "~".into() };
            let target = self.target();
            let nd = match self.rng.below(12) { 0..=2 => 0, 3..=7 => 1, 8..=9 => 2, 10 => 3, _ => 4 };
            let data: Vec<String> = (0..nd).map(|_| self.data()).collect();
            // (an identifier in the shape of a temporary one is looked up and removed by, but not used in targets: the store
            // model resolves references in targets by public identifier only)
            let temp_shaped = id.starts_with("!A") && id[2..].chars().all(|c| c.is_ascii_digit());
            if id != "~" && !id.starts_with('#') && !temp_shaped && !self.anns.contains(&id) { self.anns.push(id.clone()); }
            self.nann += 1;
            return format!("st annot {} {} {}", id, target, data.join(" ")).trim_end().to_string();
        }
        match self.rng.below(10) {
            // by handle, by public identifier, or by the temporary identifier of the slot (`!A3`)
            0..=3 => { let a = if self.rng.chance(20) { format!("#{}", self.rng.below(self.nann + 1)) } else if self.rng.chance(15) { format!("!A{}", self.rng.below(self.nann + 1)) } else { self.pick_ann() }; format!("st rmann {}", a) }
            4 | 5 => {
                let strict = self.rng.below(2);
                if !self.data_ids.is_empty() && self.rng.chance(50) { let (s, d) = self.rng.pick(&self.data_ids).clone(); format!("st rmdata {} {} {}", s, d, strict) }
                else { format!("st rmdata {} #{} {}", self.pick_set(), self.rng.below(4), strict) }
            }
            6 | 7 => format!("st rmkey {} k{} {}", self.pick_set(), self.rng.below(3), self.rng.below(2)),
            8 => if self.rng.chance(20) { format!("st rmres !R{}", self.rng.below(3)) } else { format!("st rmres {}", self.pick_res()) },
            _ => if self.rng.chance(20) { format!("st rmset !S{}", self.rng.below(3)) } else { format!("st rmset {}", self.pick_set()) },
        }
    }
}

/// scripted openings that set up the shapes removals are sensitive to (vocabulary-only datasets with
/// metadata annotations, shared and repeated data, diamonds of annotations on annotations, complex
/// selectors across resources); random operations follow
pub fn scenario(g: &mut Gen) -> Vec<String> {
    let mut v: Vec<String> = vec![];
    let n0 = 4 + g.rng.below(6);
    let n1 = 4 + g.rng.below(6);
    v.push(format!("st addres r0 {}", n0));
    g.res.push(("r0".into(), n0));
    let other = format!("s{}", 1 + g.rng.below(2));
    match g.rng.below(9) {
        8 => {
            // a metadata annotation reached along two paths when its referent is removed: directly (it names the
            // referent) and through an annotation on another metadata annotation of the same referent
            v.push("st adddata s0 d0 k0 s:v0".into());
            g.data_ids.push(("s0".into(), "d0".into()));
            g.sets.push("s0".into());
            let (sel, rm) = match g.rng.below(4) {
                0 => ("S:s0".to_string(), "st rmset s0".to_string()),
                1 => ("R:r0".to_string(), "st rmres r0".to_string()),
                2 => ("K:s0:k0".to_string(), format!("st rmkey s0 k0 {}", g.rng.below(2))),
                _ => ("D:s0:d0".to_string(), format!("st rmdata s0 d0 {}", g.rng.below(2))),
            };
            v.push(format!("st annot a0 {}", sel));
            v.push("st annot a1 A:a0".into());
            let depth2 = g.rng.chance(40);
            if depth2 { v.push("st annot a2 A:a1".into()); }
            let via = if depth2 { "a2" } else { "a1" };
            let kind = *g.rng.pick(&['M', 'C', 'X']);
            v.push(if g.rng.chance(50) { format!("st annot a3 {}[{};A:{}]", kind, sel, via) } else { format!("st annot a3 {}[A:{};{}]", kind, via, sel) });
            g.anns.extend(["a0".to_string(), "a1".into(), "a3".into()]);
            if depth2 { g.anns.push("a2".into()); }
            g.nann = if depth2 { 4 } else { 3 };
            if g.rng.chance(30) { v.push("st annot ~ T:r0:b0:b1 s1/k0/i:1".into()); g.nann += 1; }
            v.push(rm);
        }
        7 => {
            // a range-compressed run of text selectors followed by several dataset / key / data selectors
            v.push("st adddata s0 d0 k0 s:v0".into());
            v.push("st adddata s1 d1 k1 s:v1".into());
            g.sets.extend(["s0".to_string(), "s1".into()]);
            g.data_ids.push(("s0".into(), "d0".into()));
            g.data_ids.push(("s1".into(), "d1".into()));
            let k = 2 + g.rng.below(2);
            let mut subs: Vec<String> = (0..k).map(|i| format!("T:r0:b{}:b{}", i, i + 1)).collect();
            let tail: Vec<String> = match g.rng.below(3) {
                0 => vec!["S:s0".into(), "S:s1".into()],
                1 => vec!["K:s0:k0".into(), "K:s1:k1".into()],
                _ => vec!["D:s0:d0".into(), "D:s1:d1".into()],
            };
            subs.extend(tail);
            v.push(format!("st annot a0 {}[{}]", g.rng.pick(&['M', 'C', 'X']), subs.join(";")));
            g.anns.push("a0".into());
            g.nann = 1;
        }
        0 => {
            // vocabulary-only dataset, metadata annotation on one of its keys (own data elsewhere), annotation on that
            v.push("st addset s0 k0,k1".into());
            g.sets.push("s0".into());
            let d = if g.rng.chance(60) { format!(" {}/k2/s:v1", other) } else { String::new() };
            v.push(format!("st annot a0 K:s0:k{}{}", g.rng.below(2), d));
            if g.rng.chance(60) { v.push(format!("st annot a1 A:a0 {}/k0/i:1", other)); g.anns.push("a1".into()); }
            g.anns.push("a0".into());
            g.nann = 2;
            if g.rng.chance(50) { v.push(format!("st annot ~ T:r0:b0:b2 {}/k0/i:1", other)); g.nann += 1; }
            v.push(match g.rng.below(3) { 0 => "st rmset s0".to_string(), 1 => format!("st rmkey s0 k{} {}", g.rng.below(2), g.rng.below(2)), _ => "st annot ~ S:s0".to_string() });
        }
        1 => {
            // the same data named twice / shared by two annotations, then non-strict or strict removal
            v.push("st annot a0 T:r0:b0:b2 s0/k0/s:v0 s0/k0/s:v0".into());
            v.push("st annot a1 T:r0:b1:b3 s0/k0/s:v0 s0/k1/i:1".into());
            v.push("st annot a2 D:s0:#0".into());
            g.anns.extend(["a0".to_string(), "a1".into(), "a2".into()]);
            g.sets.push("s0".into());
            g.nann = 3;
            v.push(match g.rng.below(3) { 0 => format!("st rmdata s0 #0 {}", g.rng.below(2)), 1 => format!("st rmkey s0 k0 {}", g.rng.below(2)), _ => format!("st rmkey s0 k1 {}", g.rng.below(2)) });
        }
        2 => {
            // diamond of annotations on annotations
            v.push("st annot a0 T:r0:b0:b3".into());
            v.push("st annot a1 A:a0".into());
            v.push("st annot a2 AO:a0:b1:b2".into());
            v.push(format!("st annot a3 {}[A:a1;A:a2]", g.rng.pick(&['M', 'C', 'X'])));
            v.push("st annot a4 A:a3 s0/k0/s:v0".into());
            g.anns.extend((0..5).map(|i| format!("a{}", i)));
            g.nann = 5;
            v.push(format!("st rmann a{}", g.rng.below(4)));
        }
        3 => {
            // complex selector across two resources with consecutive fresh handles
            v.push(format!("st addres r1 {}", n1));
            g.res.push(("r1".into(), n1));
            let pre = g.rng.below(3);
            for i in 0..pre { v.push(format!("st annot ~ T:r1:b{}:b{}", i, i + 1)); }
            g.nann = pre;
            let k = 2 + g.rng.below(2);
            let mut subs: Vec<String> = (0..k).map(|i| format!("T:r0:b{}:b{}", i, i + 1)).collect();
            subs.push(format!("T:r1:b{}:b{}", pre, pre + 1));
            if g.rng.chance(50) { subs.push(format!("T:r1:b{}:b{}", pre + 1, pre + 2)); }
            v.push(format!("st annot a0 {}[{}] s0/k0/s:v0", g.rng.pick(&['M', 'C', 'X']), subs.join(";")));
            g.anns.push("a0".into());
            g.nann += 1;
        }
        4 => {
            // metadata annotations on data, key, set and resource, then removal of the referent
            v.push("st adddata s0 d0 k0 s:v0".into());
            g.data_ids.push(("s0".into(), "d0".into()));
            g.sets.push("s0".into());
            v.push("st annot a0 D:s0:d0".into());
            v.push("st annot a1 K:s0:k0".into());
            v.push("st annot a2 S:s0".into());
            v.push("st annot a3 R:r0".into());
            v.push(format!("st annot a4 {}[A:a0;A:a1;A:a2;A:a3]", g.rng.pick(&['M', 'C', 'X'])));
            g.anns.extend((0..5).map(|i| format!("a{}", i)));
            g.nann = 5;
            v.push(match g.rng.below(5) { 0 => format!("st rmdata s0 d0 {}", g.rng.below(2)), 1 => format!("st rmkey s0 k0 {}", g.rng.below(2)), 2 => "st rmset s0".to_string(), 3 => "st rmres r0".to_string(), _ => format!("st rmann a{}", g.rng.below(4)) });
        }
        5 => {
            // several keys, then removal of an early key (later keys must keep their data)
            for i in 0..3 { v.push(format!("st adddata s0 ~ k{} s:v{}", i, i)); v.push(format!("st adddata s0 ~ k{} i:{}", i, i)); }
            g.sets.push("s0".into());
            v.push("st annot a0 T:r0:b0:b1 s0/k1/s:v1 s0/k2/i:2".into());
            g.anns.push("a0".into());
            g.nann = 1;
            v.push(format!("st rmkey s0 k{} {}", g.rng.below(2), g.rng.below(2)));
        }
        _ => {
            // relative offsets three levels deep, then removal in the middle
            v.push("st annot a0 T:r0:b0:e0".into());
            v.push("st annot a1 AO:a0:b1:e-1 s0/k0/s:v0".into());
            v.push("st annot a2 AO:a1:b0:b1".into());
            v.push("st annot a3 AO:a2:e0:e0 s0/k0/s:v0".into());
            g.anns.extend((0..4).map(|i| format!("a{}", i)));
            g.nann = 4;
            v.push(format!("st rmann a{}", 1 + g.rng.below(2)));
        }
    }
    v
}

fn op_class(line: &str) -> String {
    let t: Vec<&str> = line.split_whitespace().collect();
    let mut s = t.get(1).unwrap_or(&"?").to_string();
    if s == "annot" {
        let tg = t.get(3).unwrap_or(&"?");
        let k = tg.chars().next().unwrap_or('?');
        s = format!("annot-{}", if "MCX".contains(k) && tg.contains('[') { k.to_string() } else { tg.split(':').next().unwrap_or("?").to_string() });
    }
    s
}

/// run one script on the implementation with every oracle; returns the answers per line
fn run_script(rep: &mut Report, script: &[String], property: Option<&str>) -> Vec<String> { run_script_opt(rep, script, property, true) }

/// `with_model = false`: the script holds operations the Lean store model does not have (protect_text); the oracles still run
fn run_script_opt(rep: &mut Report, script: &[String], property: Option<&str>, with_model: bool) -> Vec<String> {
    let mut ex = Exec::new();
    let mut outs = vec![];
    let mut lines: Vec<String> = vec![];
    let want = |p: &str| property.map(|x| x == p).unwrap_or(true);
    for (i, line) in script.iter().enumerate() {
        let before_obs = observe(&ex.store);
        let before_live = live_annotations(&ex.store);
        let expected_rm = if line.starts_with("st rm") { guarded(std::panic::AssertUnwindSafe(|| expected_removed(&ex.store, line))).ok().flatten() } else { None };
        let out = ex.exec(line);
        if std::env::var("VERIF_TRACE").is_ok() { eprintln!("TRACE {}", line); }
        lines.push(line.clone());
        let cls = op_class(line);
        rep.count(&format!("op:{}:{}", cls, out.split(|c| c == ' ' || c == ':').next().unwrap_or("?")));
        let ctx = || -> Vec<String> { script[..=i].to_vec() };
        if out.starts_with("panic") {
            rep.fail("panic", &format!("{}/panic", cls), ctx(), "ok or err", &out);
        }
        let after_obs = match guarded(std::panic::AssertUnwindSafe(|| observe(&ex.store))) {
            Ok(s) => s,
            Err(m) => {
                rep.fail("panic", &format!("{}/observe-panics", cls), ctx(), "an observation", &m);
                outs.push(out);
                outs.push("panic".into());
                lines.push("st obs".into());
                break;
            }
        };
        // C14: a failed mutation leaves every observation unchanged
        if want("C14") && out == "err" && before_obs != after_obs {
            let what = diff_kind(&before_obs, &after_obs);
            let c = if cls.starts_with("annot") { "annotate" } else { cls.as_str() };
            if cls == "batch" {
                // a refused batch: the elements before the refused one stay (one finding); what the refused element
                // itself leaves behind is what a refused annotate() leaves behind (named as such)
                if what.contains("annotation") { rep.fail("oracle", "C14/batch/script/elements-before-the-refused-one-stay", ctx(), &before_obs, &after_obs); }
                else { rep.fail("oracle", &format!("C14/annotate/{}/{}", what, last_err()), ctx(), &before_obs, &after_obs); }
            } else {
                rep.fail("oracle", &format!("C14/{}/{}/{}", c, what, last_err()), ctx(), &before_obs, &after_obs);
            }
        }
        // C02: removal removes exactly the documented dependants and always succeeds on existing items
        if let Some((closure, modified)) = &expected_rm {
            if want("C02") {
                if out != "ok -" {
                    rep.fail("oracle", &format!("C02/{}/refused", cls), ctx(), "ok", &out);
                } else {
                    let after_live = live_annotations(&ex.store);
                    let mut want_live = before_live.clone();
                    for h in closure { want_live.remove(h); }
                    for (h, rest) in modified { if let Some(x) = want_live.get_mut(h) { x.1 = rest.clone(); } }
                    if want_live != after_live {
                        let gone: Vec<&usize> = want_live.keys().filter(|h| !after_live.contains_key(h)).collect();
                        let kept: Vec<&usize> = after_live.keys().filter(|h| !want_live.contains_key(h)).collect();
                        let what = if !gone.is_empty() { "removed-too-much" } else if !kept.is_empty() { "survivor-should-be-gone" } else { "survivor-changed" };
                        rep.fail("oracle", &format!("C02/{}/{}", cls, what), ctx(), &format!("{:?}", want_live), &format!("{:?}", after_live));
                    }
                }
            }
        }
        // C01/C02/C03/C10 invariants on the raw indices
        match guarded(std::panic::AssertUnwindSafe(|| consistency(&ex.store))) {
            Ok(bad) => {
                for (sig, detail) in bad {
                    let p = if sig.starts_with("dangling") { "C02" } else if sig.starts_with("idmap") { "C03" } else if sig.starts_with("vocabulary") || sig == "index/key-data" { "C10" } else { "C01" };
                    if want(p) {
                        rep.fail("oracle", &format!("{}/{}", p, sig), ctx(), "index consistent with forward references", &detail);
                    }
                }
            }
            Err(m) => rep.fail("panic", &format!("{}/consistency-check-panics", cls), ctx(), "-", &m),
        }
        // C02: serialising the store cannot fail
        if want("C02") && line.starts_with("st rm") {
            let js = guarded(std::panic::AssertUnwindSafe(|| ex.store.to_json_string(&Config::default()).is_ok()));
            if js != Ok(true) {
                rep.fail(if js.is_err() { "panic" } else { "oracle" }, &format!("C02/{}/serialise-fails", cls), ctx(), "serialisable", &format!("{:?}", js));
            }
        }
        outs.push(out);
        outs.push(after_obs);
        lines.push("st obs".into());
    }
    if with_model { rep.model_case(lines, outs.clone(), "store"); }
    // how the members of complex targets are stored, against the Lean model of the folding loop
    if want("C01") || want("C05") {
        if let Ok(rl) = guarded(std::panic::AssertUnwindSafe(|| ranged_lines(&ex.store))) {
            for (line, out, folded) in rl { rep.count(if folded { "ranged:stored-with-a-range" } else { "ranged:stored-plain" }); rep.model_case_ctx(script.to_vec(), vec![line], vec![out], "ranged"); }
        }
    }
    outs
}

/// lookup strings: every id the script mentions (also removed / never created ones) and a menu of
/// hostile strings around the temporary-id syntax
fn lookup_strings(script: &[String], rng: &mut Rng) -> Vec<String> {
    let mut v: BTreeSet<String> = BTreeSet::new();
    for l in script {
        for tok in l.split(|c: char| c.is_whitespace() || ":/;[]".contains(c)) {
            if tok.len() >= 2 && tok.len() <= 6 && tok.chars().next().map(|c| "arsdkn!".contains(c)).unwrap_or(false) {
                v.insert(tok.to_string());
            }
        }
    }
    for x in ["", "!", "!A", "!A0", "!A1", "!A2", "!R0", "!S0", "!K0", "!D0", "!T0", "!a0", "!\u{c9}0", "!\u{c9}x", "!A00", "!A-1", "!A+1", "!A+0", "!R+0", "!S+0", "!A 1", "!A1 ",
              "!A99999999999999999999999", "!A18446744073709551616", "!A4294967296", "!R4294967296", "!S4294967296", "!A4294967297", "!R8589934592", "!A1x", "a0 ", " a0", "A0", "!\u{ff21}0", "!A\u{663}", "!!A0", "\u{1F600}", "!\u{1F600}1", "!K1", "!D1", "!S1", "!R1"] {
        v.insert(x.to_string());
    }
    for _ in 0..4 {
        v.insert(format!("!{}{}", rng.pick(&['A', 'R', 'S', 'K', 'D', 'Z', 'a']), rng.below(6)));
    }
    v.into_iter().collect()
}

/// C03: after a history (optionally strip / reindex), every lookup string resolves to exactly the
/// live item that carries it (or, as a temporary id of the right kind, to that live handle)
fn run_ids(rep: &mut Report, script: &[String], with_reindex: bool, rng: &mut Rng) {
    let mut ex = Exec::new();
    let mut lines: Vec<String> = vec![];
    let mut outs: Vec<String> = vec![];
    for l in script {
        let o = ex.exec(l);
        lines.push(l.clone());
        outs.push(o);
    }
    let strings = lookup_strings(script, rng);
    // expected resolution from a plain scan of the live items, before any compaction
    let scan = |store: &AnnotationStore, kind: &str, id: &str| -> Option<String> {
        // returns a description of the item (id + content) so that it survives renumbering
        match kind.split(':').next().unwrap() {
            "ann" => store.annotations().find(|a| a.id() == Some(id)).map(|a| format!("{:?}|{}", a.id(), show_target_ids(store, a.as_ref()))),
            "res" => store.resources().find(|a| a.id() == Some(id)).map(|a| format!("{:?}|{}", a.id(), a.textlen())),
            "set" => store.datasets().find(|a| a.id() == Some(id)).map(|a| format!("{:?}", a.id())),
            _ => None,
        }
    };
    let describe = |store: &AnnotationStore, kind: &str, h: usize| -> Option<String> {
        if h > u32::MAX as usize { return None; } // (no item has such a handle; the handle types would truncate the number)
        match kind {
            "ann" => store.annotation(AnnotationHandle::new(h)).map(|a| format!("{:?}|{}", a.id(), show_target_ids(store, a.as_ref()))),
            "res" => store.resource(TextResourceHandle::new(h)).map(|a| format!("{:?}|{}", a.id(), a.textlen())),
            "set" => store.dataset(AnnotationDataSetHandle::new(h)).map(|a| format!("{:?}", a.id())),
            _ => None,
        }
    };
    let letter = |kind: &str| match kind { "ann" => 'A', "res" => 'R', _ => 'S' };
    // (a temporary identifier is `!`, the letter, and digits: what the library writes; no sign)
    let parse_usize = |s: &str| -> Option<usize> { if !s.is_empty() && s.bytes().all(|b| b.is_ascii_digit()) { s.parse::<usize>().ok() } else { None } };
    // snapshot of expectations for public ids before reindex (ids must keep designating the same item)
    let mut before: BTreeMap<(String, String), Option<String>> = BTreeMap::new();
    for kind in ["ann", "res", "set"] {
        for id in &strings {
            before.insert((kind.to_string(), id.clone()), scan(&ex.store, kind, id));
        }
    }
    if with_reindex {
        let o = ex.exec("st reindex");
        if o.starts_with("panic") {
            rep.fail("panic", "C03/reindex/panic", script.to_vec(), "ok", &o);
            return;
        }
    }
    let mut ctx: Vec<String> = script.to_vec();
    if with_reindex { ctx.push("st reindex".into()); }
    for kind in ["ann", "res", "set"] {
        for id in &strings {
            let line = format!("st resolve {} {}", kind, hex(id));
            let out = ex.exec(&line);
            rep.count(&format!("resolve:{}", if out.starts_with('h') { "hit" } else { &out[..out.len().min(5)] }));
            let mut c = ctx.clone();
            c.push(format!("{}   # id={:?}", line, id));
            if out.starts_with("panic") {
                rep.fail("panic", &format!("C03/resolve-{}/panic", kind), c, "an item or nothing", &out);
                continue;
            }
            // temporary id of the right kind?
            let temp: Option<usize> = {
                let mut it = id.chars();
                if it.next() == Some('!') && it.next() == Some(letter(kind)) { parse_usize(it.as_str()) } else { None }
            };
            let got_desc = out.strip_prefix('h').and_then(|h| h.parse().ok()).and_then(|h: usize| describe(&ex.store, kind, h));
            // the item that carries the string as its public identifier comes first (also when the string has the shape
            // of a temporary identifier), then the temporary-identifier reading
            let want_desc = before.get(&(kind.to_string(), id.clone())).cloned().flatten().or_else(|| temp.and_then(|h| describe(&ex.store, kind, h)));
            if got_desc != want_desc {
                let cls = if temp.is_some() { "temp-id" } else if with_reindex { "after-reindex" } else if id.starts_with('!') { "temp-like" } else { "public-id" };
                rep.fail("oracle", &format!("C03/resolve-{}/{}", kind, cls), c.clone(), &format!("{:?}", want_desc), &format!("{:?} ({})", got_desc, out));
            }
            // the public `resolve_*_id` answers for exactly the strings the lookup finds an item for
            let resolved: Result<bool, String> = guarded(std::panic::AssertUnwindSafe(|| match kind { "ann" => ex.store.resolve_annotation_id(id).is_ok(), "res" => ex.store.resolve_resource_id(id).is_ok(), _ => ex.store.resolve_dataset_id(id).is_ok() }));
            match resolved {
                Err(m) => rep.fail("panic", &format!("C03/resolve-{}/resolve_id-panics", kind), c.clone(), "Ok or Err", &m),
                Ok(r) => if r != out.starts_with('h') { rep.fail("oracle", &format!("C03/resolve-{}/resolve_id-answers-for-no-item", kind), c.clone(), &format!("resolve_{}_id is Ok exactly when the lookup finds an item ({})", kind, out), &format!("Ok = {}", r)); },
            }
            if !with_reindex {
                lines.push(line);
                outs.push(out);
            }
        }
    }
    // a lookup through an annotation, whatever the string (not after compaction, which leaves annotations whose own text
    // cannot be walked: the known finding of C01)
    if let Some(a) = ex.store.annotations().next().filter(|_| !with_reindex) {
        for id in &strings {
            if let Err(m) = guarded(std::panic::AssertUnwindSafe(|| a.textselectionset_in(id.as_str()).is_some())) {
                let mut c = ctx.clone(); c.push(format!("annotation.textselectionset_in({:?})", id));
                rep.fail("panic", "C03/textselectionset_in/panic", c, "a set or nothing", &m);
                break;
            }
        }
    }
    rep.model_case(lines, outs, "ids");
}

/// an annotation described independently of handles (its data count); targets are deliberately left
/// out: `reindex()` does not renumber handles inside selectors (a known finding, see DESIGN.md)
fn show_target_ids(_store: &AnnotationStore, a: &Annotation) -> String {
    format!("{}", a.raw_data().len())
}

fn diff_kind(before: &str, after: &str) -> String {
    let b: Vec<&str> = before.split(' ').collect();
    let a: Vec<&str> = after.split(' ').collect();
    let mut kinds = BTreeSet::new();
    for x in &a {
        if !b.contains(x) {
            kinds.insert(match x.chars().next() { Some('A') => "annotation", Some('R') => "selection", Some('D') => "dataset", _ => "index" });
        }
    }
    if kinds.is_empty() { "lost-item".into() } else { kinds.into_iter().collect::<Vec<_>>().join("+") }
}

/// greedy one-line-at-a-time minimisation of a script that shows failure (kind, signature)
fn shrink(script: &[String], kind: &str, sig: &str, property: Option<&str>) -> Vec<String> {
    let fails = |cand: &[String]| -> bool {
        let mut r = Report::new("shrink", "");
        run_script(&mut r, cand, property);
        r.failures.iter().any(|f| f.kind == kind && f.signature == sig)
    };
    let mut cur: Vec<String> = script.to_vec();
    let mut progress = true;
    while progress {
        progress = false;
        let mut i = cur.len();
        while i > 0 {
            i -= 1;
            let mut cand = cur.clone();
            cand.remove(i);
            if !cand.is_empty() && fails(&cand) {
                cur = cand;
                progress = true;
            }
        }
    }
    cur
}

/// one operation on a store that is held elsewhere
/// an ADD query given as text; what it reports
fn run_add_query(store: &mut AnnotationStore, text: &str) -> Result<(), String> {
    let q = Query::try_from(text).map_err(|e| format!("{}", e))?;
    let _ = stam::verif_hooks::verif_take_query_error();
    let n = store.query_mut(q).map_err(|e| format!("{}", e))?.count();
    let _ = n;
    match stam::verif_hooks::verif_take_query_error() { Some(e) => Err(e), None => Ok(()) }
}

pub fn exec_on(store: &mut AnnotationStore, line: &str) -> String {
    let mut ex = Exec { store: std::mem::replace(store, new_store()) };
    let r = ex.exec(line);
    *store = ex.store;
    r
}

pub fn exec_script(lines: &[String]) -> Vec<String> {
    let mut ex = Exec::new();
    lines.iter().map(|l| ex.exec(l)).collect()
}

pub fn run(opts: &Opts) -> Report {
    let mut rep = Report::new(
        "store",
        "seeded operation scripts (add resource / dataset / data, annotate with all nine selector kinds incl. relative offsets and complex selectors, remove annotation / data strict+non-strict / key / resource / dataset), ~25% invalid requests; \
         after every operation: full API observation, raw index dumps against forward references, removal closure, failed-operation atomicity; every script is also run on the Lean model; \
         non-trivial = scripts with at least one removal and one annotation on an annotation; distinct = distinct scripts",
    );
    let property = opts.property.as_deref();
    let (nscripts, maxops) = if opts.thorough() { (40000, 60) } else { (4000, 36) };
    // corpus of minimised past failures first
    let corpus_dir = std::path::Path::new(env!("CARGO_MANIFEST_DIR")).join("corpus/store");
    if let Ok(rd) = std::fs::read_dir(&corpus_dir) {
        let mut files: Vec<_> = rd.filter_map(|e| e.ok()).map(|e| e.path()).collect();
        files.sort();
        for f in files {
            if let Ok(txt) = std::fs::read_to_string(&f) {
                let script: Vec<String> = txt.lines().filter(|l| l.starts_with("st ") && *l != "st obs").map(|l| l.to_string()).collect();
                run_script(&mut rep, &script, property);
                rep.case(Some(&script.join("|")));
                rep.count("corpus-script");
            }
        }
    }
    for i in 0..nscripts {
        let mut g = Gen { rng: Rng::new(opts.seed.wrapping_mul(1_000_003).wrapping_add(i as u64)), rich: false, force_ids: false, res: vec![], sets: vec![], keys: vec![], anns: vec![], nann: 0, data_ids: vec![], next_id: 0, temp_shaped_ids: true };
        let n = 4 + g.rng.below(maxops);
        let mut script: Vec<String> = if i % 4 == 3 { scenario(&mut g) } else { vec![] };
        if !script.is_empty() {
            rep.count("scenario-script");
        }
        script.extend((0..n).map(|_| g.op()));
        let _ = &g.keys;
        let nontrivial = script.iter().any(|l| l.starts_with("st rm")) && script.iter().any(|l| l.contains(" A:") || l.contains("AO:"));
        run_script(&mut rep, &script, property);
        let key = script.join("|");
        rep.case(if nontrivial { Some(&key) } else { None });
        if i == 0 {
            rep.sample(json!({"script": script}));
        }
    }
    // ---------- histories with protect_text (C01's quantifier): oracles only, the Lean store model has no protect_text ----------
    {
        let n = if opts.thorough() { 3000 } else { 400 };
        for i in 0..n {
            let mut g = Gen { rng: Rng::new(opts.seed.wrapping_mul(5_000_011).wrapping_add(i as u64)), rich: false, force_ids: i % 2 == 0, res: vec![], sets: vec![], keys: vec![], anns: vec![], nann: 0, data_ids: vec![], next_id: 0, temp_shaped_ids: true };
            let mut script: Vec<String> = vec!["st addres r0 9".into()];
            g.res.push(("r0".into(), 9));
            let modes = ["text", "checksum", "both", "auto"];
            let nops = 6 + g.rng.below(14);
            for k in 0..nops {
                let c = g.rng.below(10);
                if c == 0 || k == nops / 2 { script.push(format!("st protect {}", modes[g.rng.below(4)])); }
                else if c == 1 {
                    // an annotation that already carries the validation datum for a span (as one imported from a protected store
                    // does), next to a plain annotation on the same text
                    let b = g.rng.below(6); let e = b + 1 + g.rng.below(3);
                    let kind = if g.rng.chance(50) { "text" } else { "checksum" };
                    let first = g.rng.chance(50);
                    let (p, v) = (format!("p{}", k), format!("v{}", k));
                    if first { script.push(format!("st annot {} T:r0:b{}:b{}", p, b, e)); }
                    script.push(format!("st annotval {} r0 {} {} {}", v, b, e, kind));
                    if !first { script.push(format!("st annot {} T:r0:b{}:b{}", p, b, e)); }
                    g.anns.push(p); g.anns.push(v); g.nann += 2;
                } else { script.push(g.op()); }
            }
            run_script_opt(&mut rep, &script, property, false);
            rep.count("protect-script");
            rep.case(Some(&script.join("|")));
        }
    }
    // ---------- C02: the cascade with one reverse index switched off in the configuration ----------
    if property.map(|p| p == "C02").unwrap_or(true) {
        for which in 0..7 {
            let name = ["all-indices-on", "annotation_annotation_map-off", "textrelationmap-off", "resource_annotation_map-off", "dataset_annotation_map-off", "key_annotation_metamap-off", "data_annotation_metamap-off"][which];
            let config = match which { 1 => Config::default().with_annotation_annotation_map(false), 2 => Config::default().with_textrelationmap(false), 3 => Config::default().with_resource_annotation_map(false), 4 => Config::default().with_dataset_annotation_map(false), 5 => Config::default().with_key_annotation_metamap(false), 6 => Config::default().with_data_annotation_metamap(false), _ => Config::default() };
            for removal in 0..6 {
                // with all indices on every removal is run; with one off, the removal that needs it
                if which != 0 && removal + 1 != which { continue; }
                let rname = ["annotation a0 (a1 is on it)", "resource r0 (a0 selects its text)", "resource r0 (a2 has it as metadata)", "dataset s0 (a3 has it as metadata)", "key k0 (a4 has it as metadata)", "data d0 (a5 has it as metadata)"][removal];
                rep.count(&format!("cascade-config:{}", name));
                rep.case(Some(&format!("cascade-config {} {}", name, removal)));
                let ctx = vec![format!("configuration: {}", name), "r0 = 'hello world'; a0 = r0 0..5 with data s0/k0=v0 (d0); a1 on annotation a0; a2 on resource r0 (metadata); a3 on dataset s0; a4 on key s0/k0; a5 on data s0/d0".to_string(), format!("remove {}", rname)];
                let cfg = config.clone();
                let r = guarded(std::panic::AssertUnwindSafe(move || -> Result<(Result<(), String>, Vec<(String, String)>, Vec<String>), StamError> {
                    let mut st = AnnotationStore::new(cfg).with_id("s").with_resource(TextResourceBuilder::new().with_id("r0").with_text("hello world"))?;
                    st.annotate(AnnotationBuilder::new().with_id("a0").with_target(SelectorBuilder::textselector("r0", Offset::simple(0, 5))).with_data_with_id("s0", "k0", "v0", "d0"))?;
                    st.annotate(AnnotationBuilder::new().with_id("a1").with_target(SelectorBuilder::annotationselector("a0", None)).with_data_with_id("s1", "k", "v1", "e1"))?;
                    st.annotate(AnnotationBuilder::new().with_id("a2").with_target(SelectorBuilder::resourceselector("r0")).with_data_with_id("s1", "k", "v2", "e2"))?;
                    st.annotate(AnnotationBuilder::new().with_id("a3").with_target(SelectorBuilder::datasetselector("s0")).with_data_with_id("s1", "k", "v3", "e3"))?;
                    st.annotate(AnnotationBuilder::new().with_id("a4").with_target(SelectorBuilder::datakeyselector("s0", "k0")).with_data_with_id("s1", "k", "v4", "e4"))?;
                    st.annotate(AnnotationBuilder::new().with_id("a5").with_target(SelectorBuilder::annotationdataselector("s0", "d0")).with_data_with_id("s1", "k", "v5", "e5"))?;
                    let res: Result<(), StamError> = match removal { 0 => st.remove_annotation("a0"), 1 | 2 => st.remove_resource("r0"), 3 => st.remove_dataset("s0"), 4 => st.remove_key("s0", "k0", true), _ => st.remove_data("s0", "d0", true) };
                    let dangling: Vec<(String, String)> = consistency(&st).into_iter().filter(|(sig, _)| sig.starts_with("dangling")).collect();
                    let mut left: Vec<String> = st.annotations().map(|a| a.id().unwrap_or("~").to_string()).collect(); left.sort();
                    Ok((res.map_err(|e| format!("{}", e)), dangling, left))
                }));
                match r {
                    Err(m) => rep.fail("panic", &format!("C02/cascade-config/{}/panic", name), ctx, "a removal", &m),
                    Ok(Err(e)) => rep.fail("oracle", &format!("C02/cascade-config/{}/store-not-built", name), ctx, "a store", &format!("{}", e)),
                    Ok(Ok((res, dangling, left))) => {
                        if let Some((sig, detail)) = dangling.first() { rep.fail("oracle", &format!("C02/cascade-config/{}/{}", name, sig), ctx, "every surviving annotation's target and data resolve", &format!("removal returned {:?}; {}; annotations left: {:?}", res, detail, left)); }
                        else if let Err(e) = res { rep.fail("oracle", &format!("C02/cascade-config/{}/refused", name), ctx, "the removal succeeds (the item exists)", &e); }
                    }
                }
            }
        }
    }
    // ---------- C01: compaction (`reindex()`) after removals: every item, named by its identifier, still refers to and is
    // referred to by the same items ----------
    if property.map(|p| p == "C01").unwrap_or(true) {
        // (from the raw selectors, one step at a time: a target that ends up referring to itself must not send the
        // description into an endless recursion)
        let by_ids = |st: &AnnotationStore| -> Vec<String> {
            let mut v: Vec<String> = vec![];
            let ann_id = |h: usize| -> String { let a: Result<&Annotation, _> = st.get(AnnotationHandle::new(h)); a.ok().map(|a| a.id().unwrap_or("~").to_string()).unwrap_or("<no such annotation>".into()) };
            let res_id = |h: usize| -> String { let r: Result<&TextResource, _> = st.get(TextResourceHandle::new(h)); r.ok().map(|r| r.id().unwrap_or("~").to_string()).unwrap_or("<no such resource>".into()) };
            let set_id = |h: usize| -> String { let d: Result<&AnnotationDataSet, _> = st.get(AnnotationDataSetHandle::new(h)); d.ok().map(|d| d.id().unwrap_or("~").to_string()).unwrap_or("<no such dataset>".into()) };
            let (aslots, _, _) = st.verif_dump_slots();
            for (h, l) in aslots.iter().enumerate() {
                if !*l { continue; }
                let a: &Annotation = match st.get(AnnotationHandle::new(h)) { Ok(a) => a, Err(_) => continue };
                let mut tg: Vec<String> = vec![]; let mut dt: Vec<String> = vec![];
                for k in forward_keys(st, a) { match k {
                    FKey::Ann(x) => tg.push(format!("A:{}", ann_id(x))),
                    FKey::TSel(r, t) => { let rr: Result<&TextResource, _> = st.get(TextResourceHandle::new(r)); let range = rr.ok().and_then(|rr| { let ts: Result<&TextSelection, _> = rr.get(TextSelectionHandle::new(t)); ts.ok().map(|ts| format!("{}-{}", ts.begin(), ts.end())) }).unwrap_or("<no such selection>".into()); tg.push(format!("T:{}:{}", res_id(r), range)); }
                    FKey::ResMeta(r) => tg.push(format!("R:{}", res_id(r))),
                    FKey::SetMeta(x) => tg.push(format!("S:{}", set_id(x))),
                    FKey::Data(x, d) => { let ds: Result<&AnnotationDataSet, _> = st.get(AnnotationDataSetHandle::new(x)); let item = ds.ok().and_then(|ds| { let it: Result<&AnnotationData, _> = ds.get(AnnotationDataHandle::new(d)); it.ok().map(|it| { let k: Result<&DataKey, _> = ds.get(it.key()); format!("{}={}", k.ok().and_then(|k| k.id().map(|x| x.to_string())).unwrap_or("~".into()), show_value(it.value())) }) }).unwrap_or("<no such data>".into()); dt.push(format!("{}/{}", set_id(x), item)); }
                    FKey::KeyMeta(x, k) => tg.push(format!("K:{}:{}", set_id(x), k)),
                    FKey::DataMeta(x, d) => tg.push(format!("D:{}:{}", set_id(x), d)),
                } }
                tg.sort(); dt.sort();
                let mut by: Vec<String> = st.annotation(AnnotationHandle::new(h)).map(|item| item.annotations().map(|x| x.id().unwrap_or("~").to_string()).collect()).unwrap_or_default();
                by.sort();
                v.push(format!("annotation {} targets {:?} data {:?} targeted-by {:?}", a.id().unwrap_or("~"), tg, dt, by));
            }
            for r in st.resources() { let mut by: Vec<String> = r.annotations().map(|x| x.id().unwrap_or("~").to_string()).collect(); by.sort(); v.push(format!("resource {} used-by {:?}", r.id().unwrap_or("~"), by)); }
            for d in st.datasets() { for x in d.data() { let mut by: Vec<String> = x.annotations().map(|a| a.id().unwrap_or("~").to_string()).collect(); by.sort(); v.push(format!("data {}/{}={} used-by {:?}", d.id().unwrap_or("~"), x.key().id().unwrap_or("~"), show_value(x.value()), by)); } }
            v.sort();
            v
        };
        for i in 0..(if opts.thorough() { 24 } else { 8 }) {
            let what = i % 4;   // which kind of item leaves a gap: 0 = none (no gap), 1 = an annotation, 2 = a resource, 3 = a dataset
            let script: Vec<String> = vec!["st addres r0 9".into(), "st addres r1 9".into(), "st addres r2 9".into(),
                "st annot a0 T:r0:b0:b2 s0/k0/s:v0".into(), "st annot a1 T:r1:b1:b3 s1/k0/s:v1".into(), "st annot a2 A:a1 s2/k0/s:v2".into(), "st annot a3 T:r2:b2:b4 s2/k1/s:v3".into(), "st annot a4 M[A:a2;A:a3] s1/k1/s:v4".into(),
                match what { 0 => "st obs".to_string(), 1 => "st rmann a0".to_string(), 2 => "st rmres r0".to_string(), _ => "st rmset s0".to_string() }];
            let mut ex = Exec::new();
            let outs: Vec<String> = script.iter().map(|l| ex.exec(l)).collect();
            if outs.iter().any(|o| !o.starts_with("ok") && !o.starts_with('A') && !o.starts_with("N=") && !o.contains('[')) { rep.count("reindex:script-refused"); }
            let before = match guarded(std::panic::AssertUnwindSafe(|| by_ids(&ex.store))) { Ok(b) => b, Err(_) => continue };
            let o = ex.exec("st reindex");
            let name = ["no-gap", "after-removing-an-annotation", "after-removing-a-resource", "after-removing-a-dataset"][what];
            rep.count(&format!("reindex:{}", name));
            rep.case(Some(&format!("reindex {} {}", name, i / 4)));
            let mut ctx = script.clone(); ctx.push("st reindex".into());
            if o.starts_with("panic") { rep.fail("panic", &format!("C01/reindex/{}/panic", name), ctx, "ok", &o); continue; }
            match guarded(std::panic::AssertUnwindSafe(|| by_ids(&ex.store))) {
                Ok(after) => if after != before { let (x, y) = { let mut d = (String::new(), String::new()); for k in 0..before.len().max(after.len()) { let (a, b) = (before.get(k).cloned().unwrap_or("<missing>".into()), after.get(k).cloned().unwrap_or("<missing>".into())); if a != b { d = (a, b); break; } } d }; rep.fail("oracle", &format!("C01/reindex/{}/items-refer-to-other-items", name), ctx, &x, &y); },
                Err(m) => rep.fail("panic", &format!("C01/reindex/{}/store-panics-afterwards", name), ctx, "a usable store", &m),
            }
        }
    }
    // ---------- C14: annotate_from_file with a document the JSON layer refuses leaves the store as it was ----------
    if property.map(|p| p == "C14").unwrap_or(true) {
        let n = if opts.thorough() { 400 } else { 80 };
        let dir = std::path::Path::new(env!("CARGO_MANIFEST_DIR")).join("target").join("scratch").join(format!("af{}", std::process::id()));
        std::fs::create_dir_all(&dir).ok();
        for i in 0..n {
            let mut g = Gen { rng: Rng::new(opts.seed.wrapping_mul(3_000_017).wrapping_add(i as u64)), rich: false, force_ids: true, res: vec![], sets: vec![], keys: vec![], anns: vec![], nann: 0, data_ids: vec![], next_id: 0, temp_shaped_ids: true };
            let mut script: Vec<String> = vec!["st addres r0 9".into(), "st adddata s0 d0 k0 s:v0".into()];
            let nops = g.rng.below(8);
            script.extend((0..nops).map(|_| g.op()));
            let mut ex = Exec::new();
            for l in &script { ex.exec(l); }
            let good = |k: usize, b: usize| format!("{{\"@type\": \"Annotation\", \"@id\": \"file{}\", \"target\": {{\"@type\": \"TextSelector\", \"resource\": \"r0\", \"offset\": {{\"@type\": \"Offset\", \"begin\": {{\"@type\": \"BeginAlignedCursor\", \"value\": {}}}, \"end\": {{\"@type\": \"BeginAlignedCursor\", \"value\": {}}}}}}}, \"data\": [{{\"@type\": \"AnnotationData\", \"set\": \"fileset\", \"key\": \"filekey{}\", \"value\": {{\"@type\": \"String\", \"value\": \"x{}\"}}}}]}}", k, b, b + 1 + k % 3, k % 2, k);
            let total = 2 + g.rng.below(4);
            let badpos = g.rng.below(total + 1); // == total: no malformed element
            let (badname, bad) = *g.rng.pick(&[("no-target", "{\"@type\": \"Annotation\", \"@id\": \"bad\", \"data\": []}"), ("wrong-type", "{\"@type\": \"Annotation\", \"@id\": 7, \"target\": {\"@type\": \"ResourceSelector\", \"resource\": \"r0\"}}"), ("not-an-object", "42"), ("syntax", "{\"@type\": \"Annotation\" \"@id\"}"), ("unknown-selector", "{\"@type\": \"Annotation\", \"@id\": \"bad\", \"target\": {\"@type\": \"NoSuchSelector\"}}")]);
            let mut items: Vec<String> = (0..total).map(|k| good(k, k % 4)).collect();
            let malformed = badpos < total;
            if malformed { items.insert(badpos, bad.to_string()); }
            let mut doc = format!("[{}]", items.join(",\n"));
            let truncated = !malformed && g.rng.chance(30);
            if truncated { let cut = doc.len() * 2 / 3; doc.truncate(cut); }
            let path = dir.join(format!("a{}.json", i));
            std::fs::write(&path, &doc).ok();
            let before = observe(&ex.store);
            let r = guarded(std::panic::AssertUnwindSafe(|| ex.store.annotate_from_file(path.to_str().unwrap()).map(|_| ()).map_err(|e| format!("{}", e))));
            let after = observe(&ex.store);
            let mut ctx = script.clone();
            ctx.push(format!("annotate_from_file: {} well-formed annotations{}{}", total, if malformed { format!(", a malformed element ({}) at position {}", badname, badpos) } else { String::new() }, if truncated { ", file truncated" } else { "" }));
            ctx.push(format!("document: {}", doc.replace('\n', " ")));
            rep.count(&format!("annotate_from_file:{}", if malformed { badname } else if truncated { "truncated" } else { "well-formed" }));
            rep.case(Some(&format!("aff {} {}", i, doc)));
            match r {
                Err(p) => rep.fail("panic", "C14/annotate_from_file-panics", ctx, "Ok or Err", &p),
                Ok(Err(e)) if (malformed || truncated) => { if before != after { let (a, b): (Vec<&str>, Vec<&str>) = (before.split(' ').collect(), after.split(' ').collect()); rep.fail("oracle", &format!("C14/annotate_from_file-refused-but-store-changed/{}", if malformed { badname } else { "truncated" }), ctx, &format!("{} items, unchanged", a.len()), &format!("{} items after the refusal ({})", b.len(), e.chars().take(80).collect::<String>())); } }
                Ok(Ok(())) if (malformed || truncated) => rep.fail("oracle", "C14/annotate_from_file-accepted-malformed-document", ctx, "an error", "Ok"),
                Ok(Ok(())) => { if !after.contains("file0") { rep.fail("oracle", "C14/annotate_from_file-well-formed-but-nothing-added", ctx, "the annotations of the file", "none of them"); } }
                // a well-formed document can still fail in annotate() (e.g. its resource was removed): that path is annotate()'s own
                Ok(Err(_)) => rep.count("annotate_from_file:well-formed-but-annotate-failed"),
            }
            std::fs::remove_file(&path).ok();
        }
        // ---- batches: a well-formed element that annotate() refuses, after elements it accepts (file, iterator, ADD query) ----
        for i in 0..(if opts.thorough() { 60 } else { 18 }) {
            let how = i % 3;                               // 0 = annotate_from_file, 1 = annotate_from_iter, 2 = ADD query
            let kind = (i / 3) % 3;                        // 0 = unknown resource, 1 = offset outside the text, 2 = identifier used before
            let ngood = 1 + (i / 9) % 3;                   // elements before the refused one
            let kindname = ["unknown-resource", "offset-outside-text", "identifier-used-before"][kind];
            let howname = ["annotate_from_file", "annotate_from_iter", "add-query"][how];
            if how == 2 && kind != 2 { continue; }         // (the query form: one ID assignment over several rows)
            let mut ex = Exec::new();
            let mut script: Vec<String> = vec!["st addres r0 9".into(), "st addres r1 9".into(), "st addres r2 9".into(), "st addres r3 9".into(), "st adddata s0 d0 k0 s:v0".into()];
            if how == 2 { script.truncate(1 + ngood.min(3)); if script.len() < 2 { script.push("st addres r1 9".into()); } }
            for l in &script { ex.exec(l); }
            let before = observe(&ex.store);
            let spec = |k: usize| -> (String, String, usize, usize) { if k < ngood { (format!("batch{}", k), "r0".to_string(), k, k + 2) } else { match kind { 0 => ("bad".to_string(), "nores".to_string(), 0, 1), 1 => ("bad".to_string(), "r0".to_string(), 100, 200), _ => ("batch0".to_string(), "r0".to_string(), 3, 4) } } };
            let r: Result<Result<(), String>, String> = match how {
                0 => {
                    let items: Vec<String> = (0..=ngood).map(|k| { let (id, res, b, e) = spec(k); format!("{{\"@type\": \"Annotation\", \"@id\": \"{}\", \"target\": {{\"@type\": \"TextSelector\", \"resource\": \"{}\", \"offset\": {{\"@type\": \"Offset\", \"begin\": {{\"@type\": \"BeginAlignedCursor\", \"value\": {}}}, \"end\": {{\"@type\": \"BeginAlignedCursor\", \"value\": {}}}}}}}, \"data\": [{{\"@type\": \"AnnotationData\", \"set\": \"s0\", \"key\": \"k0\", \"value\": {{\"@type\": \"String\", \"value\": \"v0\"}}}}]}}", id, res, b, e) }).collect();
                    let path = dir.join(format!("b{}.json", i));
                    std::fs::write(&path, format!("[{}]", items.join(",\n"))).ok();
                    let r = guarded(std::panic::AssertUnwindSafe(|| ex.store.annotate_from_file(path.to_str().unwrap()).map(|_| ()).map_err(|e| format!("{}", e))));
                    std::fs::remove_file(&path).ok();
                    r
                }
                1 => guarded(std::panic::AssertUnwindSafe(|| {
                    let builders: Vec<AnnotationBuilder> = (0..=ngood).map(|k| { let (id, res, b, e) = spec(k); AnnotationBuilder::new().with_id(id).with_target(SelectorBuilder::textselector(BuildItem::Id(res), Offset::simple(b, e))).with_data("s0", "k0", "v0") }).collect();
                    ex.store.annotate_from_iter(builders.into_iter()).map(|_| ()).map_err(|e| format!("{}", e))
                })),
                _ => {
                    let r = run_add_query(&mut ex.store, "ADD ANNOTATION ?new WITH ID \"onlyone\"; TARGET ?x; DATA \"s0\" \"k0\" \"v0\"; { SELECT RESOURCE ?x }");
                    if std::env::var("VERIF_DEBUG").is_ok() { eprintln!("add-query batch: {:?}", r); }
                    Ok(r)
                }
            };
            let after = observe(&ex.store);
            let mut ctx = script.clone();
            ctx.push(format!("{}: {} element(s) annotate() accepts, then one it refuses ({})", howname, ngood, kindname));
            rep.count(&format!("batch:{}:{}", howname, kindname));
            rep.case(Some(&format!("batch {} {} {}", howname, kindname, ngood)));
            match r {
                Err(p) => rep.fail("panic", &format!("C14/batch/{}-panics", howname), ctx, "Ok or Err", &p),
                Ok(Ok(())) => rep.fail("oracle", &format!("C14/batch/{}-accepted-what-annotate-refuses", howname), ctx, "an error", "Ok"),
                Ok(Err(e)) => if before != after {
                    let kept = after.contains("[batch0]") || after.contains("[onlyone]");
                    rep.fail("oracle", &format!("C14/batch/{}/{}", howname, if kept { "elements-before-the-refused-one-stay" } else { "store-changed" }), ctx, "the store as it was", &format!("{} ({})", if kept { "the annotations before the refused element are in the store" } else { "something else changed" }, e.chars().take(100).collect::<String>()));
                },
            }
        }
        // ---- the same through the script language, so that the Lean store model (annotateAll) answers too ----
        for i in 0..(if opts.thorough() { 300 } else { 40 }) {
            let mut g = Gen { rng: Rng::new(opts.seed.wrapping_mul(5_000_011).wrapping_add(i as u64)), rich: false, force_ids: true, res: vec![], sets: vec![], keys: vec![], anns: vec![], nann: 0, data_ids: vec![], next_id: 0, temp_shaped_ids: false };
            let mut script: Vec<String> = vec!["st addres r0 9".into(), "st addres r1 7".into(), "st adddata s0 d0 k0 s:v0".into()];
            let nops = g.rng.below(5);
            script.extend((0..nops).map(|_| g.op()));
            let n = 1 + g.rng.below(4);
            let badpos = g.rng.below(n + 1);   // == n: every element is fine
            let mut items: Vec<String> = vec![];
            for k in 0..n {
                if k == badpos {
                    items.push(g.rng.pick(&["bad^T:nores:b0:b1^s0/k0/s:v0", "bad^T:r0:b100:b200", "bt0^T:r0:b3:b4^s0/k0/s:w", "bad^M[T:r1:b0:b2;T:nores:b0:b1]", "bad^T:r1:b1:b3^s0/~/~/nodata", "bad^A:nosuch"]).to_string());
                } else {
                    items.push(format!("bt{}^T:r{}:b{}:b{}^s0/k{}/s:v{}", k, k % 2, k, k + 2, k % 2, k));
                }
            }
            script.push(format!("st batch {}", items.join(" ")));
            script.push(format!("st annot after T:r0:b0:b1 s0/k0/s:v0"));
            rep.count(if badpos < n { "batch-script:with-a-refused-element" } else { "batch-script:all-accepted" });
            rep.case(Some(&script.join("|")));
            run_script(&mut rep, &script, property);
        }
        std::fs::remove_dir_all(&dir).ok();
    }
    // ---------- C03: identifier resolution on top of histories ----------
    if property.map(|p| p == "C03").unwrap_or(true) {
        let n03 = if opts.thorough() { 3000 } else { 400 };
        for i in 0..n03 {
            let mut g = Gen { rng: Rng::new(opts.seed.wrapping_mul(7_000_003).wrapping_add(i as u64)), rich: false, force_ids: false, res: vec![], sets: vec![], keys: vec![], anns: vec![], nann: 0, data_ids: vec![], next_id: 0, temp_shaped_ids: true };
            let n = 4 + g.rng.below(24);
            let mut script: Vec<String> = (0..n).map(|_| g.op()).collect();
            match g.rng.below(6) {
                0 => script.push("st stripann".into()),
                1 => script.push("st stripdata".into()),
                _ => {}
            }
            let with_reindex = g.rng.chance(35);
            run_ids(&mut rep, &script, with_reindex, &mut g.rng);
            rep.case(Some(&script.join("|")));
            rep.count("ids-script");
        }
    }
    // minimise the recorded oracle/panic failures (model failures are minimised after the model ran)
    let mut done: BTreeSet<(String, String)> = BTreeSet::new();
    for idx in 0..rep.failures.len() {
        let f = rep.failures[idx].clone();
        if !done.insert((f.kind.clone(), f.signature.clone())) {
            continue;
        }
        // (crafted cases that are minimal already; the script runner's oracles must not walk a store whose targets
        // were redirected by compaction: an annotation that ends up targeting itself overflows the stack)
        if f.signature.starts_with("C01/reindex/") || f.signature.starts_with("C14/batch/") { continue; }
        let script: Vec<String> = f.case.iter().filter(|l| l.starts_with("st ") && *l != "st obs").cloned().collect();
        let small = shrink(&script, &f.kind, &f.signature, property);
        let mut r = Report::new("shrunk", "");
        run_script(&mut r, &small, property);
        if let Some(g) = r.failures.iter().find(|g| g.kind == f.kind && g.signature == f.signature) {
            rep.failures[idx] = g.clone();
        }
    }
    rep
}
