//! C18 (text validation): stores reached by operation histories are protected (every mode, optionally in
//! two rounds with annotations added in between, some annotations carrying a delimiter), validated,
//! saved and reloaded (inline JSON or stand-off text files), then loaded against an edited text
//! (substitution, insertion, deletion at any position, multi-byte characters included).
//!
//! Three comparisons:
//!  * implementation vs. direct oracle: per annotation, verdict = (joined text now == joined text at protection time);
//!    the stored checksum is the SHA-1 (recomputed here) of the text at protection time; totals add up;
//!    the protected store is index-consistent (C01 oracles);
//!  * implementation vs. Lean model (`tv` line): stored information, verdicts before and after the edit, totals;
//!  * a reload without an edit changes no verdict.
use crate::common::*;
use crate::fam::store::{consistency, Exec, Gen};
use serde_json::json;
use sha1::{Digest, Sha1};
use stam::*;

const TVSET: &str = "https://w3id.org/stam/extensions/stam-textvalidation/";

#[derive(Clone, Debug)]
pub struct Case {
    pub script: Vec<String>,
    /// protect with `m0` after `split` script lines (if any)
    pub m0: Option<char>,
    pub split: usize,
    pub m1: char,
    /// number of extra multi-selection annotations carrying a delimiter
    pub delims: usize,
    /// (resource id, kind s|i|d, position in code points, character)
    pub edit: Option<(String, char, usize, char)>,
    pub standoff: bool,
}

fn mode_of(c: char) -> TextValidationMode {
    match c {
        'c' => TextValidationMode::Checksum,
        't' => TextValidationMode::Text,
        'b' => TextValidationMode::Both,
        _ => TextValidationMode::Auto,
    }
}

impl Case {
    pub fn cfg_line(&self) -> String {
        format!(
            "tvcfg m0={} split={} m1={} delims={} edit={} standoff={}",
            self.m0.unwrap_or('-'),
            self.split,
            self.m1,
            self.delims,
            match &self.edit { Some((r, k, p, c)) => format!("{}:{}:{}:{:x}", r, k, p, *c as u32), None => "-".into() },
            self.standoff as u8
        )
    }
    pub fn lines(&self) -> Vec<String> {
        let mut l = self.script.clone();
        l.push(self.cfg_line());
        l
    }
    pub fn parse(lines: &[String]) -> Option<Case> {
        let script: Vec<String> = lines.iter().filter(|l| l.starts_with("st ")).cloned().collect();
        let cfg = lines.iter().find(|l| l.starts_with("tvcfg"))?;
        let mut c = Case { script, m0: None, split: 0, m1: 'a', delims: 0, edit: None, standoff: false };
        for kv in cfg.split_whitespace().skip(1) {
            let (k, v) = kv.split_once('=')?;
            match k {
                "m0" => c.m0 = v.chars().next().filter(|x| *x != '-'),
                "split" => c.split = v.parse().ok()?,
                "m1" => c.m1 = v.chars().next()?,
                "delims" => c.delims = v.parse().ok()?,
                "standoff" => c.standoff = v == "1",
                "edit" => {
                    if v != "-" {
                        let p: Vec<&str> = v.split(':').collect();
                        c.edit = Some((p[0].to_string(), p[1].chars().next()?, p[2].parse().ok()?, char::from_u32(u32::from_str_radix(p[3], 16).ok()?)?));
                    }
                }
                _ => {}
            }
        }
        Some(c)
    }
}

fn sha1_hex(t: &str) -> String {
    let mut h = Sha1::new();
    h.update(t);
    h.finalize().iter().map(|b| format!("{:02x}", b)).collect()
}

/// what text validation sees of one annotation
#[derive(Clone, Debug)]
struct View {
    sels: Vec<(usize, usize, usize)>,
    delim: Option<String>,
    checksum: Option<String>,
    text: Option<String>,
    joined: String,
    verdict: Option<bool>,
}

fn views(store: &AnnotationStore) -> Vec<View> {
    store
        .annotations()
        .map(|a| {
            let delim = a.text_validation_delimiter().map(|s| s.to_string());
            View {
                sels: a.textselections().map(|t| (t.resource().handle().as_usize(), t.begin(), t.end())).collect(),
                joined: a.text_join(delim.as_deref().unwrap_or("")),
                delim,
                checksum: a.validation_checksum().map(|s| s.to_string()),
                text: a.validation_text().map(|s| s.to_string()),
                verdict: a.validate_text(),
            }
        })
        .collect()
}

fn texts(store: &AnnotationStore) -> Vec<String> {
    let (_, rslots, _) = store.verif_dump_slots();
    rslots.iter().enumerate().map(|(h, l)| if *l { store.resource(TextResourceHandle::new(h)).map(|r| r.text().to_string()).unwrap_or_default() } else { String::new() }).collect()
}

fn sels_s(s: &[(usize, usize, usize)]) -> String {
    if s.is_empty() { "-".into() } else { s.iter().map(|(r, b, e)| format!("{}.{}.{}", r, b, e)).collect::<Vec<_>>().join("+") }
}
fn list_s(v: Vec<String>, sep: &str) -> String {
    if v.is_empty() { "_".into() } else { v.join(sep) }
}
fn opt_hex(o: &Option<String>) -> String {
    match o { Some(s) => hex(s), None => "~".into() }
}
fn verdict_s(v: Option<bool>) -> &'static str {
    match v { Some(true) => "v", Some(false) => "i", None => "m" }
}

fn apply_edit(t: &str, kind: char, pos: usize, c: char) -> String {
    let mut cs: Vec<char> = t.chars().collect();
    match kind {
        's' => { if pos < cs.len() { cs[pos] = c; } }
        'i' => { let p = pos.min(cs.len()); cs.insert(p, c); }
        _ => { if pos < cs.len() { cs.remove(pos); } }
    }
    cs.into_iter().collect()
}

fn scratch_dir() -> std::path::PathBuf {
    let d = std::path::Path::new(env!("CARGO_MANIFEST_DIR")).join("target").join("scratch").join(format!("tv{}", std::process::id()));
    std::fs::create_dir_all(&d).ok();
    d
}

/// run one case; returns (model line, implementation answer) when the case reached the model comparison
pub fn check_case(rep: &mut Report, case: &Case) -> Option<(String, String)> {
    let ctx = case.lines();
    let mut ex = Exec::new();
    let split = case.split.min(case.script.len());
    for l in &case.script[..split] { ex.exec(l); }
    if let Some(m0) = case.m0 {
        let r = guarded(std::panic::AssertUnwindSafe(|| ex.store.protect_text(mode_of(m0))));
        if !matches!(r, Ok(Ok(()))) {
            rep.fail(if r.is_err() { "panic" } else { "oracle" }, "C18/protect-fails", ctx.clone(), "ok", &format!("{:?}", r.map(|x| x.map_err(|e| format!("{}", e)))));
            return None;
        }
    }
    for l in &case.script[split..] { ex.exec(l); }
    // annotations with several selections and a delimiter
    let resources: Vec<(String, usize)> = ex.store.resources().filter_map(|r| r.id().map(|i| (i.to_string(), r.textlen()))).collect();
    for j in 0..case.delims {
        if resources.is_empty() { break; }
        let (rid, n) = &resources[j % resources.len()];
        if *n < 3 { continue; }
        let k = 2 + j % 2;
        let subs: Vec<SelectorBuilder> = (0..k).map(|x| { let b = (x * 2 + j) % (*n - 1); SelectorBuilder::textselector(rid.clone(), Offset::simple(b, (b + 1 + j % 2).min(*n))) }).collect();
        let _ = guarded(std::panic::AssertUnwindSafe(|| ex.store.annotate(
            AnnotationBuilder::new().with_id(format!("dl{}", j)).with_target(SelectorBuilder::directionalselector(subs)).with_data(TVSET, "delimiter", if j % 2 == 0 { " " } else { "--" }),
        )));
        // and after it one with several selections and NO delimiter of its own (its pieces are joined with nothing)
        let subs2: Vec<SelectorBuilder> = (0..k).map(|x| { let b = (x * 2 + j + 1) % (*n - 1); SelectorBuilder::textselector(rid.clone(), Offset::simple(b, (b + 1 + j % 2).min(*n))) }).collect();
        let _ = guarded(std::panic::AssertUnwindSafe(|| ex.store.annotate(
            AnnotationBuilder::new().with_id(format!("nd{}", j)).with_target(if j % 2 == 0 { SelectorBuilder::compositeselector(subs2) } else { SelectorBuilder::multiselector(subs2) }),
        )));
    }
    let store = &mut ex.store;
    // ------- before protection
    let before = match guarded(std::panic::AssertUnwindSafe(|| views(store))) { Ok(v) => v, Err(m) => { rep.fail("panic", "C18/observe-panics", ctx.clone(), "-", &m); return None; } };
    let texts0 = texts(store);
    for v in &before {
        if v.verdict == Some(false) {
            rep.fail("oracle", "C18/invalid-before-protection", ctx.clone(), "valid or missing", "invalid");
        }
    }
    rep.count(&format!("mode:{}", case.m1));
    let r = guarded(std::panic::AssertUnwindSafe(|| store.protect_text(mode_of(case.m1))));
    if !matches!(r, Ok(Ok(()))) {
        rep.fail(if r.is_err() { "panic" } else { "oracle" }, "C18/protect-fails", ctx.clone(), "ok", &format!("{:?}", r.map(|x| x.map_err(|e| format!("{}", e)))));
        return None;
    }
    let prot = match guarded(std::panic::AssertUnwindSafe(|| views(store))) { Ok(v) => v, Err(m) => { rep.fail("panic", "C18/observe-panics", ctx.clone(), "-", &m); return None; } };
    // ------- oracle: every annotation that selects text is valid, none invalid, stored info is right
    let total = store.validate_text(true);
    let nonempty = prot.iter().filter(|v| !v.joined.is_empty()).count();
    if total.invalid() != 0 || total.valid() != nonempty || total.valid() + total.invalid() + total.missing() != prot.len() {
        rep.fail("oracle", "C18/protected-store-not-valid", ctx.clone(), &format!("valid={} invalid=0 missing={}", nonempty, prot.len() - nonempty), &format!("valid={} invalid={} missing={}", total.valid(), total.invalid(), total.missing()));
    }
    for (v, b) in prot.iter().zip(before.iter()) {
        rep.count(&format!("annotation:{}", if v.joined.is_empty() { "no-text" } else if v.sels.len() > 1 { "multi-selection" } else { "one-selection" }));
        if v.joined != b.joined || v.sels != b.sels {
            rep.fail("oracle", "C18/protection-changed-selection", ctx.clone(), &b.joined, &v.joined);
        }
        if !v.joined.is_empty() && v.verdict != Some(true) {
            rep.fail("oracle", "C18/protected-annotation-not-valid", ctx.clone(), "valid", verdict_s(v.verdict));
        }
        if let Some(c) = &v.checksum {
            if *c != sha1_hex(&v.joined) {
                rep.fail("oracle", "C18/stored-checksum-wrong", ctx.clone(), &sha1_hex(&v.joined), c);
            }
        }
        if let Some(t) = &v.text {
            if *t != v.joined {
                rep.fail("oracle", "C18/stored-text-wrong", ctx.clone(), &v.joined, t);
            }
        }
        let len: usize = v.sels.iter().map(|s| s.2 - s.1).sum();
        let (want_c, want_t) = match case.m1 { 'c' => (true, false), 't' => (false, true), 'b' => (true, true), _ => if len < 40 { (false, true) } else { (true, false) } };
        if !v.joined.is_empty() && ((want_c && v.checksum.is_none()) || (want_t && v.text.is_none())) {
            rep.fail("oracle", "C18/information-missing-for-mode", ctx.clone(), &format!("checksum:{} text:{}", want_c, want_t), &format!("checksum:{} text:{}", v.checksum.is_some(), v.text.is_some()));
        }
        if len >= 40 { rep.count("annotation:long(>=40)"); }
    }
    match guarded(std::panic::AssertUnwindSafe(|| consistency(store))) {
        Ok(bad) => for (sig, detail) in bad { rep.fail("oracle", &format!("C18/protected-store-inconsistent/{}", sig), ctx.clone(), "consistent", &detail); },
        Err(m) => rep.fail("panic", "C18/consistency-check-panics", ctx.clone(), "-", &m),
    }
    // ------- save, (edit), reload
    let dir = scratch_dir();
    let mut edited_rid: Option<String> = None;
    let reloaded: Result<Result<AnnotationStore, StamError>, String> = if case.standoff {
        // texts in stand-off files; the edit is made to the text file on disk
        let (_, rslots, _) = store.verif_dump_slots();
        for (h, l) in rslots.iter().enumerate() {
            if *l {
                let r: &mut TextResource = store.get_mut(TextResourceHandle::new(h)).unwrap();
                if !r.text().is_empty() { r.set_filename(&format!("tvres{}.txt", h)); }
            }
        }
        let p = dir.join("tv.store.stam.json").to_str().unwrap().to_string();
        let w = guarded(std::panic::AssertUnwindSafe(|| store.to_file(&p)));
        if !matches!(w, Ok(Ok(()))) {
            rep.fail(if w.is_err() { "panic" } else { "oracle" }, "C18/save-fails", ctx.clone(), "saved", &format!("{:?}", w.map(|x| x.map_err(|e| format!("{}", e)))));
            std::fs::remove_dir_all(&dir).ok();
            return None;
        }
        if let Some((rid, k, pos, c)) = &case.edit {
            if let Some(r) = store.resource(rid.as_str()) {
                if let Some(f) = r.as_ref().filename() {
                    let path = dir.join(f);
                    if let Ok(t) = std::fs::read_to_string(&path) {
                        std::fs::write(&path, apply_edit(&t, *k, *pos, *c)).ok();
                        edited_rid = Some(rid.clone());
                    }
                }
            }
        }
        guarded(std::panic::AssertUnwindSafe(|| AnnotationStore::from_file(&p, Config::default())))
    } else {
        let cfgc = Config::default().with_dataformat(DataFormat::Json { compact: true });
        let js = guarded(std::panic::AssertUnwindSafe(|| store.to_json_string(&cfgc)));
        let js = match js { Ok(Ok(s)) => s, other => { rep.fail("oracle", "C18/save-fails", ctx.clone(), "saved", &format!("{:?}", other.map(|x| x.map(|_| ()).map_err(|e| format!("{}", e))))); std::fs::remove_dir_all(&dir).ok(); return None; } };
        // the edit is made in the document text itself (the member order of the document matters to the loader)
        let mut js2 = js.clone();
        if let Some((rid, k, pos, c)) = &case.edit {
            if let Some(r) = store.resource(rid.as_str()) {
                let old = format!("{{\"@type\":\"TextResource\",\"@id\":{},\"text\":{}}}", json!(rid), json!(r.text()));
                let new = format!("{{\"@type\":\"TextResource\",\"@id\":{},\"text\":{}}}", json!(rid), json!(apply_edit(r.text(), *k, *pos, *c)));
                if js.contains(&old) {
                    js2 = js.replacen(&old, &new, 1);
                    edited_rid = Some(rid.clone());
                } else {
                    rep.count("harness:resource-member-not-found");
                }
            }
        }
        guarded(std::panic::AssertUnwindSafe(|| AnnotationStore::from_str(&js2, Config::default())))
    };
    std::fs::remove_dir_all(&dir).ok();
    let st2 = match reloaded {
        Ok(Ok(s)) => s,
        Ok(Err(e)) => {
            if edited_rid.is_some() {
                // the edited text no longer holds some selection: loading refuses, nothing is silently accepted
                rep.count("reload:refused-after-edit");
            } else {
                rep.fail("oracle", "C18/reload-fails", ctx.clone(), "the protected store loads", &format!("{}", e).chars().take(200).collect::<String>());
            }
            return None;
        }
        Err(m) => { rep.fail("panic", "C18/reload-panics", ctx.clone(), "-", &m); return None; }
    };
    rep.count(if edited_rid.is_some() { match case.edit.as_ref().unwrap().1 { 's' => "edit:substitution", 'i' => "edit:insertion", _ => "edit:deletion" } } else { "edit:none" });
    rep.count(if case.standoff { "reload:stand-off" } else { "reload:inline" });
    let after = match guarded(std::panic::AssertUnwindSafe(|| views(&st2))) { Ok(v) => v, Err(m) => { rep.fail("panic", "C18/observe-panics", ctx.clone(), "-", &m); return None; } };
    if after.len() != prot.len() {
        rep.fail("oracle", "C18/reload-lost-annotations", ctx.clone(), &prot.len().to_string(), &after.len().to_string());
        return None;
    }
    let total2 = st2.validate_text(true);
    let mut want_invalid = 0;
    let mut flagged = 0;
    for (a, p) in after.iter().zip(prot.iter()) {
        if a.checksum != p.checksum || a.text != p.text || a.delim != p.delim {
            rep.fail("oracle", "C18/reload-changed-information", ctx.clone(), &format!("{:?}/{:?}", p.checksum, p.text), &format!("{:?}/{:?}", a.checksum, a.text));
        }
        let want = if p.joined.is_empty() { None } else { Some(a.joined == p.joined) };
        if want == Some(false) { want_invalid += 1; }
        if a.verdict == Some(false) { flagged += 1; }
        if a.verdict != want {
            let sig = match (want, a.verdict) {
                (Some(false), _) => "C18/changed-text-not-flagged",
                (Some(true), _) if edited_rid.is_none() => "C18/reload-changed-verdict",
                (Some(true), _) => "C18/unchanged-text-flagged",
                _ => "C18/verdict-for-annotation-without-text",
            };
            rep.fail("oracle", sig, ctx.clone(), &format!("{} (protected {:?}, now {:?})", verdict_s(want), p.joined, a.joined), verdict_s(a.verdict));
        }
    }
    if total2.invalid() != want_invalid {
        rep.fail("oracle", "C18/invalid-count-wrong", ctx.clone(), &want_invalid.to_string(), &total2.invalid().to_string());
    }
    if flagged > 0 { rep.count("outcome:some-annotation-flagged"); } else if edited_rid.is_some() { rep.count("outcome:edit-outside-every-selection"); }
    // ------- the model line
    let anns: Vec<String> = before.iter().map(|v| {
        // a checksum that is already present is shown as the text it is the SHA-1 of
        let c = match &v.checksum { None => "~".to_string(), Some(c) if *c == sha1_hex(&v.joined) => hex(&v.joined), Some(_) => "424144".into() };
        format!("{}/{}/{}/{}", opt_hex(&v.delim), c, opt_hex(&v.text), sels_s(&v.sels))
    }).collect();
    let texts1 = texts(&st2);
    let line = format!(
        "tv {} {} {} {} {}",
        case.m1,
        list_s(texts0.iter().map(|t| hex(t)).collect(), ";"),
        list_s(anns, "|"),
        list_s(texts1.iter().map(|t| hex(t)).collect(), ";"),
        list_s(after.iter().map(|v| sels_s(&v.sels)).collect(), "|"),
    );
    let per: Vec<String> = prot.iter().zip(after.iter()).map(|(p, a)| {
        let c = match &p.checksum { None => "~".to_string(), Some(c) if *c == sha1_hex(&p.joined) => hex(&p.joined), Some(_) => "424144".into() };
        format!("c={},t={},{},{}", c, opt_hex(&p.text), verdict_s(p.verdict), verdict_s(a.verdict))
    }).collect();
    let answer = format!("{} R0={}/{}/{} R1={}/{}/{}", per.join(" "), total.valid(), total.invalid(), total.missing(), total2.valid(), total2.invalid(), total2.missing());
    Some((line, answer))
}

fn gen_case(seed: u64, i: usize) -> Case {
    let mut g = Gen::new(seed.wrapping_mul(7_000_003).wrapping_add(i as u64));
    g.force_ids = i % 2 == 0;
    let mut script: Vec<String> = if i % 4 == 3 { crate::fam::store::scenario(&mut g) } else { vec![] };
    let nops = 4 + g.rng.below(22);
    script.extend((0..nops).map(|_| g.op()));
    if i % 3 == 0 {
        // long selections (the automatic mode switches to checksums at 40 characters)
        script.push("st addres big 70".into());
        let b = g.rng.below(20);
        script.push(format!("st annot big1 T:big:b{}:b{}", b, b + 38 + g.rng.below(6)));
        script.push(format!("st annot big2 X[T:big:b{}:b{};T:big:b{}:b{}]", b, b + 19 + g.rng.below(3), 40 + g.rng.below(3), 60 + g.rng.below(3)));
        script.push("st annot big3 T:big:e-45:e-2".into());
        script.push("st annot big4 A:big2".into());
    }
    let modes = ['c', 't', 'b', 'a'];
    let m1 = modes[i % 4];
    let m0 = if g.rng.chance(30) { Some(*g.rng.pick(&modes)) } else { None };
    let split = g.rng.below(script.len() + 1);
    // the edit: a resource the script created, any position (also one past the end), ASCII and multi-byte characters
    let res: Vec<(String, usize)> = script.iter().filter_map(|l| { let t: Vec<&str> = l.split_whitespace().collect(); if t.len() == 4 && t[1] == "addres" { Some((t[2].to_string(), t[3].parse().unwrap_or(0))) } else { None } }).collect();
    let edit = if i % 5 == 4 || res.is_empty() { None } else {
        let (rid, n) = g.rng.pick(&res).clone();
        let kind = *g.rng.pick(&['s', 's', 'i', 'd']);
        let pos = g.rng.below(n + 1);
        // the character now at that position (Exec's resource texts are a fixed pattern): near-miss replacements
        // (other case, other whitespace) as well as unrelated, multi-byte and identical characters
        let orig = crate::fam::store::pattern_char(pos);
        let near = if orig == ' ' { '\t' } else if orig == '\u{e9}' { '\u{c9}' } else { orig.to_ascii_uppercase() };
        let c = *g.rng.pick(&['X', 'a', ' ', '\u{e9}', '\u{1F600}', near, near, orig, '\n']);
        Some((rid, kind, pos, c))
    };
    Case { script, m0, split, m1, delims: g.rng.below(3), edit, standoff: i % 4 == 1 }
}

fn shrink(case: &Case, kind: &str, sig: &str) -> Case {
    let fails = |c: &Case| -> bool {
        let mut r = Report::new("shrink", "");
        let mc = check_case(&mut r, c);
        if kind == "model" { return mc.is_some() && false; }
        r.failures.iter().any(|f| f.kind == kind && f.signature == sig)
    };
    let mut cur = case.clone();
    let mut progress = true;
    while progress {
        progress = false;
        let mut i = cur.script.len();
        while i > 0 {
            i -= 1;
            let mut cand = cur.clone();
            cand.script.remove(i);
            if cand.split > i { cand.split -= 1; }
            if fails(&cand) { cur = cand; progress = true; }
        }
        if cur.delims > 0 { let mut cand = cur.clone(); cand.delims -= 1; if fails(&cand) { cur = cand; progress = true; } }
        if cur.m0.is_some() { let mut cand = cur.clone(); cand.m0 = None; if fails(&cand) { cur = cand; progress = true; } }
    }
    cur
}

pub fn replay(lines: &[String]) -> Option<(String, String)> {
    let case = Case::parse(lines)?;
    let mut r = Report::new("replay", "");
    let mc = check_case(&mut r, &case);
    for f in &r.failures {
        println!("  ORACLE: {} {} expected={} got={}", f.kind, f.signature, f.expected, f.got);
    }
    mc
}

pub fn run(opts: &Opts) -> Report {
    let mut rep = Report::new(
        "validation",
        "stores reached by seeded operation histories (store family generator: every selector kind, removals, relative and end-aligned offsets) plus long selections and delimiter-carrying multi-selection annotations; \
         protected in each mode (30% in two rounds with different modes), validated, saved and reloaded inline or with stand-off text files, 80% with one edit (substitution/insertion/deletion, any position, ASCII and multi-byte) to one resource; \
         non-trivial = at least 2 annotations select text; distinct = distinct cases",
    );
    let n = if opts.thorough() { 6000 } else { 800 };
    for i in 0..n {
        let case = gen_case(opts.seed, i);
        let key = case.lines().join("|");
        let before_fail = rep.failures.len();
        let mc = check_case(&mut rep, &case);
        let nontrivial = case.script.iter().filter(|l| l.contains(" annot ") && (l.contains("T:") || l.contains("AO:"))).count() >= 2;
        rep.case(if nontrivial { Some(&key) } else { None });
        if let Some((line, answer)) = mc {
            let mut lines = case.lines();
            lines.push(line.clone());
            // context lines first (not sent to the model): only the `tv` line is a protocol line
            rep.model_case_ctx(case.lines(), vec![line], vec![answer.clone()], "validation");
            if i == 0 { rep.sample(json!({"case": lines, "implementation": answer})); }
        }
        let _ = before_fail;
    }
    // minimise oracle failures
    let mut done: std::collections::BTreeSet<(String, String)> = Default::default();
    for idx in 0..rep.failures.len() {
        let f = rep.failures[idx].clone();
        if !done.insert((f.kind.clone(), f.signature.clone())) { continue; }
        if let Some(case) = Case::parse(&f.case) {
            let small = shrink(&case, &f.kind, &f.signature);
            let mut r = Report::new("shrunk", "");
            check_case(&mut r, &small);
            if let Some(g) = r.failures.iter().find(|g| g.kind == f.kind && g.signature == f.signature) { rep.failures[idx] = g.clone(); }
        }
    }
    crate::fam::validation_crafted::run_all(&mut rep);
    rep
}
