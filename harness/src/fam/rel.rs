//! C13: relation tests. Implementation vs naive interval-arithmetic definitions and algebraic laws
//! (oracle), and vs the Lean model (`rel` protocol lines).
use crate::common::*;
use serde_json::json;
use stam::*;

#[derive(Clone, Copy, Debug, PartialEq)]
pub enum K {
    Equals, Overlaps, Embeds, Embedded, Before, After, Precedes, Succeeds, SameBegin, SameEnd, InSet, SameRange,
}
pub const KINDS: [K; 12] = [
    K::Equals, K::Overlaps, K::Embeds, K::Embedded, K::Before, K::After, K::Precedes, K::Succeeds,
    K::SameBegin, K::SameEnd, K::InSet, K::SameRange,
];

#[derive(Clone, Copy, Debug, PartialEq)]
pub struct OpSpec {
    pub k: K,
    pub all: bool,
    pub neg: bool,
    pub limit: Option<usize>,
    pub ws: bool,
}

impl OpSpec {
    pub fn name(&self) -> &'static str {
        match self.k {
            K::Equals => "equals", K::Overlaps => "overlaps", K::Embeds => "embeds", K::Embedded => "embedded",
            K::Before => "before", K::After => "after", K::Precedes => "precedes", K::Succeeds => "succeeds",
            K::SameBegin => "samebegin", K::SameEnd => "sameend", K::InSet => "inset", K::SameRange => "samerange",
        }
    }
    pub fn to_op(&self) -> TextSelectionOperator {
        let (all, negate) = (self.all, self.neg);
        match self.k {
            K::Equals => TextSelectionOperator::Equals { all, negate },
            K::Overlaps => TextSelectionOperator::Overlaps { all, negate },
            K::Embeds => TextSelectionOperator::Embeds { all, negate },
            K::Embedded => TextSelectionOperator::Embedded { all, negate, limit: self.limit },
            K::Before => TextSelectionOperator::Before { all, negate, limit: self.limit },
            K::After => TextSelectionOperator::After { all, negate, limit: self.limit },
            K::Precedes => TextSelectionOperator::Precedes { all, negate, allow_whitespace: self.ws },
            K::Succeeds => TextSelectionOperator::Succeeds { all, negate, allow_whitespace: self.ws },
            K::SameBegin => TextSelectionOperator::SameBegin { all, negate },
            K::SameEnd => TextSelectionOperator::SameEnd { all, negate },
            K::InSet => TextSelectionOperator::InSet { all, negate },
            K::SameRange => TextSelectionOperator::SameRange { all, negate },
        }
    }
    pub fn proto(&self) -> String {
        let x = match self.k {
            K::Embedded | K::Before | K::After => match self.limit {
                None => "n".to_string(),
                Some(l) => l.to_string(),
            },
            K::Precedes | K::Succeeds => (self.ws as u8).to_string(),
            _ => "-".to_string(),
        };
        format!("{} {} {} {}", self.name(), self.all as u8, self.neg as u8, x)
    }
    pub fn sig(&self) -> String {
        format!(
            "{}{}{}{}{}",
            self.name(),
            if self.all { "+all" } else { "" },
            if self.neg { "+neg" } else { "" },
            if self.limit.is_some() { "+limit" } else { "" },
            if self.ws { "+ws" } else { "" }
        )
    }
}

pub fn all_ops(limits: &[Option<usize>]) -> Vec<OpSpec> {
    let mut v = vec![];
    for k in KINDS {
        for all in [false, true] {
            for neg in [false, true] {
                match k {
                    K::Embedded | K::Before | K::After => {
                        for l in limits {
                            v.push(OpSpec { k, all, neg, limit: *l, ws: false });
                        }
                    }
                    K::Precedes | K::Succeeds => {
                        for ws in [false, true] {
                            v.push(OpSpec { k, all, neg, limit: None, ws });
                        }
                    }
                    _ => v.push(OpSpec { k, all, neg, limit: None, ws: false }),
                }
            }
        }
    }
    v
}

/// naive interval-arithmetic definition of the *positive* relation between [ab,ae) and [cb,ce)
pub fn naive_pos(op: &OpSpec, a: (usize, usize), c: (usize, usize), text: &[char]) -> bool {
    let gap_ws = |x: usize, y: usize| x <= y && y <= text.len() && text[x..y].iter().all(|ch| ch.is_whitespace());
    let lim = |d: usize| op.limit.map(|l| d <= l).unwrap_or(true);
    match op.k {
        K::Equals | K::InSet | K::SameRange => a == c,
        K::Overlaps => {
            let proper = a.0 < c.1 && c.0 < a.1 && a.0 < a.1 && c.0 < c.1;
            proper || (a.0 <= c.0 && c.1 <= a.1) || (c.0 <= a.0 && a.1 <= c.1)
        }
        K::Embeds => a.0 <= c.0 && c.1 <= a.1,
        K::Embedded => c.0 <= a.0 && a.1 <= c.1 && lim(a.0.wrapping_sub(c.0)) && lim(c.1.wrapping_sub(a.1)),
        K::Before => a.1 <= c.0 && lim(c.0 - a.1),
        K::After => c.1 <= a.0 && lim(a.0 - c.1),
        K::Precedes => a.1 == c.0 || (op.ws && a.1 < c.0 && gap_ws(a.1, c.0)),
        K::Succeeds => c.1 == a.0 || (op.ws && c.1 < a.0 && gap_ws(c.1, a.0)),
        K::SameBegin => a.0 == c.0,
        K::SameEnd => a.1 == c.1,
    }
}
pub fn naive(op: &OpSpec, a: (usize, usize), c: (usize, usize), text: &[char]) -> bool {
    naive_pos(op, a, c, text) != op.neg
}

fn converse(op: &OpSpec) -> Option<OpSpec> {
    let mut o = *op;
    o.k = match op.k {
        K::Embeds if op.limit.is_none() => K::Embedded,
        K::Embedded if op.limit.is_none() => K::Embeds,
        K::Before => K::After,
        K::After => K::Before,
        K::Precedes => K::Succeeds,
        K::Succeeds => K::Precedes,
        K::Equals => K::Equals,
        K::Overlaps => K::Overlaps,
        _ => return None,
    };
    Some(o)
}

pub struct Ctx {
    pub store: AnnotationStore,
    pub text: Vec<char>,
    pub wsbits: String,
}

/// whitespace bit of the protocol: `1` ASCII whitespace, `2` other Unicode whitespace (the model treats both as whitespace)
pub fn wsbit(c: char) -> char {
    if c.is_ascii_whitespace() { '1' } else if c.is_whitespace() { '2' } else { '0' }
}
pub fn unwsbit(c: char) -> char {
    match c { '1' => ' ', '2' => '\u{00a0}', _ => 'a' }
}

pub fn make_ctx(text: &str) -> Ctx {
    let mut store = new_store();
    store
        .add_resource(TextResourceBuilder::new().with_id("r").with_text(text))
        .expect("resource");
    let chars: Vec<char> = text.chars().collect();
    let wsbits: String = if chars.is_empty() {
        "-".into()
    } else {
        chars.iter().map(|c| crate::fam::rel::wsbit(*c)).collect()
    };
    Ctx { store, text: chars, wsbits }
}

fn ts(res: &TextResource, r: (usize, usize)) -> TextSelection {
    // unbound selection with the given absolute range
    res.textselection_by_offset(&Offset::simple(r.0, r.1)).expect("selection")
}

fn mkset(res: &TextResource, items: &[(usize, usize)], sorted: bool) -> TextSelectionSet {
    let mut s = TextSelectionSet::new(res.handle().unwrap());
    for r in items {
        s.add(ts(res, *r));
    }
    if sorted {
        s.sort();
    }
    s
}

fn setstr(items: &[(usize, usize)], sorted: bool) -> String {
    let mut v: Vec<(usize, usize)> = items.to_vec();
    if sorted {
        v.sort();
    }
    format!(
        "{}:{}",
        if sorted { "s" } else { "u" },
        v.iter().map(|(b, e)| format!("{}-{}", b, e)).collect::<Vec<_>>().join(",")
    )
}

fn b2s(r: &Result<bool, String>) -> String {
    match r {
        Ok(b) => b.to_string(),
        Err(m) => format!("panic:{}", m.chars().take(60).collect::<String>()),
    }
}

fn ranges(n: usize) -> Vec<(usize, usize)> {
    let mut v = vec![];
    for b in 0..=n {
        for e in b..=n {
            v.push((b, e));
        }
    }
    v
}

/// Execute one `rel …` protocol line on the real library (used by --replay).
pub fn exec_line(line: &str) -> String {
    let t: Vec<&str> = line.split_whitespace().collect();
    if t.len() != 9 || t[0] != "rel" {
        return "bad-op".into();
    }
    let text: String = if t[2] == "-" { String::new() } else { t[2].chars().map(crate::fam::rel::unwsbit).collect() };
    let ctx = make_ctx(&text);
    let resitem = ctx.store.resource("r").unwrap();
    let res: &TextResource = resitem.as_ref();
    let k = match KINDS.iter().find(|k| OpSpec { k: **k, all: false, neg: false, limit: None, ws: false }.name() == t[3]) {
        Some(k) => *k,
        None => return "bad-op".into(),
    };
    let op = OpSpec {
        k,
        all: t[4] == "1",
        neg: t[5] == "1",
        limit: if matches!(k, K::Embedded | K::Before | K::After) { t[6].parse().ok() } else { None },
        ws: matches!(k, K::Precedes | K::Succeeds) && t[6] == "1",
    };
    let parse_set = |s: &str| -> (Vec<(usize, usize)>, bool) {
        let (f, items) = s.split_once(':').unwrap_or(("u", ""));
        let v = items
            .split(',')
            .filter(|x| !x.is_empty())
            .filter_map(|x| x.split_once('-').map(|(b, e)| (b.parse().unwrap_or(0), e.parse().unwrap_or(0))))
            .collect();
        (v, f == "s")
    };
    let (a, sa) = parse_set(t[7]);
    let (b, sb) = parse_set(t[8]);
    let o = op.to_op();
    let r = match t[1] {
        "tt" => guarded(|| ts(res, a[0]).test(&o, &ts(res, b[0]), res)),
        "ts" => guarded(|| ts(res, a[0]).test_set(&o, &mkset(res, &b, sb), res)),
        "st" => guarded(|| mkset(res, &a, sa).test(&o, &ts(res, b[0]), res)),
        "ss" => guarded(|| mkset(res, &a, sa).test_set(&o, &mkset(res, &b, sb), res)),
        _ => return "bad-op".into(),
    };
    b2s(&r)
}

pub fn run(opts: &Opts) -> Report {
    let mut rep = Report::new(
        "rel",
        "pairwise: every pair of ranges over the text x every operator/modifier combination (exhaustive); \
         set level: sets of <=3 ranges (exhaustive over a smaller text in thorough, seeded random otherwise); \
         a case is non-trivial when the positive relation is true for at least one of the two orientations or the operator is negated; \
         distinct = distinct (operator, ranges) tuples",
    );
    // text with whitespace runs, non-ASCII, and whitespace at the very end
    let text = if opts.thorough() { "ab \u{2028}c\u{00e9}\u{00a0}\u{1F600}d\u{3000}" } else { "ab \u{00a0}c\u{00e9}\u{3000}d" };
    let ctx = make_ctx(text);
    let resitem = ctx.store.resource("r").unwrap();
    let res: &TextResource = resitem.as_ref();
    let n = ctx.text.len();
    let ops = all_ops(&[None, Some(0), Some(2), Some(usize::MAX)]);
    let rs = ranges(n);

    // ---------- a known selection (one that carries a handle) against a selection taken by offset alone: the relation is
    // one of ranges, the handle has no part in it ----------
    {
        let mut bstore = new_store();
        bstore.add_resource(TextResourceBuilder::new().with_id("r").with_text(text)).expect("resource");
        for (i, a) in rs.iter().enumerate() { let _ = bstore.annotate(AnnotationBuilder::new().with_id(format!("known{}", i)).with_target(SelectorBuilder::textselector("r", Offset::simple(a.0, a.1)))); }
        let bres_item = bstore.resource("r").unwrap();
        let bres: &TextResource = bres_item.as_ref();
        for a in &rs {
            let known: Option<TextSelection> = bres_item.textselection(&Offset::simple(a.0, a.1)).ok().map(|t| t.inner().clone());
            let ta = match known { Some(t) if t.handle().is_some() => t, _ => continue };
            // the same range without a handle (what `intersection()` hands out), against the known selection
            if a.0 < a.1 {
                if let Some((unbound, _, _)) = ta.intersection(&ta) {
                    if unbound.handle().is_none() {
                        for op in &ops {
                            let o = op.to_op();
                            let (g1, g2) = (guarded(|| ta.test(&o, &unbound, bres)), guarded(|| unbound.test(&o, &ta, bres)));
                            let w = naive(op, *a, *a, &ctx.text);
                            rep.count("tt:known-vs-copy-without-handle");
                            let line = format!("known {}-{} {} the same range without a handle", a.0, a.1, op.proto());
                            if g1 != Ok(w) || g2 != Ok(w) { rep.fail(if g1.is_err() || g2.is_err() { "panic" } else { "oracle" }, &format!("pair-known-vs-copy-without-handle/{}", op.sig()), vec![format!("text={:?}", text), line], &w.to_string(), &format!("{} / {} (the other way round)", b2s(&g1), b2s(&g2))); }
                        }
                    }
                }
            }
            for c in &rs {
                let tc = ts(bres, *c);
                for op in &ops {
                    let o = op.to_op();
                    let (g1, g2) = (guarded(|| ta.test(&o, &tc, bres)), guarded(|| tc.test(&o, &ta, bres)));
                    let (w1, w2) = (naive(op, *a, *c, &ctx.text), naive(op, *c, *a, &ctx.text));
                    rep.count("tt:known-vs-by-offset");
                    let line = format!("known {}-{} {} by-offset {}-{}", a.0, a.1, op.proto(), c.0, c.1);
                    if g1 != Ok(w1) { rep.fail(if g1.is_err() { "panic" } else { "oracle" }, &format!("pair-known-vs-by-offset/{}", op.sig()), vec![format!("text={:?}", text), line.clone()], &w1.to_string(), &b2s(&g1)); }
                    if g2 != Ok(w2) { rep.fail(if g2.is_err() { "panic" } else { "oracle" }, &format!("pair-known-vs-by-offset/{}", op.sig()), vec![format!("text={:?}", text), format!("{} (the other way round)", line)], &w2.to_string(), &b2s(&g2)); }
                }
            }
        }
    }

    // ---------- pairwise, exhaustive ----------
    for a in &rs {
        for c in &rs {
            let (ta, tc) = (ts(res, *a), ts(res, *c));
            for op in &ops {
                let o = op.to_op();
                let got = guarded(|| ta.test(&o, &tc, res));
                let want = naive(op, *a, *c, &ctx.text);
                let key = format!("tt {} {:?} {:?}", op.proto(), a, c);
                let nontrivial = naive_pos(op, *a, *c, &ctx.text) || naive_pos(op, *c, *a, &ctx.text) || op.neg;
                rep.case(if nontrivial { Some(&key) } else { None });
                rep.count(&format!("tt:{}", op.name()));
                let line = format!("rel tt {} {} u:{}-{} u:{}-{}", ctx.wsbits, op.proto(), a.0, a.1, c.0, c.1);
                if got != Ok(want) {
                    let kind = if got.is_err() { "panic" } else { "oracle" };
                    rep.fail(kind, &format!("pair/{}", op.sig()), vec![format!("text={:?}", text), line.clone()], &want.to_string(), &b2s(&got));
                }
                // laws, checked on the implementation directly
                if let (Ok(g), Some(cv)) = (&got, converse(op)) {
                    let g2 = guarded(|| tc.test(&cv.to_op(), &ta, res));
                    if g2 != Ok(*g) {
                        rep.fail("oracle", &format!("converse/{}", op.sig()), vec![format!("text={:?}", text), line.clone(), format!("converse {}", cv.proto())], &g.to_string(), &b2s(&g2));
                    }
                }
                if let Ok(g) = &got {
                    let g2 = guarded(|| ta.test(&o.toggle_negate(), &tc, res));
                    if g2 != Ok(!*g) {
                        rep.fail("oracle", &format!("negate/{}", op.sig()), vec![format!("text={:?}", text), line.clone(), "toggle_negate".into()], &(!*g).to_string(), &b2s(&g2));
                    }
                    let g3 = guarded(|| ta.test(&o.toggle_all(), &tc, res));
                    if g3 != Ok(*g) {
                        rep.fail("oracle", &format!("toggle_all/{}", op.sig()), vec![format!("text={:?}", text), line.clone(), "toggle_all".into()], &g.to_string(), &b2s(&g3));
                    }
                }
                if op.k == K::Equals && !op.neg && got == Ok(true) {
                    for k2 in [K::Embeds, K::Embedded, K::SameBegin, K::SameEnd, K::Overlaps] {
                        let o2 = OpSpec { k: k2, all: op.all, neg: false, limit: None, ws: false };
                        let g2 = guarded(|| ta.test(&o2.to_op(), &tc, res));
                        if g2 != Ok(true) {
                            rep.fail("oracle", &format!("equals-implies/{}", o2.sig()), vec![format!("text={:?}", text), line.clone()], "true", &b2s(&g2));
                        }
                    }
                }
                // singleton sets behave like their members (all four entry points)
                let sa = mkset(res, &[*a], false);
                let sc = mkset(res, &[*c], false);
                let want_s = b2s(&got);
                for (kind, g) in [
                    ("ts", guarded(|| ta.test_set(&o, &sc, res))),
                    ("st", guarded(|| sa.test(&o, &tc, res))),
                    ("ss", guarded(|| sa.test_set(&o, &sc, res))),
                ] {
                    if b2s(&g) != want_s {
                        let k = if g.is_err() { "panic" } else { "oracle" };
                        rep.fail(k, &format!("singleton-{}/{}", kind, op.sig()), vec![format!("text={:?}", text), line.clone(), format!("entry {}", kind)], &want_s, &b2s(&g));
                    }
                }
                rep.model_case(vec![line], vec![b2s(&got)], &format!("pair/{}", op.sig()));
            }
        }
    }
    rep.sample(json!({"text": text, "op": ops[5].proto(), "a": [2,5], "c": [4,7], "entry": "TextSelection::test"}));

    // ---------- set level ----------
    let mut rng = Rng::new(opts.seed);
    let small = ranges(n.min(if opts.thorough() { 6 } else { 5 }));
    let nsets = if opts.thorough() { 6000 } else { 700 };
    let mut set_cases: Vec<(Vec<(usize, usize)>, bool, Vec<(usize, usize)>, bool)> = vec![];
    for _ in 0..nsets {
        let la = 1 + rng.below(3);
        let lb = rng.below(4);
        let a: Vec<_> = (0..la).map(|_| *rng.pick(&small)).collect();
        let b: Vec<_> = (0..lb).map(|_| *rng.pick(&small)).collect();
        set_cases.push((a, rng.chance(30), b, rng.chance(30)));
    }
    // sets that hold a selection more than once (`add` on a set that was not sorted pushes; `sort` keeps duplicates): the
    // same members with different multiplicities, every combination of sorted and not
    for _ in 0..(if opts.thorough() { 60 } else { 12 }) {
        let (x, y, z) = (*rng.pick(&small), *rng.pick(&small), *rng.pick(&small));
        for (a, b) in [(vec![x, x, y], vec![x, y, y]), (vec![y, x, x], vec![y, y, x]), (vec![x, x, y, z], vec![x, y, z, z]), (vec![x, x], vec![x, x]), (vec![x, y, x], vec![y, y, z]),
                       // the same members stored a different number of times
                       (vec![x, x], vec![x]), (vec![x], vec![x, x, x]), (vec![x, x, y], vec![x, y]), (vec![y, x], vec![x, y, y, x])] {
            for (s1, s2) in [(true, true), (true, false), (false, true), (false, false)] { set_cases.push((a.clone(), s1, b.clone(), s2)); }
        }
    }
    for (a, sa_sorted, b, sb_sorted) in &set_cases {
        // a sorted TextSelectionSet deduplicates on insertion only after sort(); mirror: sort() keeps duplicates
        let sa = mkset(res, a, *sa_sorted);
        let sb = mkset(res, b, *sb_sorted);
        let astr = setstr(a, *sa_sorted);
        let bstr = setstr(b, *sb_sorted);
        for op in &ops {
            let o = op.to_op();
            let got = guarded(|| sa.test_set(&o, &sb, res));
            let key = format!("ss {} {} {}", op.proto(), astr, bstr);
            rep.case(Some(&key));
            rep.count(&format!("ss:{}", op.name()));
            let line = format!("rel ss {} {} {} {}", ctx.wsbits, op.proto(), astr, bstr);
            if let Err(m) = &got {
                rep.fail("panic", &format!("set/{}", op.sig()), vec![format!("text={:?}", text), line.clone()], "a boolean", &format!("panic:{}", m));
            } else if let Ok(g) = &got {
                let g2 = guarded(|| sa.test_set(&o.toggle_negate(), &sb, res));
                if g2 != Ok(!*g) {
                    rep.fail("oracle", &format!("set-negate/{}", op.sig()), vec![format!("text={:?}", text), line.clone(), "toggle_negate".into()], &(!*g).to_string(), &b2s(&g2));
                }
            }
            // the laws of the property on sets: embeds is the converse of embedded, before of after, precedes of succeeds;
            // equals and overlaps are symmetric (both sets not empty, without negation: a negated test is the complement)
            if let (Ok(g), Some(cv), false, false) = (&got, converse(op), op.neg, b.is_empty()) {
                let g2 = guarded(|| sb.test_set(&cv.to_op(), &sa, res));
                if g2.is_ok() && g2 != Ok(*g) {
                    rep.fail("oracle", &format!("set-converse/{}", op.sig()), vec![format!("text={:?}", text), line.clone(), format!("and the other way round: {} with {}", bstr, cv.proto())], &format!("the same answer both ways ({})", g), &b2s(&g2));
                }
            }
            // a set is a set: whether sort() was called on it or not, the answer is the same
            // (SAMERANGE with `all` is left out: it tests the whole range of "the" leftmost and "the" rightmost item, and with
            // several items sharing the lowest begin or the highest end which item that is depends on the order of insertion,
            // sorted or not)
            if (*sa_sorted || *sb_sorted) && !(op.k == K::SameRange && op.all) {
                let (ua, ub) = (mkset(res, a, false), mkset(res, b, false));
                let g_unsorted = guarded(|| ua.test_set(&o, &ub, res));
                if g_unsorted.is_ok() && got.is_ok() && g_unsorted != got {
                    rep.fail("oracle", &format!("set-sorted-differs/{}", op.sig()), vec![format!("text={:?}", text), line.clone(), "the same sets without sort()".into()], &b2s(&g_unsorted), &b2s(&got));
                }
            }
            let mut lines = vec![line];
            let mut outs = vec![b2s(&got)];
            // the two mixed entry points on the first element
            let ta = ts(res, a[0]);
            let g_ts = guarded(|| ta.test_set(&o, &sb, res));
            lines.push(format!("rel ts {} {} u:{}-{} {}", ctx.wsbits, op.proto(), a[0].0, a[0].1, bstr));
            outs.push(b2s(&g_ts));
            if let Err(m) = &g_ts {
                rep.fail("panic", &format!("set-ts/{}", op.sig()), vec![format!("text={:?}", text), lines[1].clone()], "a boolean", &format!("panic:{}", m));
            }
            // "a test on singleton sets equals the test on their single members", whatever stands on the other side: the
            // set that holds one selection (however many times) against a set is that selection against the set
            // (SAMERANGE with `all` apart, see above)
            if a.iter().all(|x| *x == a[0]) && !(op.k == K::SameRange && op.all) && got.is_ok() && g_ts.is_ok() && got != g_ts {
                rep.fail("oracle", &format!("singleton-left/{}", op.sig()), vec![format!("text={:?}", text), lines[0].clone(), lines[1].clone()], &format!("the same answer for the set {{{}}} and for its member ({})", astr, b2s(&g_ts)), &b2s(&got));
            }
            if let Some(c0) = b.get(0) {
                let tc = ts(res, *c0);
                let g_st = guarded(|| sa.test(&o, &tc, res));
                lines.push(format!("rel st {} {} {} u:{}-{}", ctx.wsbits, op.proto(), astr, c0.0, c0.1));
                outs.push(b2s(&g_st));
                if let Err(m) = &g_st {
                    rep.fail("panic", &format!("set-st/{}", op.sig()), vec![format!("text={:?}", text), lines[2].clone()], "a boolean", &format!("panic:{}", m));
                }
            }
            rep.model_case(lines, outs, &format!("set/{}", op.sig()));
        }
    }
    rep.sample(json!({"text": text, "op": ops[20].proto(), "A": setstr(&set_cases[0].0, set_cases[0].1), "B": setstr(&set_cases[0].2, set_cases[0].3), "entry": "TextSelectionSet::test_set"}));
    rep.exhaustive = false;
    rep.extra.insert("pairwise_exhaustive_over_text_len".into(), json!(n));
    rep.extra.insert("operator_combinations".into(), json!(ops.len()));
    crate::fam::rel_crafted::run_all(&mut rep);
    rep
}
