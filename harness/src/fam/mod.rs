use crate::common::*;
pub mod rel;
pub mod offset;
pub mod utf8;
pub mod related;
pub mod textops;
pub mod store;
pub mod data;
pub mod serial;
pub mod validation;
pub mod transpose;
pub mod transpose_crafted;
pub mod validation_crafted;
pub mod related_crafted;
pub mod rel_crafted;
pub mod data_crafted;
pub mod textops_crafted;
pub mod stamql;
pub mod webanno;
pub mod concurrent;
pub mod untrusted;
pub mod query;
pub mod query2;
pub mod iterapi;

pub fn run(family: &str, opts: &Opts) -> Option<Report> {
    // "family@m<interval>s<0|1>" runs the family under a store configuration variant
    let (family, variant) = match family.split_once('@') {
        Some((f, v)) => (f, Some(v)),
        None => (family, None),
    };
    if let Some(v) = variant {
        let v = v.trim_start_matches('m');
        let (m, s) = v.split_once('s')?;
        set_cfg(Some(CfgVariant { milestone: m.parse().ok()?, shrink: s == "1" }));
    }
    let mut r = run_base(family, opts)?;
    if let Some(v) = variant {
        r.family = format!("{}@{}", family, v);
    }
    Some(r)
}

fn run_base(family: &str, opts: &Opts) -> Option<Report> {
    match family {
        "rel" => Some(rel::run(opts)),
        "offset" => Some(offset::run(opts)),
        "utf8" => Some(utf8::run(opts)),
        "related" => Some(related::run(opts)),
        "textops" => Some(textops::run(opts)),
        "store" => Some(store::run(opts)),
        "data" => Some(data::run(opts)),
        "serial" => Some(serial::run(opts)),
        "validation" => Some(validation::run(opts)),
        "transpose" => Some(transpose::run(opts)),
        "stamql" => Some(stamql::run(opts)),
        "webanno" => Some(webanno::run(opts)),
        "concurrent" => Some(concurrent::run(opts)),
        "untrusted" => Some(untrusted::run(opts)),
        "query" => Some(query::run(opts)),
        _ => None,
    }
}

/// Execute one protocol line on the real library; `None` if the line is not a protocol line.
pub fn exec_line(line: &str) -> Option<String> {
    match line.split_whitespace().next() {
        Some("rel") => Some(rel::exec_line(line)),
        Some("off") => Some(offset::exec_line(line)),
        Some("u8") => Some(utf8::exec_line(line)),
        Some("find") => Some(related::exec_line(line)),
        Some("txt") => Some(textops::exec_line(line)),
        Some("rx") => Some(textops::exec_rx(line)),
        Some("dv") => Some(data::exec_line(line)),
        Some("ql") => Some(stamql::exec_line(line)),
        Some("wj") => Some(webanno::exec_line(line)),
        Some("tid") => Some(untrusted::exec_line(line)),
        Some("hs") | Some("lim") => Some(query::exec_line(&crate::common::new_store(), line)),
        _ => None,
    }
}
