use crate::common::*;
pub mod rel;
pub mod offset;

pub fn run(family: &str, opts: &Opts) -> Option<Report> {
    match family {
        "rel" => Some(rel::run(opts)),
        "offset" => Some(offset::run(opts)),
        _ => None,
    }
}

/// Execute one protocol line on the real library; `None` if the line is not a protocol line.
pub fn exec_line(line: &str) -> Option<String> {
    match line.split_whitespace().next() {
        Some("rel") => Some(rel::exec_line(line)),
        Some("off") => Some(offset::exec_line(line)),
        _ => None,
    }
}
