//! C05 (STAM JSON), C11 (CBOR), C15 (STAM CSV): round trips of stores reached by operation histories.
//! The state before saving and after loading are compared through a handle-independent canonical
//! form (JSON, CSV renumber handles) or through the full observation and raw index dumps (CBOR keeps
//! handles and stores the indices).
use crate::common::*;
use crate::fam::offset::cur_str;
use crate::fam::store::{consistency, observe, show_value, Exec, Gen};
use serde_json::json;
use stam::*;
use std::collections::BTreeMap;

fn scratch_dir() -> std::path::PathBuf {
    let d = std::path::Path::new(env!("CARGO_MANIFEST_DIR")).join("target").join("scratch").join(format!("{}", std::process::id()));
    std::fs::create_dir_all(&d).ok();
    d
}

/// handle-independent rendering: items are named by their position among the live items of their kind
pub fn canon(store: &AnnotationStore, values_as_text: bool) -> Vec<String> {
    let mut out = vec![];
    let (aslots, rslots, sslots) = store.verif_dump_slots();
    let ord = |slots: &Vec<bool>, h: usize| -> String {
        if slots.get(h) == Some(&true) { format!("{}", slots[..h].iter().filter(|x| **x).count()) } else { format!("dead{}", h) }
    };
    for (h, l) in rslots.iter().enumerate() {
        if !*l { continue; }
        let r = store.resource(TextResourceHandle::new(h)).unwrap();
        out.push(format!("R{}[{}] text={:?}", ord(&rslots, h), r.id().unwrap_or("~"), r.text()));
    }
    let mut dataord: BTreeMap<(usize, usize), String> = BTreeMap::new();
    let mut keyord: BTreeMap<(usize, usize), String> = BTreeMap::new();
    for (h, l) in sslots.iter().enumerate() {
        if !*l { continue; }
        let s = store.dataset(AnnotationDataSetHandle::new(h)).unwrap();
        let (kslots, dslots) = s.as_ref().verif_dump_slots();
        let keys: Vec<String> = kslots.iter().enumerate().filter(|(_, l)| **l).map(|(kh, _)| {
            keyord.insert((h, kh), ord(&kslots, kh));
            s.key(DataKeyHandle::new(kh)).unwrap().id().unwrap_or("~").to_string()
        }).collect();
        let data: Vec<String> = dslots.iter().enumerate().filter(|(_, l)| **l).map(|(dh, _)| {
            let d = s.annotationdata(AnnotationDataHandle::new(dh)).unwrap();
            dataord.insert((h, dh), ord(&dslots, dh));
            let v = if values_as_text { format!("{}", d.value()) } else { show_value(d.value()) };
            format!("{}:{}={}", d.id().unwrap_or("~"), d.key().id().unwrap_or("~"), v)
        }).collect();
        out.push(format!("D{}[{}] keys={:?} data={:?}", ord(&sslots, h), s.id().unwrap_or("~"), keys, data));
    }
    let sel = |x: &Selector| -> String {
        let off = |x: &Selector| -> String { x.offset(store).map(|o| format!("{}:{}", cur_str(&o.begin), cur_str(&o.end))).unwrap_or("?".into()) };
        match x {
            Selector::ResourceSelector(r) => format!("R{}", ord(&rslots, r.as_usize())),
            Selector::TextSelector(r, _, _) => format!("T{}:{}", ord(&rslots, r.as_usize()), off(x)),
            Selector::AnnotationSelector(a, None) => format!("A{}", ord(&aslots, a.as_usize())),
            Selector::AnnotationSelector(a, Some(_)) => format!("AO{}:{}", ord(&aslots, a.as_usize()), off(x)),
            Selector::DataSetSelector(s) => format!("S{}", ord(&sslots, s.as_usize())),
            Selector::DataKeySelector(s, k) => format!("K{}.{}", ord(&sslots, s.as_usize()), keyord.get(&(s.as_usize(), k.as_usize())).cloned().unwrap_or("dead".into())),
            Selector::AnnotationDataSelector(s, d) => format!("D{}.{}", ord(&sslots, s.as_usize()), dataord.get(&(s.as_usize(), d.as_usize())).cloned().unwrap_or("dead".into())),
            _ => "?".into(),
        }
    };
    for (h, l) in aslots.iter().enumerate() {
        if !*l { continue; }
        let a = store.annotation(AnnotationHandle::new(h)).unwrap();
        let t = a.as_ref().target();
        let kind = match t { Selector::MultiSelector(_) => "M", Selector::CompositeSelector(_) => "C", Selector::DirectionalSelector(_) => "X", _ => "" };
        let tgt = if kind.is_empty() { sel(t) } else {
            let subs: Vec<String> = t.iter(store, false).filter(|s| !s.as_ref().is_complex() && !matches!(s.as_ref(), Selector::RangedTextSelector { .. } | Selector::RangedAnnotationSelector { .. })).map(|s| sel(s.as_ref())).collect();
            format!("{}[{}]", kind, subs.join(";"))
        };
        let data: Vec<String> = a.as_ref().raw_data().iter().map(|(s, d)| format!("{}.{}", ord(&sslots, s.as_usize()), dataord.get(&(s.as_usize(), d.as_usize())).cloned().unwrap_or("dead".into()))).collect();
        let text: Vec<String> = a.textselections().map(|t| format!("{}-{}", t.begin(), t.end())).collect();
        out.push(format!("A{}[{}] {} data={:?} abs={:?}", ord(&aslots, h), a.id().unwrap_or("~"), tgt, data, text));
    }
    out
}

// ---------------------------------------------------------------------------------------------
// the rows of the CSV annotations table vs. the Lean model (StamModel/CsvRow.lean): `cr row` / `cr data` lines
// ---------------------------------------------------------------------------------------------

fn cr_cursor(c: &Cursor) -> String { match c { Cursor::BeginAligned(n) => format!("b{}", n), Cursor::EndAligned(z) => format!("e{}", z) } }

/// a simple selector as the model's `Sub`
fn cr_sub(store: &AnnotationStore, sel: &Selector, out: &mut Vec<String>) -> Option<()> {
    let rid = |h: &TextResourceHandle| store.resource(*h).and_then(|r| r.id().map(|x| x.to_string()));
    let sid = |h: &AnnotationDataSetHandle| store.dataset(*h).map(|d| d.id().map(|x| x.to_string()).unwrap_or_else(|| format!("!S{}", h.as_usize())));
    match sel {
        Selector::TextSelector(r, ..) => { let o = sel.offset(store)?; out.extend(["t".to_string(), hex(&rid(r)?), cr_cursor(&o.begin), cr_cursor(&o.end)]); }
        Selector::AnnotationSelector(a, t) => {
            let aid = store.annotation(*a).map(|x| x.id().map(|s| s.to_string()).unwrap_or_else(|| format!("!A{}", a.as_usize())))?;
            match (t, sel.offset(store)) { (Some(_), Some(o)) => out.extend(["a".to_string(), hex(&aid), cr_cursor(&o.begin), cr_cursor(&o.end)]), _ => out.extend(["a".to_string(), hex(&aid), "-".to_string()]) }
        }
        Selector::ResourceSelector(r) => out.extend(["r".to_string(), hex(&rid(r)?)]),
        Selector::DataSetSelector(d) => out.extend(["s".to_string(), hex(&sid(d)?)]),
        Selector::DataKeySelector(d, k) => { let key = store.dataset(*d)?.key(*k)?.id()?.to_string(); out.extend(["k".to_string(), hex(&sid(d)?), hex(&key)]); }
        Selector::AnnotationDataSelector(d, x) => { let ds = store.dataset(*d)?; let data = ds.annotationdata(*x)?; let id = data.id().map(|s| s.to_string()).unwrap_or_else(|| format!("!D{}", x.as_usize())); out.extend(["d".to_string(), hex(&sid(d)?), hex(&id)]); }
        _ => return None,
    }
    Some(())
}

/// the target the row reader built, in the model's notation (identifiers as given)
fn cr_builder(sb: &SelectorBuilder) -> Option<String> {
    fn id<T: stam::Storable>(b: &BuildItem<T>) -> Option<String> { match b { BuildItem::Id(s) => Some(hex(s)), BuildItem::IdRef(s) => Some(hex(s)), _ => None } }
    fn sub(sb: &SelectorBuilder) -> Option<String> {
        Some(match sb {
            SelectorBuilder::TextSelector(r, o) => format!("t {} {} {}", id(r)?, cr_cursor(&o.begin), cr_cursor(&o.end)),
            SelectorBuilder::AnnotationSelector(a, None) => format!("a {} -", id(a)?),
            SelectorBuilder::AnnotationSelector(a, Some(o)) => format!("a {} {} {}", id(a)?, cr_cursor(&o.begin), cr_cursor(&o.end)),
            SelectorBuilder::ResourceSelector(r) => format!("r {}", id(r)?),
            SelectorBuilder::DataSetSelector(d) => format!("s {}", id(d)?),
            SelectorBuilder::DataKeySelector(d, k) => format!("k {} {}", id(d)?, id(k)?),
            SelectorBuilder::AnnotationDataSelector(d, x) => format!("d {} {}", id(d)?, id(x)?),
            _ => return None,
        })
    }
    match sb {
        SelectorBuilder::MultiSelector(v) | SelectorBuilder::CompositeSelector(v) | SelectorBuilder::DirectionalSelector(v) => {
            let subs: Option<Vec<String>> = v.iter().map(sub).collect();
            Some(format!("{} {} {}", match sb { SelectorBuilder::MultiSelector(_) => "CM", SelectorBuilder::CompositeSelector(_) => "CC", _ => "CX" }, v.len(), subs?.join(" ")).trim_end().to_string())
        }
        _ => Some(format!("S {}", sub(sb)?)),
    }
}

fn cr_target(store: &AnnotationStore, sel: &Selector) -> Option<String> {
    let mut out: Vec<String> = vec![];
    match sel {
        Selector::CompositeSelector(v) | Selector::MultiSelector(v) | Selector::DirectionalSelector(v) => {
            let mut subs: Vec<String> = vec![];
            let mut n = 0;
            for s in v {
                match s {
                    Selector::RangedTextSelector { .. } | Selector::RangedAnnotationSelector { .. } => for x in s.iter(store, false) { cr_sub(store, &x, &mut subs)?; n += 1; },
                    _ => { cr_sub(store, s, &mut subs)?; n += 1; }
                }
            }
            out.push(match sel { Selector::CompositeSelector(_) => "CC", Selector::MultiSelector(_) => "CM", _ => "CX" }.to_string());
            out.push(n.to_string());
            out.extend(subs);
        }
        _ => { out.push("S".into()); cr_sub(store, sel, &mut out)?; }
    }
    Some(out.join(" "))
}

// ---------------------------------------------------------------------------------------------
// the JSON of every annotation's target vs. the Lean model (StamModel/JsonSel.lean): `js write` / `js read` lines
// ---------------------------------------------------------------------------------------------

/// a JSON tree in the prefix notation of the driver; None when it holds something the model has no form for
fn js_tokens(v: &serde_json::Value, out: &mut Vec<String>) -> Option<()> {
    match v {
        serde_json::Value::Null => out.push("Z".into()),
        serde_json::Value::String(s) => out.push(format!("S{}", hex(s))),
        serde_json::Value::Number(n) => match n.as_i64() { Some(i) => out.push(format!("N{}", i)), None => { if n.is_u64() { return None; } out.push(format!("X{}", hex(&n.to_string()))) } },
        serde_json::Value::Array(a) => { out.push(format!("A{}", a.len())); for x in a { js_tokens(x, out)?; } }
        serde_json::Value::Object(o) => { let mut ks: Vec<&String> = o.keys().collect(); ks.sort(); out.push(format!("O{}", o.len())); for k in ks { out.push(hex(k)); js_tokens(&o[k], out)?; } }
        serde_json::Value::Bool(b) => out.push(if *b { "T".into() } else { "F".into() }),
    }
    Some(())
}

/// a data value in the prefix notation of the model
fn dvj_spec(v: &DataValue, out: &mut Vec<String>) -> Option<()> {
    match v {
        DataValue::Null => out.push("N".into()),
        DataValue::Bool(b) => out.push(if *b { "T".into() } else { "F".into() }),
        DataValue::Int(i) => out.push(format!("I{}", i)),
        DataValue::String(s) => out.push(format!("S{}", hex(s))),
        DataValue::Float(f) => { if !f.is_finite() { return None; } out.push(format!("X{}", hex(&format!("{:?}", f)))) }
        // (chrono's serde form: RFC 3339 with `Z` for UTC and as many sub-second digits as needed)
        DataValue::Datetime(d) => out.push(format!("D{}", hex(&d.to_rfc3339_opts(chrono::SecondsFormat::AutoSi, true)))),
        DataValue::List(l) => { out.push(format!("L{}", l.len())); for x in l { dvj_spec(x, out)?; } }
    }
    Some(())
}

fn json_paths(v: &serde_json::Value, cur: Vec<String>, out: &mut Vec<Vec<String>>) {
    match v {
        serde_json::Value::Object(o) => for (k, x) in o { let mut p = cur.clone(); p.push(k.clone()); out.push(p.clone()); json_paths(x, p, out); },
        serde_json::Value::Array(a) => for (i, x) in a.iter().enumerate() { let mut p = cur.clone(); p.push(i.to_string()); json_paths(x, p, out); },
        _ => {}
    }
}
fn json_at<'a>(v: &'a mut serde_json::Value, p: &[String]) -> Option<&'a mut serde_json::Value> { let mut c = v; for k in p { c = match c { serde_json::Value::Object(o) => o.get_mut(k)?, serde_json::Value::Array(a) => a.get_mut(k.parse::<usize>().ok()?)?, _ => return None }; } Some(c) }

/// the JSON of every data value of the document: against the model's writer, and (as written and damaged) against its reader
fn json_values_vs_model(rep: &mut Report, store: &AnnotationStore, doc: &serde_json::Value, ctx: &Vec<String>) {
    let sets = match doc.get("annotationsets").and_then(|x| x.as_array()) { Some(a) => a, None => return };
    let live: Vec<_> = store.datasets().collect();
    if sets.len() != live.len() { return; }
    for (ds, j) in live.iter().zip(sets.iter()) {
        let arr = match j.get("data").and_then(|x| x.as_array()) { Some(a) => a, None => continue };
        let data: Vec<_> = ds.data().collect();
        if arr.len() != data.len() { continue; }
        for (d, dj) in data.iter().zip(arr.iter()) {
            let vj = match dj.get("value") { Some(v) => v, None => continue };
            let mut toks = vec![];
            if js_tokens(vj, &mut toks).is_none() { continue; }
            let mut spec = vec![];
            if dvj_spec(d.value(), &mut spec).is_some() {
                rep.count("json:value-write-vs-model");
                rep.model_case_ctx(ctx.clone(), vec![format!("js wval {}", spec.join(" "))], vec![toks.join(" ")], "json-value-write");
            }
            let mut variants = vec![vj.clone()];
            let mut ps = vec![]; json_paths(vj, vec![], &mut ps);
            for p in ps.iter().take(12) {
                let (parent, last) = p.split_at(p.len() - 1);
                { let mut t = vj.clone(); if let Some(serde_json::Value::Object(o)) = json_at(&mut t, parent) { o.remove(&last[0]); variants.push(t); } }
                { let mut t = vj.clone(); if let Some(x) = json_at(&mut t, p) { *x = match x { serde_json::Value::String(_) => serde_json::json!(7), serde_json::Value::Number(_) => serde_json::json!("7"), serde_json::Value::Bool(_) => serde_json::json!(0), serde_json::Value::Array(_) => serde_json::json!("x"), _ => serde_json::Value::Null }; variants.push(t); } }
                { let mut t = vj.clone(); if let Some(x) = json_at(&mut t, p) { if let (serde_json::Value::String(s), true) = (&*x, last[0] == "@type") { *x = serde_json::json!(match s.as_str() { "Int" => "Float", "Float" => "Int", "String" => "Datetime", "Datetime" => "String", "Bool" => "Int", "Null" => "String", "List" => "String", _ => "Nonsense" }); variants.push(t); } } }
            }
            for v in variants {
                let mut toks = vec![];
                if js_tokens(&v, &mut toks).is_none() { continue; }
                // (an integer beyond 2^53 read as a float is rounded by the float type: outside the model, which keeps literals)
                if toks.iter().any(|t| t.strip_prefix('N').and_then(|n| n.parse::<i64>().ok()).map(|n| n.unsigned_abs() > (1u64 << 53)).unwrap_or(false)) && toks.iter().any(|t| *t == format!("S{}", hex("Float"))) { continue; }
                let got = match guarded(std::panic::AssertUnwindSafe(|| serde_json::from_value::<DataValue>(v.clone()).map_err(|e| format!("{}", e)))) {
                    Err(m) => format!("panic:{}", m.chars().take(60).collect::<String>()),
                    Ok(Err(_)) => "err".to_string(),
                    Ok(Ok(dv)) => { let mut sp = vec![]; match dvj_spec(&dv, &mut sp) { Some(()) => format!("ok {}", sp.join(" ")), None => continue } }
                };
                rep.count("json:value-read-vs-model");
                rep.model_case_ctx(ctx.clone(), vec![format!("js rval {}", toks.join(" "))], vec![got], "json-value-read");
            }
        }
    }
}

fn json_targets_vs_model(rep: &mut Report, store: &AnnotationStore, js: &str, ctx: &Vec<String>) {
    let doc: serde_json::Value = match serde_json::from_str(js) { Ok(v) => v, Err(_) => return };
    json_values_vs_model(rep, store, &doc, ctx);
    let arr = match doc.get("annotations").and_then(|x| x.as_array()) { Some(a) => a, None => return };
    let anns: Vec<_> = store.annotations().collect();
    if arr.len() != anns.len() { return; }
    for (a, j) in anns.iter().zip(arr.iter()) {
        let target = match j.get("target") { Some(t) => t, None => continue };
        // the writer
        if let Some(spec) = cr_target(store, a.as_ref().target()) {
            let mut toks = vec![];
            if js_tokens(target, &mut toks).is_some() {
                rep.count("json:target-write-vs-model");
                rep.model_case_ctx(ctx.clone(), vec![format!("js write {}", spec)], vec![toks.join(" ")], "json-target-write");
            }
        }
        // the reader: the target as written, and damaged variants (a member removed, retyped, renamed; the tag changed)
        let mut variants: Vec<serde_json::Value> = vec![target.clone()];
        fn paths(v: &serde_json::Value, cur: Vec<String>, out: &mut Vec<Vec<String>>) {
            match v {
                serde_json::Value::Object(o) => for (k, x) in o { let mut p = cur.clone(); p.push(k.clone()); out.push(p.clone()); paths(x, p, out); },
                serde_json::Value::Array(a) => for (i, x) in a.iter().enumerate() { let mut p = cur.clone(); p.push(i.to_string()); paths(x, p, out); },
                _ => {}
            }
        }
        fn at<'a>(v: &'a mut serde_json::Value, p: &[String]) -> Option<&'a mut serde_json::Value> { let mut c = v; for k in p { c = match c { serde_json::Value::Object(o) => o.get_mut(k)?, serde_json::Value::Array(a) => a.get_mut(k.parse::<usize>().ok()?)?, _ => return None }; } Some(c) }
        let mut ps = vec![]; paths(target, vec![], &mut ps);
        for p in ps.iter().take(24) {
            let (parent, last) = p.split_at(p.len() - 1);
            // remove the member
            { let mut t = target.clone(); if let Some(serde_json::Value::Object(o)) = at(&mut t, parent) { o.remove(&last[0]); variants.push(t); } }
            // retype it
            { let mut t = target.clone(); if let Some(x) = at(&mut t, p) { *x = match x { serde_json::Value::String(_) => serde_json::json!(7), serde_json::Value::Number(_) => serde_json::json!("7"), serde_json::Value::Object(_) => serde_json::Value::Null, _ => serde_json::json!("x") }; variants.push(t); } }
            // negate a number / change a tag
            { let mut t = target.clone(); if let Some(x) = at(&mut t, p) { match x { serde_json::Value::Number(n) => { if let Some(i) = n.as_i64() { *x = serde_json::json!(-i - 1); variants.push(t); } } serde_json::Value::String(s) if last[0] == "@type" => { *x = serde_json::json!(match s.as_str() { "BeginAlignedCursor" => "EndAlignedCursor", "EndAlignedCursor" => "BeginAlignedCursor", "TextSelector" => "ResourceSelector", "ResourceSelector" => "TextSelector", "AnnotationSelector" => "TextSelector", "MultiSelector" => "DirectionalSelector", _ => "Nonsense" }); variants.push(t); } _ => {} } } }
        }
        for v in variants {
            let mut toks = vec![];
            if js_tokens(&v, &mut toks).is_none() { continue; }
            let got = match guarded(std::panic::AssertUnwindSafe(|| serde_json::from_value::<SelectorBuilder>(v.clone()).map_err(|e| format!("{}", e)))) {
                Err(m) => format!("panic:{}", m.chars().take(60).collect::<String>()),
                Ok(Err(_)) => "err".to_string(),
                Ok(Ok(sb)) => match cr_builder(&sb) { Some(t) => format!("ok {}", t), None => "unrenderable".to_string() },
            };
            if got == "unrenderable" { continue; }
            rep.count("json:target-read-vs-model");
            rep.model_case_ctx(ctx.clone(), vec![format!("js read {}", toks.join(" "))], vec![got], "json-target-read");
        }
    }
}

/// every row of the written annotations table: its eight target cells and its two data cells against the model's
fn csv_rows_vs_model(rep: &mut Report, store: &AnnotationStore, sub: &std::path::Path, ctx: &Vec<String>) {
    let file = match std::fs::read_dir(sub).ok().and_then(|rd| rd.flatten().map(|e| e.path()).find(|p| p.file_name().map(|n| n.to_string_lossy().contains(".annotations.")).unwrap_or(false))) { Some(f) => f, None => return };
    let mut rdr = match csv::ReaderBuilder::new().has_headers(true).flexible(true).from_path(&file) { Ok(r) => r, Err(_) => return };
    let headers: Vec<String> = rdr.headers().map(|h| h.iter().map(|x| x.to_string()).collect()).unwrap_or_default();
    let col = |name: &str| headers.iter().position(|h| h == name);
    let cols: Vec<Option<usize>> = ["SelectorType", "TargetResource", "TargetAnnotation", "TargetDataSet", "BeginOffset", "EndOffset", "TargetKey", "TargetData", "AnnotationData", "AnnotationDataSet"].iter().map(|n| col(n)).collect();
    if store.annotations().next().is_none() { return; } // (an empty table has no header line)
    if cols.iter().any(|c| c.is_none()) { rep.fail("oracle", "C15/annotations-table/columns-missing", ctx.clone(), "the eleven columns", &format!("{:?}", headers)); return; }
    let rows: Vec<csv::StringRecord> = rdr.records().flatten().collect();
    let anns: Vec<_> = store.annotations().collect();
    if rows.len() != anns.len() { rep.fail("oracle", "C15/annotations-table/row-count", ctx.clone(), &format!("{} rows", anns.len()), &format!("{} rows", rows.len())); return; }
    for (a, row) in anns.iter().zip(rows.iter()) {
        let cell = |k: usize| row.get(cols[k].unwrap()).unwrap_or("").to_string();
        if let Some(t) = cr_target(store, a.as_ref().target()) {
            let line = format!("cr row {}", t);
            let got: Vec<String> = (0..8).map(|k| hex(&cell(k))).collect();
            rep.count("csv:row-vs-model");
            rep.model_case_ctx(ctx.clone(), vec![line], vec![got.join(" ")], "csv-row");
        }
        // the READER on the same cells and on damaged ones (list entries dropped, added, blanked, cells swapped)
        {
            let cells: Vec<String> = (0..8).map(|k| cell(k)).collect();
            let mut variants: Vec<Vec<String>> = vec![cells.clone()];
            let seed = fnv(&cells.join("|"));
            for k in 0..8usize {
                let mut c = cells.clone(); if let Some(p) = c[k].rfind(';') { c[k].truncate(p); } else { c[k].clear(); } variants.push(c);
                let mut c = cells.clone(); c[k].push_str(";x"); variants.push(c);
                let mut c = cells.clone(); c[k].clear(); variants.push(c);
                let parts: Vec<String> = cells[k].split(';').map(|x| x.to_string()).collect();
                if parts.len() > 1 { let mut q = parts.clone(); q[1 + (seed as usize >> 7) % (parts.len() - 1)].clear(); let mut c = cells.clone(); c[k] = q.join(";"); variants.push(c); }
            }
            { let mut c = cells.clone(); c.swap(4, 5); variants.push(c); }
            { let mut c = cells.clone(); c[0] = c[0].replace("TextSelector", "AnnotationSelector"); variants.push(c); }
            { let mut c = cells.clone(); c[0] = c[0].replace("AnnotationSelector", "TextSelector"); variants.push(c); }
            { let mut c = cells.clone(); c[0] = c[0].replace("ResourceSelector", "DataKeySelector"); variants.push(c); }
            variants.dedup();
            for c in variants {
                let arr: [&str; 8] = [&c[0], &c[1], &c[2], &c[3], &c[4], &c[5], &c[6], &c[7]];
                let got = match guarded(std::panic::AssertUnwindSafe(|| stam::verif_hooks_csv::verif_csv_row_target(arr))) {
                    Err(m) => format!("panic:{}", m.chars().take(60).collect::<String>()),
                    Ok(Err(_)) => "err".to_string(),
                    Ok(Ok(sb)) => match cr_builder(&sb) { Some(t) => format!("ok {}", t), None => "unrenderable".to_string() },
                };
                if got == "unrenderable" { continue; }
                if got.starts_with("panic") { rep.fail("panic", "C15/row-reader-panics", ctx.clone(), "a target or an error", &format!("{} on cells {:?}", got, c)); continue; }
                rep.count("csv:read-vs-model");
                rep.model_case_ctx(ctx.clone(), vec![format!("cr read {}", c.iter().map(|x| hex(x)).collect::<Vec<_>>().join(" "))], vec![got], "csv-read");
            }
        }
        // the data cells: (dataset, data identifier) pairs in the annotation's order
        let items: Vec<(String, String)> = a.data().map(|d| (d.set().id().map(|s| s.to_string()).unwrap_or_else(|| format!("!S{}", d.set().handle().as_usize())), d.id().map(|s| s.to_string()).unwrap_or_else(|| format!("!D{}", d.handle().as_usize())))).collect();
        if items.iter().all(|(s, d)| !s.is_empty() && !d.is_empty() && !s.contains(';') && !d.contains(';')) {
            let line = format!("cr data {} {}", items.len(), items.iter().map(|(s, d)| format!("{} {}", hex(s), hex(d))).collect::<Vec<_>>().join(" "));
            rep.count("csv:data-vs-model");
            rep.model_case_ctx(ctx.clone(), vec![line], vec![format!("{} {} same", hex(&cell(8)), hex(&cell(9)))], "csv-data");
        }
    }
}

/// replace identifiers of the form !A<n> / !D<n> (temporary ids) by the id-less marker
fn strip_temp_ids(line: &str) -> String {
    let mut out = String::new();
    let cs: Vec<char> = line.chars().collect();
    let mut i = 0;
    while i < cs.len() {
        if cs[i] == '!' && i + 2 < cs.len() && (cs[i + 1] == 'A' || cs[i + 1] == 'D') && cs[i + 2].is_ascii_digit() && i > 0 && (cs[i - 1] == '[' || cs[i - 1] == '"') {
            let mut j = i + 2;
            while j < cs.len() && cs[j].is_ascii_digit() { j += 1; }
            // only a whole identifier of that form is a temporary id ("!A0x" is an ordinary public id)
            if j >= cs.len() || matches!(cs[j], ']' | ':' | '"') {
                out.push('~');
                i = j;
            } else {
                out.push(cs[i]);
                i += 1;
            }
        } else {
            out.push(cs[i]);
            i += 1;
        }
    }
    out
}

fn first_diff(a: &[String], b: &[String]) -> (String, String) {
    for i in 0..a.len().max(b.len()) {
        let x = a.get(i).cloned().unwrap_or("<missing>".into());
        let y = b.get(i).cloned().unwrap_or("<missing>".into());
        if x != y {
            return (x, y);
        }
    }
    ("".into(), "".into())
}

fn class_of(line: &str) -> &'static str {
    if line.starts_with('R') { "resource" } else if line.starts_with('D') { "dataset" } else if line.starts_with('A') {
        if line.contains("] K") { "annotation-keyselector" }
        else if line.contains("] D") { "annotation-dataselector" }
        else if line.contains("] AO") || line.contains(";AO") || line.contains("[AO") { "annotation-relative-offset" }
        else if line.contains(":e") { "annotation-endaligned" }
        else if line.contains("] M") || line.contains("] C") || line.contains("] X") { "annotation-complex" }
        else { "annotation" }
    } else { "other" }
}

fn check_script(rep: &mut Report, script: &[String], property: Option<&str>, dir: &std::path::Path, i: usize) -> Vec<String> {
    let want = |p: &str| property.map(|x| x == p).unwrap_or(true);
    let script: Vec<String> = script.to_vec();
        let mut ex = Exec::new();
        for l in &script {
            ex.exec(l);
        }
        let store = &mut ex.store;
        let before = canon(store, false);
        let nann = before.iter().filter(|l| l.starts_with('A')).count();
        let skey = script.join("|");
        rep.case(if nann >= 3 && script.iter().any(|l| l.starts_with("st rm")) { Some(&skey) } else { None });
        let ctx: Vec<String> = script.clone();
        // ---------------- C05: STAM JSON ----------------
        if want("C05") {
            for compact in [false, true] {
                let cfg = Config::default().with_dataformat(DataFormat::Json { compact });
                let js = guarded(std::panic::AssertUnwindSafe(|| store.to_json_string(&cfg)));
                rep.count("json:write");
                let js = match js {
                    Ok(Ok(s)) => s,
                    other => { rep.fail(if other.is_err() { "panic" } else { "oracle" }, "C05/write-fails", ctx.clone(), "a JSON document", &format!("{:?}", other.map(|r| r.map(|_| ())))); continue; }
                };
                if !compact { json_targets_vs_model(rep, store, &js, &ctx); }
                let loaded = guarded(std::panic::AssertUnwindSafe(|| AnnotationStore::from_str(&js, Config::default())));
                match loaded {
                    Ok(Ok(st2)) => {
                        let after = canon(&st2, false);
                        if after != before {
                            let (x, y) = first_diff(&before, &after);
                            rep.fail("oracle", &format!("C05/roundtrip/{}", class_of(if x == "<missing>" { &y } else { &x })), ctx.clone(), &x, &y);
                        }
                        let js2 = guarded(std::panic::AssertUnwindSafe(|| st2.to_json_string(&cfg)));
                        if js2.as_ref().ok().and_then(|r| r.as_ref().ok()) != Some(&js) {
                            let a: Vec<String> = js.lines().map(|s| s.to_string()).collect();
                            let b: Vec<String> = js2.ok().and_then(|r| r.ok()).unwrap_or_default().lines().map(|s| s.to_string()).collect();
                            let (x, y) = first_diff(&a, &b);
                            rep.fail("oracle", "C05/second-write-differs", ctx.clone(), &x, &y);
                        }
                    }
                    Ok(Err(e)) => {
                        let msg = format!("{}", e);
                        let cls = if msg.contains("missing field") { "missing-field" } else if msg.contains("not found") || msg.contains("NotFound") { "unresolved-reference" } else { "other" };
                        rep.fail("oracle", &format!("C05/reload-fails/{}", cls), ctx.clone(), "the store loads", &msg.chars().take(300).collect::<String>());
                    }
                    Err(m) => rep.fail("panic", "C05/reload-panics", ctx.clone(), "the store loads", &m),
                }
            }
        }
        // ---------------- C05: stand-off files (@include) ----------------
        if want("C05") && i % 3 == 1 {
            let sub = dir.join(format!("inc{}", i));
            std::fs::create_dir_all(&sub).ok();
            let (_, rslots, sslots) = store.verif_dump_slots();
            let mut marked = 0;
            for (h, l) in rslots.iter().enumerate() {
                if *l && (h + i) % 2 == 0 {
                    let r: &mut TextResource = store.get_mut(TextResourceHandle::new(h)).unwrap();
                    // (plain text, or a STAM JSON resource file)
                    if (h / 2 + i / 3) % 2 == 0 { r.set_filename(&format!("res{}.txt", h)); rep.count("json:include:resource-as-text"); } else { r.set_filename(&format!("res{}.resource.stam.json", h)); rep.count("json:include:resource-as-json"); }
                    marked += 1;
                }
            }
            for (h, l) in sslots.iter().enumerate() {
                if *l && (h + i) % 2 == 1 {
                    let d: &mut AnnotationDataSet = store.get_mut(AnnotationDataSetHandle::new(h)).unwrap();
                    d.set_filename(&format!("set{}.dataset.stam.json", h));
                    marked += 1;
                }
            }
            if marked > 0 {
                rep.count("json:include");
                let path = sub.join("x.store.stam.json");
                let p = path.to_str().unwrap().to_string();
                let w = guarded(std::panic::AssertUnwindSafe(|| store.to_file(&p)));
                if !matches!(w, Ok(Ok(()))) {
                    rep.fail(if w.is_err() { "panic" } else { "oracle" }, "C05/include/write-fails", ctx.clone(), "written", &format!("{:?}", w.map(|r| r.map_err(|e| format!("{}", e)))));
                } else {
                    let main = std::fs::read_to_string(&path).unwrap_or_default();
                    if !main.contains("@include") {
                        rep.fail("oracle", "C05/include/not-standoff", ctx.clone(), "an @include in the store file", "none");
                    }
                    match guarded(std::panic::AssertUnwindSafe(|| AnnotationStore::from_file(&p, Config::default()))) {
                        Ok(Ok(st2)) => {
                            let after = canon(&st2, false);
                            if after != before {
                                let (x, y) = first_diff(&before, &after);
                                rep.fail("oracle", &format!("C05/include/roundtrip/{}", class_of(if x == "<missing>" { &y } else { &x })), ctx.clone(), &x, &y);
                            }
                        }
                        Ok(Err(e)) => {
                            let msg = format!("{}", e);
                            let mut cls = "other".to_string();
                            if msg.contains("No such file") {
                                cls = "missing-standoff-file/other".into();
                                if let Some(pos) = msg.find("/res") {
                                    let num: String = msg[pos + 4..].chars().take_while(|c| c.is_ascii_digit()).collect();
                                    if let Ok(h) = num.parse::<usize>() {
                                        if store.resource(TextResourceHandle::new(h)).map(|r| r.text().is_empty()).unwrap_or(false) {
                                            cls = "missing-standoff-file/empty-text-resource".into();
                                        }
                                    }
                                }
                            }
                            rep.fail("oracle", &format!("C05/include/reload-fails/{}", cls), ctx.clone(), "the store loads", &msg.chars().take(300).collect::<String>());
                        }
                        Err(m) => rep.fail("panic", "C05/include/reload-panics", ctx.clone(), "the store loads", &m),
                    }
                    // ---- the store is changed after it was saved, and saved again: the stand-off files must follow
                    let mut g2 = Gen::new(0x5eed_0000 + i as u64);
                    g2.rich = true;
                    g2.force_ids = true;
                    let mut tail: Vec<String> = vec![];
                    for _ in 0..40 {
                        if tail.len() >= 1 + (i % 3) { break; }
                        let op = g2.op();
                        if op.starts_with("st rm") || op.starts_with("st adddata") || op.starts_with("st annot") {
                            let r = crate::fam::store::exec_on(store, &op);
                            if r.starts_with("ok") { tail.push(op); }
                        }
                    }
                    if !tail.is_empty() {
                        rep.count("json:include:save-change-save");
                        for t in &tail { rep.count(&format!("json:include:tail:{}", t.split(' ').nth(1).unwrap_or("?"))); }
                        let mut ctx2 = ctx.clone();
                        ctx2.push("-- saved with stand-off files, then: --".into());
                        ctx2.extend(tail.iter().cloned());
                        let before2 = canon(store, false);
                        let w = guarded(std::panic::AssertUnwindSafe(|| store.to_file(&p)));
                        if !matches!(w, Ok(Ok(()))) {
                            rep.fail(if w.is_err() { "panic" } else { "oracle" }, "C05/include/second-save-fails", ctx2.clone(), "written", &format!("{:?}", w.map(|r| r.map_err(|e| format!("{}", e)))));
                        } else {
                            match guarded(std::panic::AssertUnwindSafe(|| AnnotationStore::from_file(&p, Config::default()))) {
                                Ok(Ok(st3)) => {
                                    let after = canon(&st3, false);
                                    if after != before2 {
                                        let (x, y) = first_diff(&before2, &after);
                                        rep.fail("oracle", &format!("C05/include/stale-after-second-save/{}", class_of(if x == "<missing>" { &y } else { &x })), ctx2.clone(), &x, &y);
                                    }
                                }
                                Ok(Err(e)) => { let msg = format!("{}", e); if !msg.contains("No such file") { rep.fail("oracle", "C05/include/reload-after-second-save-fails", ctx2.clone(), "the store loads", &msg.chars().take(300).collect::<String>()); } }
                                Err(m) => rep.fail("panic", "C05/include/reload-panics", ctx2.clone(), "the store loads", &m),
                            }
                        }
                    }
                }
            }
            std::fs::remove_dir_all(&sub).ok();
        }
        // ---------------- C11: CBOR ----------------
        if want("C11") {
            // every third store: half of its resources and datasets are given stand-off file names first
            let standoff = i % 3 == 2;
            if standoff {
                let (_, rslots, sslots) = store.verif_dump_slots();
                for (h, l) in rslots.iter().enumerate() { if *l && (h + i) % 2 == 0 { let r: &mut TextResource = store.get_mut(TextResourceHandle::new(h)).unwrap(); r.set_filename(&format!("res{}.txt", h)); } }
                for (h, l) in sslots.iter().enumerate() { if *l && (h + i) % 2 == 1 { let d: &mut AnnotationDataSet = store.get_mut(AnnotationDataSetHandle::new(h)).unwrap(); d.set_filename(&format!("set{}.dataset.stam.json", h)); } }
            }
            let path = dir.join(format!("s{}.store.stam.cbor", i));
            let p = path.to_str().unwrap().to_string();
            let obs_before = observe(store);
            let rel_before = store.verif_dump_relations();
            let ids_before = store.verif_dump_idmaps();
            let w = guarded(std::panic::AssertUnwindSafe(|| store.to_file(&p)));
            rep.count("cbor:write");
            if !matches!(w, Ok(Ok(()))) {
                rep.fail(if w.is_err() { "panic" } else { "oracle" }, "C11/write-fails", ctx.clone(), "written", &format!("{:?}", w.map(|r| r.map_err(|e| format!("{}", e)))));
            } else {
                match guarded(std::panic::AssertUnwindSafe(|| AnnotationStore::from_file(&p, Config::default()))) {
                    Ok(Ok(st2)) => {
                        let obs_after = observe(&st2);
                        if obs_after != obs_before {
                            let a: Vec<String> = obs_before.split(' ').map(|s| s.to_string()).collect();
                            let b: Vec<String> = obs_after.split(' ').map(|s| s.to_string()).collect();
                            let (x, y) = first_diff(&a, &b);
                            rep.fail("oracle", "C11/observation-differs", ctx.clone(), &x, &y);
                        }
                        if st2.verif_dump_relations() != rel_before {
                            rep.fail("oracle", "C11/index-differs", ctx.clone(), "identical reverse indices", "they differ");
                        }
                        if st2.verif_dump_idmaps() != ids_before {
                            rep.fail("oracle", "C11/idmaps-differ", ctx.clone(), "identical id maps", "they differ");
                        }
                        for (sig, detail) in consistency(&st2) {
                            rep.fail("oracle", &format!("C11/loaded-store-inconsistent/{}", sig), ctx.clone(), "consistent", &detail);
                        }
                        // the text indices of the loaded store answer as the text itself does: both conversions at every
                        // character boundary, and a search for each of the first characters of the text
                        for r in st2.resources() {
                            let text = r.text().to_string();
                            for (ci, (bi, _)) in text.char_indices().chain(std::iter::once((text.len(), ' '))).enumerate() {
                                let (c2b, b2c) = match guarded(std::panic::AssertUnwindSafe(|| (r.utf8byte(ci).ok(), r.utf8byte_to_charpos(bi).ok()))) { Ok(x) => x, Err(_) => (None, None) };
                                if c2b != Some(bi) || b2c != Some(ci) {
                                    rep.fail("oracle", "C11/text-index-differs", ctx.clone(), &format!("char {} <-> byte {}", ci, bi), &format!("utf8byte({}) = {:?}, utf8byte_to_charpos({}) = {:?}", ci, c2b, bi, b2c));
                                    break;
                                }
                            }
                            let mut seen: Vec<char> = vec![];
                            for c in text.chars() { if !seen.contains(&c) { seen.push(c); } if seen.len() >= 5 { break; } }
                            for c in seen {
                                let needle = c.to_string();
                                let got = guarded(std::panic::AssertUnwindSafe(|| r.find_text(&needle).map(|t| (t.begin(), t.end())).collect::<Vec<(usize, usize)>>()));
                                let want: Vec<(usize, usize)> = text.chars().enumerate().filter(|(_, x)| *x == c).map(|(i, _)| (i, i + 1)).collect();
                                if got.as_ref().ok() != Some(&want) { rep.fail(if got.is_err() { "panic" } else { "oracle" }, "C11/search-differs", ctx.clone(), &format!("{:?}", want), &format!("{:?}", got)); break; }
                            }
                        }
                        // lookups by temporary identifier, at store level and inside every dataset: the same answers
                        {
                            let lookups = |st: &AnnotationStore| -> Vec<String> {
                                let mut v = vec![];
                                for h in 0..(st.annotations_len() + 1).min(12) { v.push(format!("!A{} -> {:?}", h, st.annotation(format!("!A{}", h).as_str()).map(|a| a.handle().as_usize()))); }
                                for h in 0..4 { v.push(format!("!R{} -> {:?}", h, st.resource(format!("!R{}", h).as_str()).map(|a| a.handle().as_usize()))); v.push(format!("!S{} -> {:?}", h, st.dataset(format!("!S{}", h).as_str()).map(|a| a.handle().as_usize()))); }
                                for ds in st.datasets() {
                                    for h in 0..6 {
                                        v.push(format!("set {:?} !K{} -> {:?}", ds.id(), h, ds.key(format!("!K{}", h).as_str()).map(|k| k.handle().as_usize())));
                                        v.push(format!("set {:?} !D{} -> {:?}", ds.id(), h, ds.annotationdata(format!("!D{}", h).as_str()).map(|d| d.handle().as_usize())));
                                    }
                                }
                                v
                            };
                            let (l1, l2) = (guarded(std::panic::AssertUnwindSafe(|| lookups(store))), guarded(std::panic::AssertUnwindSafe(|| lookups(&st2))));
                            if let (Ok(a), Ok(b)) = (&l1, &l2) { if a != b { let (x, y) = first_diff(a, b); rep.fail("oracle", "C11/lookup-by-temporary-id-differs", ctx.clone(), &x, &y); } }
                            else if l2.is_err() { rep.fail("panic", "C11/lookup-by-temporary-id-differs", ctx.clone(), "answers", &format!("{:?}", l2.err())); }
                        }
                        // the decoded store also BEHAVES like the encoded one on the next operations: with generated
                        // identifiers switched on, a new annotation without identifier (on a new resource, with new
                        // data without identifier) gets identifiers of the same shape, and lands at the same handles
                        let mut st2 = st2;
                        // what the two stores write as STAM JSON (stand-off files stay stand-off files)
                        let js = |st: &AnnotationStore| guarded(std::panic::AssertUnwindSafe(|| st.to_json_string(st.config()).map_err(|e| format!("{}", e))));
                        let (j1, j2) = (js(store), js(&st2));
                        rep.count("cbor:json-of-decoded");
                        if j1 != j2 {
                            let a: Vec<String> = j1.clone().ok().and_then(|x| x.ok()).unwrap_or_default().lines().map(|l| l.to_string()).collect();
                            let b: Vec<String> = j2.clone().ok().and_then(|x| x.ok()).unwrap_or_default().lines().map(|l| l.to_string()).collect();
                            let (x, y) = first_diff(&a, &b);
                            rep.fail("oracle", &format!("C11/json-of-decoded-store-differs/{}", if x.contains("@include") || y.contains("@include") { "include" } else { "other" }), ctx.clone(), &x, &y);
                        }
                        // and what they write to STAM JSON files (the store file: @include or inline must agree)
                        if standoff {
                            let write = |st: &mut AnnotationStore, tag: &str| -> Result<String, String> {
                                let sub = dir.join(format!("cj{}{}", i, tag));
                                std::fs::create_dir_all(&sub).ok();
                                let f = sub.join("x.store.stam.json");
                                let r = guarded(std::panic::AssertUnwindSafe(|| { st.set_filename(f.to_str().unwrap()); st.save().map_err(|e| format!("{}", e)) })).and_then(|r| r);
                                let text = std::fs::read_to_string(&f).unwrap_or_default();
                                std::fs::remove_dir_all(&sub).ok();
                                r.map(|_| text)
                            };
                            let (f1, f2) = (write(store, "a"), write(&mut st2, "b"));
                            rep.count("cbor:json-files-of-decoded");
                            if f1 != f2 {
                                let a: Vec<String> = f1.clone().unwrap_or_else(|e| format!("error: {}", e)).lines().map(|l| l.to_string()).collect();
                                let b: Vec<String> = f2.clone().unwrap_or_else(|e| format!("error: {}", e)).lines().map(|l| l.to_string()).collect();
                                let (x, y) = first_diff(&a, &b);
                                rep.fail("oracle", &format!("C11/json-file-of-decoded-store-differs/{}", if x.contains("@include") || y.contains("@include") { "include" } else { "other" }), ctx.clone(), &x, &y);
                            }
                        }
                        let probe = |st: &mut AnnotationStore| -> Result<String, String> {
                            guarded(std::panic::AssertUnwindSafe(|| {
                                let cfg = st.config().clone().with_generate_ids(true);
                                st.set_config(cfg);
                                let r = st.add_resource(TextResourceBuilder::new().with_id("probe-resource").with_text("probe text")).map(|h| h.as_usize()).map_err(|e| format!("{}", e));
                                let a = st.annotate(AnnotationBuilder::new().with_target(SelectorBuilder::textselector("probe-resource", Offset::simple(0, 5))).with_data("probe-set", "probe-key", "probe-value")).map_err(|e| format!("{}", e));
                                let shape = |id: Option<&str>| id.map(|x| format!("{} characters", x.chars().count())).unwrap_or("none".into());
                                match a {
                                    Ok(h) => { let ann = st.annotation(h).expect("just added"); let d = ann.data().next(); format!("resource {:?}; annotation at handle {} with an identifier of {}; its data with an identifier of {}; dataset identifier {:?}", r, h.as_usize(), shape(ann.id()), shape(d.as_ref().and_then(|d| d.id())), d.as_ref().map(|d| d.set().id().map(|x| x.to_string()))) }
                                    Err(e) => format!("resource {:?}; annotate failed: {}", r, e),
                                }
                            }))
                        };
                        let (p1, p2) = (probe(store), probe(&mut st2));
                        rep.count("cbor:next-operation-probe");
                        if p1 != p2 { rep.fail(if p2.is_err() { "panic" } else { "oracle" }, "C11/next-operation-differs", ctx.clone(), &format!("{:?}", p1), &format!("{:?}", p2)); }
                    }
                    Ok(Err(e)) => rep.fail("oracle", "C11/reload-fails", ctx.clone(), "the store loads", &format!("{}", e)),
                    Err(m) => rep.fail("panic", "C11/reload-panics", ctx.clone(), "the store loads", &m),
                }
            }
            std::fs::remove_file(&path).ok();
            // restore the JSON data format / filename changed by to_file
        }
        // ---------------- C15: STAM CSV ----------------
        if want("C15") {
            let ids_ok = true;
            if ids_ok {
                let sub = dir.join(format!("csv{}", i));
                std::fs::create_dir_all(&sub).ok();
                let path = sub.join("x.store.stam.csv");
                let p = path.to_str().unwrap().to_string();
                let before_csv = canon(store, true);
                let w = guarded(std::panic::AssertUnwindSafe(|| store.to_file(&p)));
                rep.count("csv:write");
                if !matches!(w, Ok(Ok(()))) {
                    rep.fail(if w.is_err() { "panic" } else { "oracle" }, "C15/write-fails", ctx.clone(), "written", &format!("{:?}", w.map(|r| r.map_err(|e| format!("{}", e)))));
                } else {
                    csv_rows_vs_model(rep, store, &sub, &ctx);
                    match guarded(std::panic::AssertUnwindSafe(|| AnnotationStore::from_file(&p, Config::default()))) {
                        Ok(Ok(st2)) => {
                            let after = canon(&st2, true);
                            if after != before_csv {
                                // known finding: items without a public id come back carrying their temporary id as id;
                                // look past it so that any other difference is still reported under its own class
                                let norm: Vec<String> = after.iter().map(|l| strip_temp_ids(l)).collect();
                                let (x, y) = first_diff(&before_csv, &after);
                                let idless = before_csv.iter().any(|l| l.contains("\"~:") || (l.starts_with('A') && l.contains("[~]")));
                                let (aslots, _, sslots) = store.verif_dump_slots();
                                let gaps = aslots.iter().any(|x| !*x) || sslots.iter().enumerate().any(|(h, l)| *l && store.dataset(AnnotationDataSetHandle::new(h)).map(|s| s.as_ref().verif_dump_slots().1.iter().any(|x| !*x)).unwrap_or(false));
                                if norm != before_csv && idless && gaps {
                                    rep.fail("oracle", "C15/roundtrip/temp-id-after-gaps", ctx.clone(), &x, &y);
                                } else if norm == before_csv {
                                    rep.fail("oracle", "C15/roundtrip/temp-id-became-id", ctx.clone(), &x, &y);
                                } else {
                                    let (x, y) = first_diff(&before_csv, &norm);
                                    rep.fail("oracle", &format!("C15/roundtrip/{}", class_of(if x == "<missing>" { &y } else { &x })), ctx.clone(), &x, &y);
                                }
                            }
                        }
                        Ok(Err(e)) => {
                            let msg = format!("{}", e);
                            let cls = if msg.contains("NoTarget") || msg.contains("no target") { "no-target" } else if msg.contains("Id(\"!") { "temp-id-reference" } else { "other" };
                            rep.fail("oracle", &format!("C15/reload-fails/{}", cls), ctx.clone(), "the store loads", &msg.chars().take(300).collect::<String>());
                        }
                        Err(m) => {
                            let cls = if m.contains("unreachable") { "unreachable" } else { "other" };
                            rep.fail("panic", &format!("C15/reload-panics/{}", cls), ctx.clone(), "the store loads", &m);
                        }
                    }
                }
                std::fs::remove_dir_all(&sub).ok();
            }
        }
        before
}

/// greedy line removal keeping a failure with the same (kind, signature)
fn shrink(script: &[String], kind: &str, sig: &str, property: Option<&str>, dir: &std::path::Path) -> Vec<String> {
    let fails = |cand: &[String]| -> bool {
        let mut r = Report::new("shrink", "");
        check_script(&mut r, cand, property, dir, 999_999);
        r.failures.iter().any(|f| f.kind == kind && f.signature == sig)
    };
    let mut cur: Vec<String> = script.to_vec();
    let mut progress = true;
    while progress {
        progress = false;
        let mut i = cur.len();
        while i > 0 {
            i -= 1;
            let mut cand = cur.clone();
            cand.remove(i);
            if !cand.is_empty() && fails(&cand) {
                cur = cand;
                progress = true;
            }
        }
    }
    cur
}

/// C05, one level of sub-stores: a root store (with or without an identifier of its own) that includes a sub-store kept
/// in its own file. The documents are loaded, saved by the library, loaded again and saved again: identifiers (of the
/// root, of the sub-store, of the items), which annotation belongs to which store and the texts must be the same, and
/// the second save must write what the first wrote.
/// write a root store document that @includes one or two sub-store documents into `sub`; returns the path of the root
pub fn write_substore_docs(sub: &std::path::Path, i: usize) -> std::path::PathBuf {
    std::fs::create_dir_all(sub).ok();
    let root_has_id = i % 2 == 0;
    let sub_has_id = i % 3 != 0;
    let nsub = 1 + i % 2;
    let ann = |id: &str, res: &str, b: usize, e: usize, val: &str| format!("{{\"@type\": \"Annotation\", \"@id\": \"{}\", \"target\": {{\"@type\": \"TextSelector\", \"resource\": \"{}\", \"offset\": {{\"@type\": \"Offset\", \"begin\": {{\"@type\": \"BeginAlignedCursor\", \"value\": {}}}, \"end\": {{\"@type\": \"BeginAlignedCursor\", \"value\": {}}}}}}}, \"data\": [{{\"@type\": \"AnnotationData\", \"set\": \"set-{}\", \"key\": \"k\", \"value\": {{\"@type\": \"String\", \"value\": \"{}\"}}}}]}}", id, res, b, e, res, val);
    // (the root document names its sub-stores before its own items, or - every fourth case - after them: the root's own
    // items then have the lower handles)
    let include_last = i % 4 == 3;
    let doc = |id: Option<&str>, includes: &[String], tag: &str| { let inc = if includes.is_empty() { String::new() } else { format!(", \"@include\": [{}]", includes.iter().map(|x| format!("\"{}\"", x)).collect::<Vec<_>>().join(", ")) }; format!("{{\"@type\": \"AnnotationStore\"{}{}, \"resources\": [{{\"@type\": \"TextResource\", \"@id\": \"{}\", \"text\": \"hello w\u{f6}rld {}\"}}], \"annotationsets\": [{{\"@type\": \"AnnotationDataSet\", \"@id\": \"set-{}\", \"keys\": [{{\"@type\": \"DataKey\", \"@id\": \"k\"}}], \"data\": []}}{}], \"annotations\": [{}, {}]{}}}",
        id.map(|x| format!(", \"@id\": \"{}\"", x)).unwrap_or_default(),
        if include_last { String::new() } else { inc.clone() },
        tag, tag, tag,
        // (two sub-stores: both declare one more dataset, the same one: a vocabulary shared by the sub-stores)
        if nsub == 2 && tag != "root" { ", {\"@type\": \"AnnotationDataSet\", \"@id\": \"set-shared\", \"keys\": [{\"@type\": \"DataKey\", \"@id\": \"lang\"}], \"data\": [{\"@type\": \"AnnotationData\", \"@id\": \"L1\", \"key\": \"lang\", \"value\": {\"@type\": \"String\", \"value\": \"sv\"}}]}" } else { "" },
        ann(&format!("{}-a0", tag), tag, 0, 5, "x"), ann(&format!("{}-a1", tag), tag, 6, 11, "y"), if include_last { inc } else { String::new() }) };
    let subnames: Vec<String> = (0..nsub).map(|k| format!("sub{}.store.stam.json", k)).collect();
    for (k, n) in subnames.iter().enumerate() {
        let sid = format!("the-substore-{}", k);
        std::fs::write(sub.join(n), doc(if sub_has_id { Some(sid.as_str()) } else { None }, &[], &format!("s{}", k))).ok();
    }
    let rootpath = sub.join("root.store.stam.json");
    std::fs::write(&rootpath, doc(if root_has_id { Some("the-root") } else { None }, &subnames, "root")).ok();
    rootpath
}

/// STAM CSV and the files around the tables: a resource known by its file name only, a loaded store saved again after a
/// change, resources whose derived file names would coincide
fn check_csv_files(rep: &mut Report, dir: &std::path::Path) {
    let describe = |st: &AnnotationStore| -> Vec<String> {
        let mut v: Vec<String> = st.resources().map(|r| format!("resource {:?} text {:?}", r.id().map(|x| x.rsplit('/').next().unwrap_or(x).to_string()), r.text())).collect();
        v.extend(st.annotations().map(|a| format!("annotation {:?} text {:?} data {:?}", a.id(), a.text_join("|"), a.data().map(|d| format!("{}={:?}", d.key().id().unwrap_or("?"), d.value())).collect::<Vec<_>>())));
        v.sort();
        v
    };
    let run = |rep: &mut Report, name: &str, what: &str, f: &dyn Fn(&std::path::Path) -> Result<(Vec<String>, Vec<String>), String>| {
        let sub = dir.join(format!("csvf-{}", name));
        let _ = std::fs::remove_dir_all(&sub);
        std::fs::create_dir_all(&sub).ok();
        rep.count(&format!("csv:files:{}", name));
        rep.case(Some(&format!("csv-files {}", name)));
        let ctx = vec![what.to_string()];
        match guarded(std::panic::AssertUnwindSafe(|| f(&sub))) {
            Err(m) => rep.fail("panic", &format!("C15/files/{}/panics", name), ctx, "a round trip", &m),
            Ok(Err(e)) => rep.fail("oracle", &format!("C15/files/{}/fails", name), ctx, "the store is written and read back", &e),
            Ok(Ok((want, got))) => if want != got { let (x, y) = first_diff(&want, &got); rep.fail("oracle", &format!("C15/files/{}/differs", name), ctx, &x, &y); },
        }
        std::fs::remove_dir_all(&sub).ok();
    };
    let e = |x: StamError| format!("{}", x);
    run(rep, "resource-known-by-its-file-name", "a resource added by (absolute) file name only, no identifier; the store saved as CSV next to the text file", &|sub| {
        let txt = sub.join("hello.txt");
        std::fs::write(&txt, "hello world").map_err(|x| x.to_string())?;
        let mut st = AnnotationStore::default().with_id("s");
        st.add_resource(TextResourceBuilder::new().with_filename(txt.to_str().unwrap())).map_err(e)?;
        let rid = st.resources().next().and_then(|r| r.id().map(|x| x.to_string())).ok_or("no id")?;
        st.annotate(AnnotationBuilder::new().with_id("a1").with_target(SelectorBuilder::textselector(rid.as_str(), Offset::simple(0, 5))).with_data_with_id("set", "k", "v", "d1")).map_err(e)?;
        let want = describe(&st);
        let path = sub.join("x.store.stam.csv");
        st.to_file(path.to_str().unwrap()).map_err(e)?;
        let st2 = AnnotationStore::from_file(path.to_str().unwrap(), Config::default()).map_err(e)?;
        Ok((want, describe(&st2)))
    });
    run(rep, "loaded-store-saved-again", "a CSV store loaded from its directory, one annotation added, saved again and read back", &|sub| {
        let mut st = AnnotationStore::default().with_id("s").with_resource(TextResourceBuilder::new().with_id("r").with_text("hello world")).map_err(e)?;
        st.annotate(AnnotationBuilder::new().with_id("a1").with_target(SelectorBuilder::textselector("r", Offset::simple(0, 5))).with_data_with_id("set", "k", "v", "d1")).map_err(e)?;
        let path = sub.join("x.store.stam.csv");
        st.to_file(path.to_str().unwrap()).map_err(e)?;
        let mut st2 = AnnotationStore::from_file(path.to_str().unwrap(), Config::default()).map_err(e)?;
        st2.annotate(AnnotationBuilder::new().with_id("a2").with_target(SelectorBuilder::textselector("r", Offset::simple(6, 11))).with_data_with_id("set", "k", "w", "d2")).map_err(e)?;
        let want = describe(&st2);
        st2.save().map_err(e)?;
        let st3 = AnnotationStore::from_file(path.to_str().unwrap(), Config::default()).map_err(e)?;
        Ok((want, describe(&st3)))
    });
    run(rep, "loaded-store-gets-a-new-dataset", "a CSV store loaded from its directory, one annotation added with data in a dataset that is new, saved again and read back", &|sub| {
        let mut st = AnnotationStore::default().with_id("s").with_resource(TextResourceBuilder::new().with_id("r").with_text("hello world")).map_err(e)?;
        st.annotate(AnnotationBuilder::new().with_id("a1").with_target(SelectorBuilder::textselector("r", Offset::simple(0, 5))).with_data_with_id("set", "k", "v", "d1")).map_err(e)?;
        let path = sub.join("x.store.stam.csv");
        st.to_file(path.to_str().unwrap()).map_err(e)?;
        let mut st2 = AnnotationStore::from_file(path.to_str().unwrap(), Config::default()).map_err(e)?;
        st2.annotate(AnnotationBuilder::new().with_id("a2").with_target(SelectorBuilder::textselector("r", Offset::simple(6, 11))).with_data_with_id("otherset", "k", "w", "d2")).map_err(e)?;
        let want = describe(&st2);
        st2.save().map_err(e)?;
        let st3 = AnnotationStore::from_file(path.to_str().unwrap(), Config::default()).map_err(e)?;
        Ok((want, describe(&st3)))
    });
    run(rep, "resource-in-a-sibling-directory-with-a-common-prefix", "the store is saved in <dir>/e1/, one of its resources lives in <dir>/e10/r.txt", &|sub| {
        let (d1, d10) = (sub.join("e1"), sub.join("e10"));
        std::fs::create_dir_all(&d1).map_err(|x| x.to_string())?; std::fs::create_dir_all(&d10).map_err(|x| x.to_string())?;
        let txt = d10.join("r.txt");
        std::fs::write(&txt, "hello world").map_err(|x| x.to_string())?;
        let mut st = AnnotationStore::default().with_id("s");
        st.add_resource(TextResourceBuilder::new().with_filename(txt.to_str().unwrap())).map_err(e)?;
        let rid = st.resources().next().and_then(|r| r.id().map(|x| x.to_string())).ok_or("no id")?;
        st.annotate(AnnotationBuilder::new().with_id("a1").with_target(SelectorBuilder::textselector(rid.as_str(), Offset::simple(0, 5))).with_data_with_id("set", "k", "v", "d1")).map_err(e)?;
        let want = describe(&st);
        let path = d1.join("x.store.stam.csv");
        st.to_file(path.to_str().unwrap()).map_err(e)?;
        let st2 = AnnotationStore::from_file(path.to_str().unwrap(), Config::default()).map_err(e)?;
        Ok((want, describe(&st2)))
    });
    run(rep, "resource-names-that-share-a-stem", "two in-memory resources whose identifiers share a stem (notes.txt, notes.md), saved as CSV and read back", &|sub| {
        let mut st = AnnotationStore::default().with_id("s").with_resource(TextResourceBuilder::new().with_id("notes.txt").with_text("first text")).map_err(e)?.with_resource(TextResourceBuilder::new().with_id("notes.md").with_text("second text")).map_err(e)?;
        st.annotate(AnnotationBuilder::new().with_id("a1").with_target(SelectorBuilder::textselector("notes.txt", Offset::simple(0, 5))).with_data_with_id("set", "k", "v", "d1")).map_err(e)?;
        st.annotate(AnnotationBuilder::new().with_id("a2").with_target(SelectorBuilder::textselector("notes.md", Offset::simple(0, 6))).with_data_with_id("set", "k", "w", "d2")).map_err(e)?;
        let want = describe(&st);
        let path = sub.join("x.store.stam.csv");
        st.to_file(path.to_str().unwrap()).map_err(e)?;
        let st2 = AnnotationStore::from_file(path.to_str().unwrap(), Config::default()).map_err(e)?;
        Ok((want, describe(&st2)))
    });
}

/// a public identifier in the shape of a temporary one (`!A8`, `!D5`): the API accepts it and (since the fix recorded for C03)
/// finds the item by it; the serialisation formats reserve that shape for temporary identifiers
/// annotations without public identifiers in a store that has a sub-store: the files name them by temporary identifier
/// (`!A<handle>`), the sub-store's in its own file; an annotation that targets one of them keeps its target over the round trip
fn check_idless_next_to_substore(rep: &mut Report, dir: &std::path::Path) {
    let d = dir.join("idless-sub");
    std::fs::remove_dir_all(&d).ok();
    std::fs::create_dir_all(&d).ok();
    let main = d.join("main.store.stam.json").to_str().unwrap().to_string();
    let ctx = vec!["a store with annotations without identifiers: #0 (root, on \"hello\"), #1 (in a sub-store, on \"world\"), #2 (root, on \"ll\"), and the annotation \"top\" that targets #2; saved and loaded".to_string()];
    rep.count("json:substores:idless-annotations-next-to-a-substore");
    let describe = |st: &AnnotationStore| -> Vec<String> {
        let mut v: Vec<String> = st.annotations().map(|a| format!("{} text {:?} targets {:?}", a.id().map(|x| x.to_string()).unwrap_or_else(|| "(no id)".into()), a.text_join("|"), a.annotations_in_targets(AnnotationDepth::One).map(|t| t.text_join("|")).collect::<Vec<_>>())).collect();
        v.sort();
        v
    };
    let r = guarded(std::panic::AssertUnwindSafe(|| -> Result<(Vec<String>, Vec<String>), StamError> {
        let mut store = AnnotationStore::new(Config::default()).with_id("main").with_filename(&main);
        let res = store.add_resource(TextResourceBuilder::new().with_id("r").with_text("hello world"))?;
        store.annotate(AnnotationBuilder::new().with_target(SelectorBuilder::textselector("r", Offset::simple(0, 5))))?;
        let sub = store.add_new_substore("sub", "sub.store.stam.json")?;
        <AnnotationStore as AssociateSubStore<TextResource>>::associate_substore(&mut store, res, sub)?;
        let a1 = store.annotate(AnnotationBuilder::new().with_target(SelectorBuilder::textselector("r", Offset::simple(6, 11))))?;
        <AnnotationStore as AssociateSubStore<Annotation>>::associate_substore(&mut store, a1, sub)?;
        let a2 = store.annotate(AnnotationBuilder::new().with_target(SelectorBuilder::textselector("r", Offset::simple(2, 4))))?;
        store.annotate(AnnotationBuilder::new().with_id("top").with_target(SelectorBuilder::AnnotationSelector(BuildItem::Handle(a2), None)))?;
        let before = describe(&store);
        store.save()?;
        let loaded = AnnotationStore::from_file(&main, Config::default())?;
        Ok((before, describe(&loaded)))
    }));
    match r {
        Ok(Ok((before, after))) => if before != after { let (x, y) = first_diff(&before, &after); rep.fail("oracle", "C05/substores/idless-annotation-target-differs", ctx, &x, &y); },
        Ok(Err(e)) => rep.fail("oracle", "C05/substores/idless-annotations-next-to-a-substore-fail", ctx, "saved and loaded", &format!("{}", e)),
        Err(m) => rep.fail("panic", "C05/substores/idless-annotations-next-to-a-substore-panic", ctx, "saved and loaded", &m),
    }
    std::fs::remove_dir_all(&d).ok();
}

/// public identifiers in the shape of a temporary identifier of ANOTHER kind (`!R0` on an annotation, `!A1` on annotation
/// data): ordinary identifiers, which the round trip keeps
fn check_other_kind_shaped_public_ids(rep: &mut Report) {
    for (aid, did) in [("!R0", "!A1"), ("!D1", "!K0"), ("!S0", "!R1"), ("!K1", "!S0")] {
        let build = || -> AnnotationStore {
            let mut store = AnnotationStore::default().with_id("s").with_resource(TextResourceBuilder::new().with_id("r0").with_text("hello world")).unwrap();
            store.annotate(AnnotationBuilder::new().with_id("plain").with_target(SelectorBuilder::textselector("r0", Offset::simple(0, 5))).with_data_with_id("set", "k", "v", "d0")).unwrap();
            store.annotate(AnnotationBuilder::new().with_id(aid).with_target(SelectorBuilder::textselector("r0", Offset::simple(6, 11))).with_data_with_id("set", "k", "w", did)).unwrap();
            store
        };
        let ids = |st: &AnnotationStore| -> Vec<String> { let mut v: Vec<String> = st.annotations().map(|a| format!("annotation {:?} text {:?} data {:?}", a.id(), a.text().collect::<Vec<_>>(), a.data().map(|d| d.id().map(|x| x.to_string())).collect::<Vec<_>>())).collect(); v.sort(); v.push(format!("lookup {:?} {:?}", st.annotation(aid).map(|a| a.text().collect::<Vec<_>>().join("|")), st.annotationdata("set", did).map(|d| format!("{:?}", d.value())))); v };
        let ctx = vec![format!("store: annotation \"plain\" with data \"d0\", annotation {:?} with data {:?} (public identifiers with the letter of another kind)", aid, did)];
        let want = match guarded(std::panic::AssertUnwindSafe(|| ids(&build()))) { Ok(w) => w, Err(m) => { rep.fail("panic", "C05/other-kind-shaped-public-id/build-panics", ctx, "a store", &m); continue; } };
        rep.count("json:public-id-with-another-kinds-letter");
        let got = guarded(std::panic::AssertUnwindSafe(|| build().to_json_string(&Config::default()).and_then(|js| AnnotationStore::from_str(&js, Config::default())).map(|st| ids(&st)).map_err(|e| format!("{}", e))));
        match got {
            Ok(Ok(g)) if g == want => {}
            Ok(Ok(g)) => rep.fail("oracle", "C05/roundtrip/public-id-with-the-letter-of-another-kind", ctx.clone(), &format!("{:?}", want), &format!("{:?}", g)),
            Ok(Err(e)) => rep.fail("oracle", "C05/roundtrip/public-id-with-the-letter-of-another-kind", ctx.clone(), &format!("{:?}", want), &format!("does not load: {}", e)),
            Err(m) => rep.fail("panic", "C05/roundtrip/public-id-with-the-letter-of-another-kind", ctx.clone(), &format!("{:?}", want), &m),
        }
    }
}

fn check_temp_shaped_public_ids(rep: &mut Report, property: Option<&str>, dir: &std::path::Path) {
    let build = || -> AnnotationStore {
        let mut store = AnnotationStore::default().with_id("s").with_resource(TextResourceBuilder::new().with_id("r0").with_text("hello world")).unwrap();
        store.annotate(AnnotationBuilder::new().with_id("plain").with_target(SelectorBuilder::textselector("r0", Offset::simple(0, 5))).with_data_with_id("set", "k", "v", "d0")).unwrap();
        store.annotate(AnnotationBuilder::new().with_id("!A8").with_target(SelectorBuilder::textselector("r0", Offset::simple(6, 11))).with_data_with_id("set", "k", "w", "!D5")).unwrap();
        store
    };
    let ids = |st: &AnnotationStore| -> Vec<String> { let mut v: Vec<String> = st.annotations().map(|a| format!("annotation {:?} data {:?}", a.id(), a.data().map(|d| d.id().map(|x| x.to_string())).collect::<Vec<_>>())).collect(); v.sort(); v };
    let ctx = vec!["store: annotation \"plain\" with data \"d0\", annotation \"!A8\" with data \"!D5\" (public identifiers in the shape of temporary ones)".to_string()];
    let want = match guarded(std::panic::AssertUnwindSafe(|| ids(&build()))) { Ok(w) => w, Err(m) => { rep.fail("panic", "C05/temp-shaped-public-id/build-panics", ctx, "a store", &m); return; } };
    if property.map(|p| p == "C05").unwrap_or(true) {
        rep.count("json:temp-shaped-public-id");
        let got = guarded(std::panic::AssertUnwindSafe(|| build().to_json_string(&Config::default()).and_then(|js| AnnotationStore::from_str(&js, Config::default())).map(|st| ids(&st)).map_err(|e| format!("{}", e))));
        match got {
            Ok(Ok(g)) if g == want => {}
            Ok(Ok(g)) => rep.fail("oracle", "C05/roundtrip/public-id-in-the-shape-of-a-temporary-one", ctx.clone(), &format!("{:?}", want), &format!("{:?}", g)),
            Ok(Err(e)) => rep.fail("oracle", "C05/roundtrip/public-id-in-the-shape-of-a-temporary-one", ctx.clone(), &format!("{:?}", want), &format!("does not load: {}", e)),
            Err(m) => rep.fail("panic", "C05/roundtrip/public-id-in-the-shape-of-a-temporary-one", ctx.clone(), &format!("{:?}", want), &m),
        }
    }
    if property.map(|p| p == "C15").unwrap_or(true) {
        rep.count("csv:temp-shaped-public-id");
        let sub = dir.join("tsid");
        std::fs::create_dir_all(&sub).ok();
        let path = sub.join("t.store.stam.csv");
        let got = guarded(std::panic::AssertUnwindSafe(|| { let mut st = build(); st.to_file(path.to_str().unwrap()).map_err(|e| format!("{}", e))?; AnnotationStore::from_file(path.to_str().unwrap(), Config::default()).map(|st| ids(&st)).map_err(|e| format!("{}", e)) }));
        match got {
            Ok(Ok(g)) if g == want => {}
            Ok(Ok(g)) => rep.fail("oracle", "C15/roundtrip/public-id-in-the-shape-of-a-temporary-one", ctx.clone(), &format!("{:?}", want), &format!("{:?}", g)),
            Ok(Err(e)) => rep.fail("oracle", "C15/roundtrip/public-id-in-the-shape-of-a-temporary-one", ctx.clone(), &format!("{:?}", want), &format!("does not load: {}", e)),
            Err(m) => rep.fail("panic", "C15/roundtrip/public-id-in-the-shape-of-a-temporary-one", ctx.clone(), &format!("{:?}", want), &m),
        }
        std::fs::remove_dir_all(&sub).ok();
    }
}

/// complex selectors over annotations with offsets: the alignment of the offsets survives the round trip also when the
/// annotations referred to become neighbours on reading (a gap closes) and the selector is stored as a range
fn check_alignment_in_complex_selectors(rep: &mut Report, dir: &std::path::Path) {
    let _ = dir;
    for kind in 0..3 { for gap in [false, true] { for whole_as_end_aligned in [false, true] {
        let build = move || -> Result<AnnotationStore, StamError> {
            let mut store = AnnotationStore::default().with_id("s").with_resource(TextResourceBuilder::new().with_id("r0").with_text("hello brave new world"))?;
            let words = [(0usize, 5usize), (6, 11), (12, 15), (16, 21)];
            for (i, (b, e)) in words.iter().enumerate() { store.annotate(AnnotationBuilder::new().with_id(format!("w{}", i)).with_target(SelectorBuilder::textselector("r0", Offset::simple(*b, *e))).with_data("set", "type", "word"))?; }
            if gap { store.remove_annotation("w1")?; }
            let (x, y) = if gap { ("w0", "w2") } else { ("w0", "w1") };
            let off = |len: usize| if whole_as_end_aligned { Offset::whole() } else { Offset::simple(0, len) };
            let subs = vec![SelectorBuilder::annotationselector(x, Some(off(5))), SelectorBuilder::annotationselector(y, Some(off(if gap { 3 } else { 5 })))];
            store.annotate(AnnotationBuilder::new().with_id("phrase").with_target(match kind { 0 => SelectorBuilder::compositeselector(subs), 1 => SelectorBuilder::multiselector(subs), _ => SelectorBuilder::directionalselector(subs) }).with_data("set", "type", "phrase"))?;
            Ok(store)
        };
        let name = format!("{}/{}/{}", ["composite", "multi", "directional"][kind], if gap { "neighbours-after-reading" } else { "neighbours" }, if whole_as_end_aligned { "end-aligned-ends" } else { "begin-aligned-ends" });
        rep.count(&format!("json:alignment-in-complex-selector:{}", name));
        rep.case(Some(&format!("alignment-in-complex-selector {}", name)));
        let ctx = vec![format!("words w0..w3 on text{}; annotation 'phrase' = {} selector over two of them, each with the offset {}", if gap { ", w1 removed" } else { "" }, ["composite", "multi", "directional"][kind], if whole_as_end_aligned { "0 .. -0 (Offset::whole())" } else { "0 .. length" })];
        let r = guarded(std::panic::AssertUnwindSafe(|| -> Result<(Vec<String>, Vec<String>, String, String), StamError> {
            let store = build()?;
            let before = canon(&store, false);
            let js = store.to_json_string(&Config::default())?;
            let st2 = AnnotationStore::from_str(&js, Config::default())?;
            let after = canon(&st2, false);
            let js2 = st2.to_json_string(&Config::default())?;
            Ok((before, after, js, js2))
        }));
        match r {
            Ok(Ok((before, after, js, js2))) => {
                if before != after { let (x, y) = first_diff(&before, &after); rep.fail("oracle", "C05/roundtrip/alignment-in-complex-selector", ctx.clone(), &x, &y); }
                else if js != js2 { rep.fail("oracle", "C05/roundtrip/alignment-in-complex-selector/second-write-differs", ctx.clone(), "identical output", &format!("{} bytes vs {} bytes", js.len(), js2.len())); }
            }
            Ok(Err(e)) => rep.fail("oracle", "C05/roundtrip/alignment-in-complex-selector/refused", ctx.clone(), "a round trip", &format!("{}", e)),
            Err(m) => rep.fail("panic", "C05/roundtrip/alignment-in-complex-selector/panic", ctx.clone(), "a round trip", &m),
        }
    } } }
}

/// two STAM JSON documents over the same resource and the same dataset identifier, the second merged into the store
/// loaded from the first (`from_file(a)?.with_file(b)`): the store must hold what both files say — every key, every
/// data item with its value, every annotation with its data (referred to by id across the files) and its text
fn check_merge(rep: &mut Report, dir: &std::path::Path, i: usize) {
    let sub = dir.join(format!("mg{}", i));
    std::fs::create_dir_all(&sub).ok();
    let na = 1 + i % 3;                       // data items in the first file
    let nb = 1 + (i / 3) % 3;                 // data items in the second file
    let extra_key = (i / 9) % 2 == 1;         // the second file declares one more key
    let shared = (i / 18) % 2 == 1;           // the second file repeats the first data item of the first file
    let order = (i / 36) % 3;                 // the second file declares the keys in the same order / reversed / only those it uses, reversed
    let keys_a = vec!["k1", "k2"];
    let mut keys_b = keys_a.clone();
    if extra_key { keys_b.push("k3"); }
    let datum = |id: &str, key: &str, val: &str| format!("{{\"@type\": \"AnnotationData\", \"@id\": \"{}\", \"key\": \"{}\", \"value\": {{\"@type\": \"String\", \"value\": \"{}\"}}}}", id, key, val);
    let mut expect_data: Vec<(String, String, String)> = vec![];
    let mut data_a = vec![];
    for k in 0..na { let (id, key, val) = (format!("DA{}", k), keys_a[k % 2].to_string(), format!("va{}", k)); data_a.push(datum(&id, &key, &val)); expect_data.push((id, key, val)); }
    let mut data_b = vec![];
    if shared { data_b.push(datum("DA0", keys_a[0], "va0")); }
    for k in 0..nb { let (id, key, val) = (format!("DB{}", k), keys_b[(k + 1) % keys_b.len()].to_string(), format!("vb{}", k)); data_b.push(datum(&id, &key, &val)); expect_data.push((id, key, val)); }
    let set = |keys: &[&str], data: &[String]| format!("{{\"@type\": \"AnnotationDataSet\", \"@id\": \"s\", \"keys\": [{}], \"data\": [{}]}}", keys.iter().map(|k| format!("{{\"@type\": \"DataKey\", \"@id\": \"{}\"}}", k)).collect::<Vec<_>>().join(", "), data.join(", "));
    let ann_text = |id: &str, b: usize, e: usize, refs: &[&str]| format!("{{\"@type\": \"Annotation\", \"@id\": \"{}\", \"target\": {{\"@type\": \"TextSelector\", \"resource\": \"r\", \"offset\": {{\"@type\": \"Offset\", \"begin\": {{\"@type\": \"BeginAlignedCursor\", \"value\": {}}}, \"end\": {{\"@type\": \"BeginAlignedCursor\", \"value\": {}}}}}}}, \"data\": [{}]}}", id, b, e, refs.iter().map(|r| format!("{{\"@type\": \"AnnotationData\", \"@id\": \"{}\", \"set\": \"s\"}}", r)).collect::<Vec<_>>().join(", "));
    let ann_ann = |id: &str, on: &str, refs: &[&str]| format!("{{\"@type\": \"Annotation\", \"@id\": \"{}\", \"target\": {{\"@type\": \"AnnotationSelector\", \"annotation\": \"{}\"}}, \"data\": [{}]}}", id, on, refs.iter().map(|r| format!("{{\"@type\": \"AnnotationData\", \"@id\": \"{}\", \"set\": \"s\"}}", r)).collect::<Vec<_>>().join(", "));
    let res = "{\"@type\": \"TextResource\", \"@id\": \"r\", \"text\": \"hello w\u{f6}rld again\"}";
    let doc_a = format!("{{\"@type\": \"AnnotationStore\", \"@id\": \"first\", \"resources\": [{}], \"annotationsets\": [{}], \"annotations\": [{}]}}", res, set(&keys_a, &data_a), ann_text("A1", 0, 5, &["DA0"]));
    let last_b = format!("DB{}", nb - 1);
    let keys_b_declared: Vec<&str> = match order { 0 => keys_b.clone(), 1 => keys_b.iter().rev().cloned().collect(), _ => keys_b.iter().rev().filter(|k| data_b.iter().any(|d| d.contains(&format!("\"key\": \"{}\"", k)))).cloned().collect() };
    let doc_b = format!("{{\"@type\": \"AnnotationStore\", \"@id\": \"second\", \"resources\": [{}], \"annotationsets\": [{}], \"annotations\": [{}, {}]}}", res, set(&keys_b_declared, &data_b), ann_text("A2", 6, 11, &["DB0"]), ann_ann("A3", "A1", &["DA0", last_b.as_str()]));
    let (pa, pb) = (sub.join("a.store.stam.json"), sub.join("b.store.stam.json"));
    std::fs::write(&pa, &doc_a).ok();
    std::fs::write(&pb, &doc_b).ok();
    let ctx = vec![format!("second file declares the keys {:?} (first file: {:?})", keys_b_declared, keys_a), format!("merge: first file {} data item(s), second file {} data item(s){}{} in the dataset \"s\" both declare; annotation A3 (second file) targets A1 (first file) and uses data of both", na, nb, if extra_key { ", one more key" } else { "" }, if shared { ", repeating DA0" } else { "" })];
    rep.count("json:merge");
    rep.case(Some(&format!("merge {} {} {} {} {}", na, nb, extra_key, shared, order)));
    let (pas, pbs) = (pa.to_str().unwrap().to_string(), pb.to_str().unwrap().to_string());
    let loaded = guarded(std::panic::AssertUnwindSafe(|| AnnotationStore::from_file(&pas, Config::default()).and_then(|s| s.with_file(&pbs))));
    let store = match loaded { Ok(Ok(s)) => s, Ok(Err(e)) => { rep.fail("oracle", "C05/merge/second-file-refused", ctx, "both files loaded", &format!("{}", e)); std::fs::remove_dir_all(&sub).ok(); return; } Err(m) => { rep.fail("panic", "C05/merge/panics", ctx, "both files loaded", &m); std::fs::remove_dir_all(&sub).ok(); return; } };
    let describe = |st: &AnnotationStore| -> Vec<String> {
        let mut v = vec![];
        if let Some(ds) = st.dataset("s") {
            let mut keys: Vec<String> = ds.keys().map(|k| k.id().unwrap_or("~").to_string()).collect(); keys.sort();
            v.push(format!("keys {:?}", keys));
            let mut data: Vec<String> = ds.data().map(|d| format!("{}:{}={}", d.id().unwrap_or("~"), d.key().id().unwrap_or("~"), show_value(d.value()))).collect(); data.sort();
            for d in data { v.push(format!("data {}", d)); }
        } else { v.push("no dataset s".into()); }
        v.push(format!("datasets {}", st.datasets().count()));
        v.push(format!("resources {}", st.resources().count()));
        let mut anns: Vec<String> = st.annotations().map(|a| { let mut d: Vec<String> = a.data().map(|x| x.id().unwrap_or("~").to_string()).collect(); d.sort(); format!("annotation {} data {:?} text {:?} on {:?}", a.id().unwrap_or("~"), d, a.text_join("|"), a.annotations_in_targets(AnnotationDepth::One).map(|x| x.id().unwrap_or("~").to_string()).collect::<Vec<_>>()) }).collect();
        anns.sort();
        v.extend(anns);
        v
    };
    let mut want = vec![format!("keys {:?}", { let mut k: Vec<String> = keys_a.iter().chain(keys_b_declared.iter()).map(|x| x.to_string()).collect(); k.sort(); k.dedup(); k })];
    let mut wd: Vec<String> = expect_data.iter().map(|(id, k, v)| format!("data {}:{}=s:{}", id, k, v)).collect(); wd.sort();
    want.extend(wd);
    want.push("datasets 1".into());
    want.push("resources 1".into());
    want.push(format!("annotation A1 data {:?} text {:?} on {:?}", vec!["DA0"], "hello", Vec::<String>::new()));
    want.push(format!("annotation A2 data {:?} text {:?} on {:?}", vec!["DB0"], "w\u{f6}rld", Vec::<String>::new()));
    want.push(format!("annotation A3 data {:?} text {:?} on {:?}", { let mut d = vec!["DA0".to_string(), last_b.clone()]; d.sort(); d }, "", vec!["A1"]));  // an annotation selector without offset selects no text
    let got = match guarded(std::panic::AssertUnwindSafe(|| describe(&store))) { Ok(g) => g, Err(m) => { rep.fail("panic", "C05/merge/merged-store-panics", ctx, "a store", &m); std::fs::remove_dir_all(&sub).ok(); return; } };
    if got != want { let (x, y) = first_diff(&want, &got); rep.fail("oracle", &format!("C05/merge/{}", if x.starts_with("data") || y.starts_with("data") { "data-differ" } else if x.starts_with("keys") { "keys-differ" } else if x.starts_with("annotation") || y.starts_with("annotation") { "annotations-differ" } else { "items-differ" }), ctx.clone(), &x, &y); }
    // and the merged store survives a round trip
    match guarded(std::panic::AssertUnwindSafe(|| store.to_json_string(&Config::default()).and_then(|js| AnnotationStore::from_str(&js, Config::default())))) {
        Ok(Ok(st2)) => { let d2 = describe(&st2); if d2 != got { let (x, y) = first_diff(&got, &d2); rep.fail("oracle", "C05/merge/roundtrip-differs", ctx.clone(), &x, &y); } }
        Ok(Err(e)) => rep.fail("oracle", "C05/merge/roundtrip-fails", ctx.clone(), "the merged store is written and read back", &format!("{}", e)),
        Err(m) => rep.fail("panic", "C05/merge/roundtrip-panics", ctx.clone(), "the merged store is written and read back", &m),
    }
    std::fs::remove_dir_all(&sub).ok();
}

fn check_substores(rep: &mut Report, dir: &std::path::Path, i: usize) {
    let sub = dir.join(format!("ss{}", i));
    let root_has_id = i % 2 == 0;
    let sub_has_id = i % 3 != 0;
    let nsub = 1 + i % 2;
    let rootpath = write_substore_docs(&sub, i);
    let p = rootpath.to_str().unwrap().to_string();
    let ctx = vec![format!("sub-stores: root {} an identifier, {} sub-store(s) {} identifiers, loaded from {}", if root_has_id { "with" } else { "without" }, nsub, if sub_has_id { "with" } else { "without" }, "root.store.stam.json")];
    rep.count("json:substores");
    rep.case(Some(&format!("substores {} {} {}", root_has_id, sub_has_id, nsub)));
    let describe = |st: &AnnotationStore| -> Vec<String> {
        let mut v = vec![format!("root id {:?}", st.id())];
        for ss in st.substores() { v.push(format!("substore id {:?} with {} annotations", ss.id(), ss.as_ref().annotations_len())); }
        for a in st.annotations() { v.push(format!("annotation {:?} in substore {:?} text {:?}", a.id(), a.substore().map(|x| x.id().map(|y| y.to_string())), a.text_join("|"))); }
        for r in st.resources() { v.push(format!("resource {:?}", r.id())); }
        for d in st.datasets() { v.push(format!("dataset {:?} keys {} data {} in sub-stores {:?}", d.id(), d.keys().count(), d.data().count(), { let mut m: Vec<String> = d.substores().map(|x| x.id().map(|y| y.to_string()).unwrap_or_else(|| format!("#{}", x.handle().as_usize()))).collect(); m.sort(); m })); }
        v
    };
    let want_ids: Vec<String> = std::iter::once(format!("root id {:?}", if root_has_id { Some("the-root") } else { None })).chain((0..nsub).map(|k| format!("substore id {:?} with 2 annotations", if sub_has_id { Some(format!("the-substore-{}", k)) } else { None }))).collect();
    let load = |p: &str| guarded(std::panic::AssertUnwindSafe(|| AnnotationStore::from_file(p, Config::default())));
    let st1 = match load(&p) { Ok(Ok(s)) => s, Ok(Err(e)) => { rep.fail("oracle", "C05/substores/load-fails", ctx, "the store loads", &format!("{}", e)); std::fs::remove_dir_all(&sub).ok(); return; } Err(m) => { rep.fail("panic", "C05/substores/load-panics", ctx, "the store loads", &m); std::fs::remove_dir_all(&sub).ok(); return; } };
    let d1 = describe(&st1);
    if sub_has_id && d1[..want_ids.len()] != want_ids[..] { rep.fail("oracle", "C05/substores/identifiers-differ-from-the-documents", ctx.clone(), &format!("{:?}", want_ids), &format!("{:?}", &d1[..want_ids.len().min(d1.len())])); }
    // a dataset that two sub-store documents declare belongs to both sub-stores
    if nsub == 2 {
        rep.count("json:substores:dataset-shared-by-two");
        let members = guarded(std::panic::AssertUnwindSafe(|| st1.dataset("set-shared").map(|d| d.substores().count())));
        if members != Ok(Some(2)) { rep.fail("oracle", "C05/substores/shared-dataset-membership", ctx.clone(), "the dataset set-shared, declared by both sub-store documents, belongs to 2 sub-stores", &format!("{:?}", members)); }
    }
    // a sub-store is found by the identifier it carries
    for ss in st1.substores() {
        if let Some(id) = ss.id() {
            rep.count("json:substores:lookup-by-identifier");
            let found = guarded(std::panic::AssertUnwindSafe(|| st1.substore(id).map(|x| x.handle())));
            if found != Ok(Some(ss.handle())) { rep.fail("oracle", "C05/substores/not-found-by-its-identifier", ctx.clone(), &format!("store.substore({:?}) is the sub-store that carries that identifier", id), &format!("{:?}", found)); }
        }
    }
    if d1.iter().filter(|l| l.starts_with("annotation")).count() != 2 + 2 * nsub { rep.fail("oracle", "C05/substores/annotations-missing", ctx.clone(), &format!("{} annotations", 2 + 2 * nsub), &format!("{:?}", d1)); }
    let read_all = |dir: &std::path::Path| -> Vec<(String, String)> { let mut v: Vec<(String, String)> = std::fs::read_dir(dir).map(|rd| rd.flatten().filter_map(|e| std::fs::read_to_string(e.path()).ok().map(|t| (e.file_name().to_string_lossy().to_string(), t))).collect()).unwrap_or_default(); v.sort(); v };
    if let Err(e) = guarded(std::panic::AssertUnwindSafe(|| st1.save())).map_err(|m| m).and_then(|r| r.map_err(|e| format!("{}", e))) { rep.fail("oracle", "C05/substores/save-fails", ctx.clone(), "saved", &e); std::fs::remove_dir_all(&sub).ok(); return; }
    let files1 = read_all(&sub);
    match load(&p) {
        Ok(Ok(st2)) => {
            let d2 = describe(&st2);
            if d2 != d1 {
                let (x, y) = first_diff(&d1, &d2);
                let (mut s1, mut s2) = (d1.clone(), d2.clone());
                s1.sort(); s2.sort();
                // the same items in another order: the writer names the sub-stores before the store's own items, whatever came first
                let sig = if s1 == s2 && i % 4 == 3 { "C05/substores/own-items-first-come-back-after-the-substores" } else { "C05/substores/reload-differs" };
                rep.fail("oracle", sig, ctx.clone(), &x, &y);
            }
            if let Ok(Ok(())) = guarded(std::panic::AssertUnwindSafe(|| st2.save())) {
                let files2 = read_all(&sub);
                if files2 != files1 { let a: Vec<String> = files1.iter().flat_map(|f| f.1.lines().map(|l| format!("{}: {}", f.0, l)).collect::<Vec<_>>()).collect(); let b: Vec<String> = files2.iter().flat_map(|f| f.1.lines().map(|l| format!("{}: {}", f.0, l)).collect::<Vec<_>>()).collect(); let (x, y) = first_diff(&a, &b); rep.fail("oracle", "C05/substores/second-write-differs", ctx.clone(), &x, &y); }
            } else { rep.fail("oracle", "C05/substores/second-save-fails", ctx.clone(), "saved", "error"); }
        }
        Ok(Err(e)) => rep.fail("oracle", "C05/substores/reload-fails", ctx.clone(), "the saved store loads", &format!("{}", e)),
        Err(m) => rep.fail("panic", "C05/substores/reload-panics", ctx.clone(), "the saved store loads", &m),
    }
    std::fs::remove_dir_all(&sub).ok();
}

pub fn run(opts: &Opts) -> Report {
    let mut rep = Report::new(
        "serial",
        "stores reached by seeded operation histories of the store family (gaps from removals, id-less items, every selector kind, end-aligned and relative offsets, complex selectors, typed values); \
         each is written and read back as STAM JSON (pretty and compact; inline; every third store also with stand-off @include files for half of its resources and datasets, saved, changed by one to three further operations and saved again), CBOR and STAM CSV; compared through a handle-independent canonical form (JSON/CSV) or the full observation + raw index dumps (CBOR); \
         non-trivial = stores with at least 3 annotations and one removal; distinct = distinct scripts",
    );
    let property = opts.property.as_deref();
    let n = if opts.thorough() { 4000 } else { 500 };
    let dir = scratch_dir();
    for i in 0..n {
        let mut g = Gen::new(opts.seed.wrapping_mul(9_000_011).wrapping_add(i as u64));
        g.rich = true;
        g.force_ids = i % 2 == 0;
        let mut script: Vec<String> = if i % 3 == 2 { crate::fam::store::scenario(&mut g) } else { vec![] };
        let nops = 4 + g.rng.below(28);
        script.extend((0..nops).map(|_| g.op()));
        let before = check_script(&mut rep, &script, property, &dir, i);
        if i == 0 {
            rep.sample(json!({"script": script, "canonical_form": before}));
        }
    }
    // values at the edges of their types
    for (k, (name, v)) in [("datetime-before-year-0", "d:-63500000000000"), ("datetime-after-year-9999", "d:327400000000000"), ("datetime-offset-with-seconds", "d:1700000000000@19s32"), ("datetime-1899-new-york", "d:-2208988800000@-300"), ("datetime-with-microseconds", "d:1417172409000n123000@60"), ("datetime-with-one-nanosecond", "d:1700000000000n1"), ("datetime-with-milliseconds", "d:1700000000250"), ("largest-integer", "i:9223372036854775807"), ("smallest-integer", "i:-9223372036854775808"), ("float-zero", "f:0"), ("nested-list", "l:i:1|l:s:a|s:b")].iter().enumerate() {
        let script: Vec<String> = vec!["st addres r0 9".into(), format!("st annot a0 T:r0:b0:b2 s0/k0/{}/d0", v), "st annot a1 A:a0 s0/k1/s:plain".into()];
        rep.count(&format!("edge-value:{}", name));
        let n0 = rep.failures.len();
        check_script(&mut rep, &script, property, &dir, 900_000 + k);
        // (what fails here is named by the value, so that a listed finding about one value hides nothing else)
        for f in rep.failures.iter_mut().skip(n0) { if f.kind != "model" { f.signature = format!("{}/edge-value/{}", f.signature, name); } }
    }
    check_temp_shaped_public_ids(&mut rep, property, &dir);
    if property.map(|p| p == "C05").unwrap_or(true) { check_other_kind_shaped_public_ids(&mut rep); check_idless_next_to_substore(&mut rep, &dir); }
    if property.map(|p| p == "C15").unwrap_or(true) { check_csv_files(&mut rep, &dir); }
    if property.map(|p| p == "C05").unwrap_or(true) { check_alignment_in_complex_selectors(&mut rep, &dir); }
    if property.map(|p| p == "C05").unwrap_or(true) { for i in 0..12 { check_substores(&mut rep, &dir, i); } for i in 0..108 { check_merge(&mut rep, &dir, i); } }
    // minimise
    let mut done: std::collections::BTreeSet<(String, String)> = Default::default();
    for idx in 0..rep.failures.len() {
        let f = rep.failures[idx].clone();
        if !done.insert((f.kind.clone(), f.signature.clone())) {
            continue;
        }
        let small = shrink(&f.case, &f.kind, &f.signature, property, &dir);
        let mut r = Report::new("shrunk", "");
        check_script(&mut r, &small, property, &dir, 999_998);
        if let Some(g) = r.failures.iter().find(|g| g.kind == f.kind && g.signature == f.signature) {
            rep.failures[idx] = g.clone();
        }
    }
    std::fs::remove_dir_all(&dir).ok();
    rep
}
