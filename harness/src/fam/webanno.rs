//! C17 (Web Annotation export): stores whose identifiers, keys and values contain every awkward character class
//! (quotes, backslashes, control characters, non-BMP code points, IRIs), every value type, every selector kind,
//! several export configurations. Each exported annotation must parse as one JSON object (serde_json is the
//! oracle parser); its target must name, in selector order, the same resources/offsets/annotations; its body
//! must carry each data value with the same content and JSON type.
use crate::common::*;
use serde_json::{json, Value};
use stam::*;

const ANNO_NS: &str = "http://www.w3.org/ns/anno/";
const ANNO_CTX: &str = "http://www.w3.org/ns/anno.jsonld";

const IDS: &[&str] = &["r0", "my res", "http://ex.org/res1", "urn:x:1", "r\"q", "r\\b", "\u{e9}\u{1F600}", "ctl\u{1}x", "tab\tx", "nl\nx", "a/b#c", "cr\rx", "file:///tmp/x y", "doc{end}", "{begin}x{resource}"];
const KEYS: &[&str] = &["k", "key with space", "k\"q", "k\\b", "http://purl.org/dc/terms/title", "\u{e9}", "tab\tk", "ctl\u{2}", "http://ex.org/ns/pos", "http://ex.org/ns#label", "http://ex.org/nspace"];
const ANNO_KEYS: &[&str] = &["motivation", "creator", "created", "generated", "generator", "purpose", "value", "type", "id", "format", "k\"q"];

fn strings() -> Vec<&'static str> {
    vec!["plain", "", "say \"hi\"", "back\\slash", "ends with backslash\\", "new\nline", "tab\there", "cr\rhere", "ctl\u{1}\u{1f}", "bell\u{7}", "\u{e9}t\u{e9}", "\u{1F600} non-BMP", "\u{2028}sep", "http://ex.org/x", "http://ex.org/a\\b", "urn:isbn:123", "mailto:x@y", "a:b", "http://ex.org/with space", "\\\"", "\"", "\\", "{\"json\": [1,2]}", "</script>", "\u{7f}del", "\u{0}nul"]
}

pub fn value_menu() -> Vec<DataValue> {
    let mut v: Vec<DataValue> = strings().into_iter().map(|s| DataValue::String(s.to_string())).collect();
    v.extend([DataValue::Null, DataValue::Bool(true), DataValue::Bool(false), DataValue::Int(0), DataValue::Int(-42), DataValue::Int(isize::MAX), DataValue::Int(isize::MIN),
        DataValue::Float(1.5), DataValue::Float(3.0), DataValue::Float(-0.25), DataValue::Float(1e21), DataValue::Float(1e-7), DataValue::Float(0.0),
        DataValue::Datetime(DateTime::from_timestamp_millis(1_700_000_000_250).unwrap().fixed_offset()),
        DataValue::Datetime(DateTime::from_timestamp_millis(0).unwrap().fixed_offset()),
        DataValue::List(vec![]), DataValue::List(vec![DataValue::Int(1)]), DataValue::List(vec![DataValue::Int(1), DataValue::Int(2), DataValue::Int(3)]),
        DataValue::List(vec![DataValue::String("a".into()), DataValue::String("b \"q\"".into()), DataValue::String("c\\".into())]),
        DataValue::List(vec![DataValue::String("x".into()), DataValue::Int(2), DataValue::Float(2.5), DataValue::Bool(true), DataValue::Null]),
        DataValue::List(vec![DataValue::List(vec![DataValue::Int(1), DataValue::Int(2)]), DataValue::String("y".into())]),
        DataValue::List(vec![DataValue::String("http://ex.org/iri-in-list".into())]),
    ]);
    v
}

fn invalid_in_iri(c: char) -> bool { c == ' ' || c == '\t' || c == '\n' || c == '"' }
/// what the documentation of `is_iri` / `into_iri` says, re-implemented
fn is_iri(s: &str) -> bool {
    match s.find(':') { Some(p) => !s.contains(invalid_in_iri) && matches!(&s[..p], "http" | "https" | "urn" | "file" | "_"), None => false }
}
fn into_iri(s: &str, prefix: &str) -> String {
    if is_iri(s) { return s.to_string(); }
    let prefix = if prefix.is_empty() { "_:" } else { prefix };
    let clean: String = s.chars().map(|c| if invalid_in_iri(c) { '-' } else { c }).collect();
    match prefix.chars().last() { Some('/') | Some('#') | Some(':') => format!("{}{}", prefix, clean), _ => format!("{}/{}", prefix, clean) }
}

#[derive(Clone, Debug, PartialEq)]
enum Leaf { Text(String, usize, usize), Ann(Option<String>), Res(String), Set(String), Skipped }

fn expected_leaves(store: &AnnotationStore, sel: &Selector, cfg: &WebAnnoConfig, out: &mut Vec<Leaf>) {
    match sel {
        Selector::TextSelector(r, t, _) | Selector::AnnotationSelector(_, Some((r, t, _))) => {
            let res = store.resource(*r).unwrap();
            let ts: &TextSelection = res.as_ref().get(*t).unwrap();
            out.push(Leaf::Text(into_iri(res.id().unwrap_or("?"), &cfg.default_resource_iri), ts.begin(), ts.end()));
        }
        Selector::AnnotationSelector(a, None) => out.push(Leaf::Ann(store.annotation(*a).unwrap().id().map(|i| into_iri(i, &cfg.default_annotation_iri)))),
        Selector::ResourceSelector(r) => out.push(Leaf::Res(into_iri(store.resource(*r).unwrap().id().unwrap_or("?"), &cfg.default_resource_iri))),
        Selector::DataSetSelector(s) => out.push(Leaf::Set(into_iri(store.dataset(*s).unwrap().id().unwrap_or("?"), &cfg.default_set_iri))),
        Selector::DataKeySelector(..) | Selector::AnnotationDataSelector(..) => out.push(Leaf::Skipped),
        Selector::CompositeSelector(v) | Selector::MultiSelector(v) | Selector::DirectionalSelector(v) => for s in v { expected_leaves(store, s, cfg, out) },
        Selector::RangedTextSelector { .. } | Selector::RangedAnnotationSelector { .. } => for s in sel.iter(store, false) { expected_leaves(store, &s, cfg, out) },
    }
}

/// leaves found in the exported target, in document order; the extra-target strings are returned separately
fn found_leaves(v: &Value, out: &mut Vec<Leaf>, extra: &mut Vec<String>) {
    match v {
        Value::Array(a) => for x in a { found_leaves(x, out, extra) },
        Value::String(s) => extra.push(s.clone()),
        Value::Object(o) => {
            if let Some(src) = o.get("source").and_then(|x| x.as_str()) {
                let sel = o.get("selector");
                let b = sel.and_then(|s| s.get("start")).and_then(|x| x.as_u64());
                let e = sel.and_then(|s| s.get("end")).and_then(|x| x.as_u64());
                out.push(Leaf::Text(src.to_string(), b.unwrap_or(u64::MAX) as usize, e.unwrap_or(u64::MAX) as usize));
            } else if let Some(items) = o.get("items") {
                found_leaves(items, out, extra);
            } else if o.contains_key("id") {
                let id = o.get("id").and_then(|x| x.as_str()).map(|s| s.to_string());
                match o.get("type").and_then(|x| x.as_str()) {
                    Some("Text") => out.push(Leaf::Res(id.unwrap_or_default())),
                    Some("Dataset") => out.push(Leaf::Set(id.unwrap_or_default())),
                    _ => out.push(Leaf::Ann(id)),
                }
            }
        }
        _ => {}
    }
}

fn value_matches(v: &DataValue, j: &Value) -> bool {
    match v {
        DataValue::String(s) => if is_iri(s) { j.get("id").and_then(|x| x.as_str()) == Some(s.as_str()) } else { j.as_str() == Some(s.as_str()) },
        DataValue::Null => j.is_null(),
        DataValue::Bool(b) => j.as_bool() == Some(*b),
        DataValue::Int(i) => j.as_i64() == Some(*i as i64),
        DataValue::Float(f) => j.as_f64() == Some(*f) && (j.is_f64() || f.fract() == 0.0),
        DataValue::Datetime(d) => j.as_str().map(|s| DateTime::parse_from_rfc3339(s).ok() == Some(*d)).unwrap_or(false),
        DataValue::List(l) => j.as_array().map(|a| a.len() == l.len() && l.iter().zip(a.iter()).all(|(x, y)| match x { DataValue::String(s) => y.as_str() == Some(s.as_str()) || (is_iri(s) && y.get("id").and_then(|q| q.as_str()) == Some(s.as_str())), _ => value_matches(x, y) })).unwrap_or(false),
    }
}

fn value_class(v: &DataValue) -> String {
    match v {
        DataValue::String(s) => format!("string{}", if is_iri(s) { "-iri" } else if s.contains('"') { "-quote" } else if s.contains('\\') { "-backslash" } else if s.chars().any(|c| (c as u32) < 0x20 && c != '\n') { "-control" } else if s.contains('\n') { "-newline" } else { "" }),
        DataValue::Null => "null".into(), DataValue::Bool(_) => "bool".into(), DataValue::Int(_) => "int".into(),
        DataValue::Float(f) => if f.abs() >= 1e16 || (*f != 0.0 && f.abs() < 1e-5) { "float-extreme".into() } else { "float".into() },
        DataValue::Datetime(_) => "datetime".into(),
        DataValue::List(l) => if l.is_empty() { "list-empty".into() } else if l.iter().any(|x| matches!(x, DataValue::List(_))) { "list-nested".into() } else if l.iter().any(|x| matches!(x, DataValue::String(_))) { "list-strings".into() } else { "list".into() },
    }
}

fn id_class(s: &str) -> &'static str {
    if s.contains('"') { "quote" } else if s.contains('\\') { "backslash" } else if s.chars().any(|c| (c as u32) < 0x20) { "control" } else if s.contains(' ') { "space" } else if is_iri(s) { "iri" } else if !s.is_ascii() { "unicode" } else { "plain" }
}

pub struct Built { pub store: AnnotationStore, pub desc: Vec<String> }

/// a store from a seed: resources/sets with awkward identifiers, one annotation per (target shape, data choice)
pub fn build(seed: u64) -> Built {
    let mut rng = Rng::new(seed.wrapping_mul(11_000_027));
    let mut store = new_store();
    let mut desc = vec![];
    let nres = 2 + rng.below(2);
    let mut rids = vec![];
    for i in 0..nres {
        let id = if i == 0 { "r0".to_string() } else { rng.pick(IDS).to_string() };
        if rids.contains(&id) { continue; }
        if store.add_resource(TextResourceBuilder::new().with_id(id.clone()).with_text("hello wonderful world, this is text")).is_ok() { rids.push(id); }
    }
    let sets: Vec<String> = vec!["s0".to_string(), rng.pick(IDS).to_string(), ANNO_NS.to_string(), if rng.chance(30) { ANNO_CTX.to_string() } else { ANNO_NS.to_string() }];
    let values = value_menu();
    let mut ann_ids: Vec<String> = vec![];
    let nann = 6 + rng.below(8);
    for i in 0..nann {
        let r = rng.pick(&rids).clone();
        let tsel = |rng: &mut Rng, r: &str| { let b = rng.below(20); SelectorBuilder::textselector(r.to_string(), if rng.chance(20) { Offset::new(Cursor::BeginAligned(b), Cursor::EndAligned(-(rng.below(5) as isize))) } else { Offset::simple(b, b + 1 + rng.below(8)) }) };
        let target = match rng.below(12) {
            0..=3 => tsel(&mut rng, &r),
            4 => SelectorBuilder::resourceselector(r.clone()),
            5 => SelectorBuilder::datasetselector("s0"),
            6 if !ann_ids.is_empty() => SelectorBuilder::annotationselector(rng.pick(&ann_ids).clone(), None),
            7 if !ann_ids.is_empty() => SelectorBuilder::annotationselector(rng.pick(&ann_ids).clone(), Some(Offset::simple(0, 1))),
            8 => { let b = rng.below(10); SelectorBuilder::compositeselector((0..3).map(|k| SelectorBuilder::textselector(r.clone(), Offset::simple(b + k * 2, b + k * 2 + 2))).collect::<Vec<_>>()) }
            9 => SelectorBuilder::directionalselector(vec![tsel(&mut rng, &r), SelectorBuilder::resourceselector(rng.pick(&rids).clone()), tsel(&mut rng, &r)]),
            10 => { let r2 = rng.pick(&rids).clone(); SelectorBuilder::multiselector(vec![tsel(&mut rng, &r), tsel(&mut rng, &r2)]) }
            11 if rng.chance(50) => { let _ = store.insert_data(AnnotationDataBuilder::new().with_dataset("s0".into()).with_key("k".into()).with_value(DataValue::Null).with_id("dk".into()));
                // a key / data selector inside a complex selector cannot be exported: it is skipped, the rest must still be well-formed
                let mid = if rng.chance(50) { SelectorBuilder::datakeyselector("s0", "k") } else { SelectorBuilder::annotationdataselector("s0", "dk") };
                let mut subs = vec![tsel(&mut rng, &r), mid, tsel(&mut rng, &r)];
                match rng.below(3) { 0 => { subs.rotate_left(1); } 1 => { subs.rotate_right(1); } _ => {} }
                SelectorBuilder::directionalselector(subs) }
            _ => tsel(&mut rng, &r),
        };
        let mut b = AnnotationBuilder::new().with_target(target);
        let id = if rng.chance(85) { let base = if rng.chance(30) { rng.pick(IDS).to_string() } else { format!("a{}", i) }; Some(if ann_ids.contains(&base) { format!("{}{}", base, i) } else { base }) } else { None };
        if let Some(id) = &id { b = b.with_id(id.clone()); }
        let nd = rng.below(4);
        let mut used: Vec<(String, String)> = vec![];
        let mut d = vec![];
        for _ in 0..nd {
            let set = rng.pick(&sets).clone();
            let key = if set == ANNO_NS || set == ANNO_CTX { rng.pick(ANNO_KEYS).to_string() } else { rng.pick(KEYS).to_string() };
            // one value per predicate (an IRI key names the same predicate in every set)
            if used.iter().any(|(_, k)| *k == key) { continue; }
            used.push((set.clone(), key.clone()));
            let v = rng.pick(&values).clone();
            d.push(format!("{}|{}|{:?}", set, key, v));
            b = b.with_data(set, key, v);
        }
        match store.annotate(b) {
            Ok(_) => { if let Some(id) = id { ann_ids.push(id); } desc.push(format!("annotation #{}: data {:?}", i, d)); }
            Err(_) => {}
        }
    }
    // two data items under one key on one annotation
    if let Some(r) = rids.first() {
        let b = AnnotationBuilder::new().with_id("two-values").with_target(SelectorBuilder::textselector(r.clone(), Offset::simple(0, 1))).with_data("s1", "k", "first").with_data("s1", "k", "second");
        if store.annotate(b).is_ok() { desc.push("annotation two-values: data [s1|k|\"first\", s1|k|\"second\"]".to_string()); }
    }
    Built { store, desc }
}

pub fn configs() -> Vec<(&'static str, WebAnnoConfig)> {
    let base = WebAnnoConfig { auto_generated: false, ..Default::default() };
    vec![
        ("default", base.clone()),
        ("prefixes", WebAnnoConfig { default_annotation_iri: "http://ex.org/anno".into(), default_set_iri: "http://ex.org/set#".into(), default_resource_iri: "http://ex.org/res/".into(), ..base.clone() }),
        ("namespaces", base.clone().with_namespace("dc".into(), "http://purl.org/dc/terms/".into()).with_namespace("ex".into(), "http://ex.org/".into())),
        // a namespace declared without its separator, and one that is a prefix of another
        ("namespaces-without-separator", base.clone().with_namespace("n".into(), "http://ex.org/ns".into()).with_namespace("e".into(), "http://ex.org/".into()).with_namespace("never".into(), "http://ex.org/ns/".into())),
        ("extra-context", WebAnnoConfig { extra_context: vec!["http://ex.org/ctx.jsonld".into()], ..base.clone() }),
        ("extra-context+namespaces", WebAnnoConfig { extra_context: vec!["http://ex.org/ctx.jsonld".into(), "http://ex.org/ctx2.jsonld".into()], ..base.clone() }.with_namespace("dc".into(), "http://purl.org/dc/terms/".into())),
        // extra contexts that repeat the standard contexts, repeat each other, or are empty strings
        ("extra-context=anno", WebAnnoConfig { extra_context: vec!["http://www.w3.org/ns/anno.jsonld".into()], ..base.clone() }),
        ("extra-context=anno+namespaces", WebAnnoConfig { extra_context: vec!["http://www.w3.org/ns/anno.jsonld".into()], ..base.clone() }.with_namespace("ex".into(), "http://ex.org/".into())),
        ("extra-context=anno,other,anno", WebAnnoConfig { extra_context: vec!["http://www.w3.org/ns/anno.jsonld".into(), "http://ex.org/ctx.jsonld".into(), "http://www.w3.org/ns/anno.jsonld".into(), "http://ex.org/ctx.jsonld".into(), "".into()], ..base.clone() }),
        ("extra-context=ldp", WebAnnoConfig { extra_context: vec!["http://www.w3.org/ns/ldp.jsonld".into(), "https://www.w3.org/ns/anno.jsonld".into()], ..base.clone() }.with_namespace("anno".into(), "http://www.w3.org/ns/anno.jsonld".into())),
        ("extra-target", WebAnnoConfig { extra_target_template: Some("{resource}/{begin}/{end}".into()), ..base.clone() }),
        ("extra-target+prefixes", WebAnnoConfig { extra_target_template: Some("{resource}/{begin}/{end}".into()), default_annotation_iri: "http://ex.org/anno/".into(), default_set_iri: "http://ex.org/set/".into(), default_resource_iri: "http://ex.org/res/".into(), ..base.clone() }),
        ("generated+generator", WebAnnoConfig { auto_generated: true, auto_generator: true, ..Default::default() }),
        ("no-generator", WebAnnoConfig { auto_generated: false, auto_generator: false, ..Default::default() }),
        ("generate-ids", WebAnnoConfig { auto_generated: false, generate_annotation_iri: true, default_annotation_iri: "http://ex.org/a b/".into(), ..Default::default() }),
        ("hostile-config", WebAnnoConfig { auto_generated: false, extra_target_template: Some("{resource}?b={begin}&e={end}&q=\"x\"\\".into()), extra_context: vec!["http://ex.org/c\"tx".into()], ..Default::default() }.with_namespace("d\"c".into(), "http://purl.org/dc/terms/".into())),
    ]
}

pub fn check_store(rep: &mut Report, seed: u64) {
    let built = match guarded(std::panic::AssertUnwindSafe(|| build(seed))) { Ok(b) => b, Err(m) => { rep.fail("panic", "C17/setup-panics", vec![format!("wa seed={}", seed)], "-", &m); return; } };
    let store = &built.store;
    for (cname, cfg) in configs() {
        for (ai, a) in store.annotations().enumerate() {
            let ctx = || vec![format!("wa seed={} config={} annotation={}", seed, cname, ai), built.desc.get(ai).cloned().unwrap_or_default()];
            let target_kind = match a.as_ref().target() { Selector::TextSelector(..) => "text", Selector::ResourceSelector(..) => "resource", Selector::DataSetSelector(..) => "dataset", Selector::AnnotationSelector(_, None) => "annotation", Selector::AnnotationSelector(_, Some(_)) => "annotation+offset", Selector::CompositeSelector(..) => "composite", Selector::MultiSelector(..) => "multi", Selector::DirectionalSelector(..) => "directional", _ => "other" };
            rep.count(&format!("target:{}", target_kind));
            let out = guarded(std::panic::AssertUnwindSafe(|| a.to_webannotation(&cfg)));
            let out = match out { Ok(s) => s, Err(m) => { rep.fail("panic", &format!("C17/export-panics/{}", last_panic_loc()), ctx(), "a JSON document", &m); continue; } };
            // ----- the assembly of the document vs. the Lean model (token streams)
            if let Some(line) = wd_line(store, &a, &cfg) {
                let explicit = |k: &str| a.data().any(|d| matches!(d.set().id(), Some(ANNO_NS) | Some(ANNO_CTX)) && d.key().id() == Some(k));
                let toks = lex_json(&out).map(|t| canon_tokens(t, cfg.auto_generated && !explicit("generated"), a.id().is_none() && cfg.generate_annotation_iri, !explicit("id"))).unwrap_or_else(|| "unlexable".to_string());
                rep.count("doc:model-lines");
                rep.model_case_ctx(ctx(), vec![line], vec![toks], "webanno-doc");
            }
            if out.is_empty() { rep.count("export:not-accepted"); continue; }
            let nontrivial = a.data().count() > 0;
            let ckey = format!("{}|{}|{}", seed, cname, ai);
            rep.case(if nontrivial { Some(&ckey) } else { None });
            let doc: Value = match serde_json::from_str::<Value>(&out) {
                Ok(v) if v.is_object() => v,
                Ok(_) => { rep.fail("oracle", "C17/not-an-object", ctx(), "a JSON object", &out.chars().take(200).collect::<String>()); continue; }
                Err(e) => {
                    // classify by what the annotation carries
                    let mut cls: Vec<String> = a.data().map(|d| { let k = d.key().id().unwrap_or("?"); if matches!(d.set().id(), Some(ANNO_NS) | Some(ANNO_CTX)) && matches!(k, "motivation" | "creator" | "created" | "generated" | "generator") { format!("anno-property") } else if id_class(k) != "plain" && id_class(k) != "iri" && id_class(k) != "space" && id_class(k) != "unicode" { format!("key-{}", id_class(k)) } else { format!("value-{}", value_class(d.value())) } }).collect();
                    if let Some(id) = a.id() { if matches!(id_class(id), "backslash" | "control") { cls.push(format!("id-{}", id_class(id))); } }
                    let mut leaves = vec![]; expected_leaves(store, a.as_ref().target(), &cfg, &mut leaves);
                    for l in &leaves { match l { Leaf::Text(s, ..) | Leaf::Res(s) | Leaf::Set(s) | Leaf::Ann(Some(s)) => if s.contains('\\') || s.chars().any(|c| (c as u32) < 0x20) { cls.push("target-id-needs-escape".into()) }, Leaf::Skipped => cls.push("skipped-selector".into()), _ => {} } }
                    if cname.starts_with("extra-context") { cls.push("extra-context".into()); }
                    cls.sort(); cls.dedup();
                    // one class per failure: the first that applies, in this order
                    let order = ["skipped-selector", "anno-property", "extra-context", "key-", "id-", "target-id", "value-"];
                    let cls = order.iter().find_map(|p| cls.iter().find(|c| c.starts_with(p)).cloned()).unwrap_or("other".to_string());
                    let at = e.column().saturating_sub(30);
                    rep.fail("oracle", &format!("C17/malformed-json/{}", cls), ctx(), "well-formed JSON", &format!("{} near: {}", e, out.chars().skip(at).take(70).collect::<String>()));
                    continue;
                }
            };
            rep.count("export:well-formed");
            // ----- target
            let mut want = vec![]; expected_leaves(store, a.as_ref().target(), &cfg, &mut want);
            want.retain(|l| *l != Leaf::Skipped);
            let (mut got, mut extra) = (vec![], vec![]);
            match doc.get("target") {
                // complex target with an extra-target template: [ first pass, second pass ]; the second pass repeats the
                // structure with the template strings in place of the text selectors
                Some(Value::Array(two)) if cfg.extra_target_template.is_some() && two.len() == 2 && two[0].get("items").is_some() => {
                    found_leaves(&two[0], &mut got, &mut extra);
                    let mut ignore = vec![];
                    found_leaves(&two[1], &mut ignore, &mut extra);
                }
                Some(t) => found_leaves(t, &mut got, &mut extra),
                None => { rep.fail("oracle", "C17/no-target", ctx(), "a target", "none"); continue; }
            }
            // a second pass (extra target template under a complex selector) repeats the structure: compare the first pass
            let got1: Vec<Leaf> = if got.len() == 2 * want.len() && want.len() > 0 && got[..want.len()] == got[want.len()..] { got[..want.len()].to_vec() } else { got.clone() };
            if got1 != want {
                rep.fail("oracle", &format!("C17/target-differs/{}", target_kind), ctx(), &format!("{:?}", want), &format!("{:?}", got));
            }
            if cfg.extra_target_template.as_deref() == Some("{resource}/{begin}/{end}") {
                let want_extra: Vec<String> = want.iter().filter_map(|l| if let Leaf::Text(s, b, e) = l { Some(format!("{}/{}/{}", s, b, e)) } else { None }).collect();
                if extra != want_extra { rep.fail("oracle", &format!("C17/extra-target-differs/{}", target_kind), ctx(), &format!("{:?}", want_extra), &format!("{:?}", extra)); }
            }
            // ----- body and annotation-level properties
            let pred_of = |d: &ResultItem<AnnotationData>| -> String {
                let key = d.key();
                let kid = key.id().unwrap_or("?");
                let in_anno = matches!(d.set().id(), Some(ANNO_NS) | Some(ANNO_CTX));
                let pred_full = if in_anno { kid.to_string() } else { into_iri(kid, &into_iri(d.set().id().unwrap_or("?"), &cfg.default_set_iri)) };
                cfg.uri_to_namespace(&pred_full).to_string()
            };
            let all_preds: Vec<String> = a.data().map(|d| pred_of(&d)).collect();
            let mut reported_dup = false;
            for d in a.data() {
                let key = d.key();
                let kid = key.id().unwrap_or("?");
                let in_anno = matches!(d.set().id(), Some(ANNO_NS) | Some(ANNO_CTX));
                let top = in_anno && matches!(kid, "generated" | "generator" | "motivation" | "created" | "creator");
                let pred = pred_of(&d);
                let holder = if top { Some(&doc) } else { doc.get("body") };
                // two data items under one predicate: both values must be there (as a JSON parser sees the document)
                if all_preds.iter().filter(|p| **p == pred).count() > 1 {
                    let vals: Vec<&DataValue> = a.data().filter(|x| pred_of(x) == pred).map(|x| x.value()).collect();
                    let j = holder.and_then(|h| h.get(&pred));
                    let holds = |v: &DataValue| match j { Some(serde_json::Value::Array(items)) => items.iter().any(|it| value_matches(v, it)) || value_matches(v, j.unwrap()), Some(x) => value_matches(v, x), None => false };
                    rep.count("value:two-for-one-predicate");
                    if !reported_dup && !vals.iter().all(|v| holds(v)) {
                        reported_dup = true;
                        rep.fail("oracle", "C17/two-values-for-one-predicate", ctx(), &format!("{} carries {:?}", pred, vals), &format!("{}", j.map(|x| x.to_string()).unwrap_or("nothing".into())));
                    }
                    continue;
                }
                let j = holder.and_then(|h| h.get(&pred));
                rep.count(&format!("value:{}", value_class(d.value())));
                match j {
                    None => rep.fail("oracle", &format!("C17/value-missing/{}", value_class(d.value())), ctx(), &format!("{} = {:?}", pred, d.value()), &format!("{}", holder.map(|h| h.to_string()).unwrap_or("no body".into()).chars().take(200).collect::<String>())),
                    Some(j) => if !value_matches(d.value(), j) { rep.fail("oracle", &format!("C17/value-differs/{}", value_class(d.value())), ctx(), &format!("{:?}", d.value()), &j.to_string()); },
                }
            }
            // the annotation's own identifier
            if let Some(id) = a.id() {
                if doc.get("id").and_then(|x| x.as_str()) != Some(into_iri(id, &cfg.default_annotation_iri).as_str()) {
                    rep.fail("oracle", &format!("C17/annotation-id-differs/{}", id_class(id)), ctx(), &into_iri(id, &cfg.default_annotation_iri), &format!("{:?}", doc.get("id")));
                }
            }
        }
    }
}

// ---------------------------------------------------------------------------------------------
// document assembly vs. the Lean model (StamModel/WebAnnoDoc.lean): `wd` lines
// ---------------------------------------------------------------------------------------------

fn wd_sel(store: &AnnotationStore, sel: &Selector, cfg: &WebAnnoConfig, out: &mut Vec<String>) {
    match sel {
        Selector::TextSelector(r, t, _) | Selector::AnnotationSelector(_, Some((r, t, _))) => {
            let res = store.resource(*r).unwrap();
            let ts: &TextSelection = res.as_ref().get(*t).unwrap();
            let iri = into_iri(res.id().unwrap_or("?"), &cfg.default_resource_iri);
            let tmpl = cfg.extra_target_template.as_ref().map(|t| t.replace("{begin}", &ts.begin().to_string()).replace("{end}", &ts.end().to_string()).replace("{resource}", &iri)).unwrap_or_default();
            out.extend(["t".to_string(), hex(&iri), ts.begin().to_string(), ts.end().to_string(), hex(&tmpl)]);
        }
        Selector::AnnotationSelector(a, None) => { out.push("a".into()); out.push(store.annotation(*a).unwrap().id().map(|i| hex(&into_iri(i, &cfg.default_annotation_iri))).unwrap_or("~".into())); }
        Selector::ResourceSelector(r) => { out.push("r".into()); out.push(hex(&into_iri(store.resource(*r).unwrap().id().unwrap_or("?"), &cfg.default_resource_iri))); }
        Selector::DataSetSelector(s) => { out.push("s".into()); out.push(hex(&into_iri(store.dataset(*s).unwrap().id().unwrap_or("?"), &cfg.default_set_iri))); }
        Selector::DataKeySelector(..) | Selector::AnnotationDataSelector(..) => out.push("k".into()),
        Selector::CompositeSelector(v) | Selector::MultiSelector(v) | Selector::DirectionalSelector(v) => {
            out.push(match sel { Selector::CompositeSelector(_) => "c0", Selector::MultiSelector(_) => "c1", _ => "c2" }.into());
            out.push(v.len().to_string());
            for s in v { wd_sel(store, s, cfg, out); }
        }
        Selector::RangedTextSelector { .. } | Selector::RangedAnnotationSelector { .. } => {
            let subs: Vec<_> = sel.iter(store, false).collect();
            out.push("g".into());
            out.push(subs.len().to_string());
            for s in &subs { wd_sel(store, s, cfg, out); }
        }
    }
}

/// the input of the model: configuration, the annotation's IRI, the data items (dataset class, key, the IRI of the
/// key, value) and the target, with every IRI computed by the harness's own `into_iri`
fn wd_line(store: &AnnotationStore, a: &ResultItem<Annotation>, cfg: &WebAnnoConfig) -> Option<String> {
    let mut t: Vec<String> = vec!["wd".into()];
    t.push(format!("{}{}{}{}", cfg.extra_target_template.is_some() as u8, cfg.generate_annotation_iri as u8, cfg.auto_generated as u8, cfg.auto_generator as u8));
    t.push(a.id().map(|i| hex(&into_iri(i, &cfg.default_annotation_iri))).unwrap_or("~".into()));
    t.push(format!("E{}", cfg.extra_context.len()));
    for e in &cfg.extra_context { t.push(hex(e)); }
    t.push(format!("N{}", cfg.context_namespaces.len()));
    for (uri, ns) in &cfg.context_namespaces { t.push(hex(uri)); t.push(hex(ns)); }
    let data: Vec<_> = a.data().collect();
    t.push(format!("D{}", data.len()));
    for d in &data {
        let set = d.set();
        let setid = set.id()?;
        let kid = d.key().id()?.to_string();
        let in_anno = setid == ANNO_NS || setid == ANNO_CTX;
        let kiri = into_iri(&kid, &into_iri(setid, &cfg.default_set_iri));
        let mut spec = vec![];
        if !spec_of(d.value(), &mut spec) { return None; }
        t.extend([(in_anno as u8).to_string(), hex(&kid), hex(&kiri), spec.join(",")]);
    }
    wd_sel(store, a.as_ref().target(), cfg, &mut t);
    Some(t.join(" "))
}

/// the tokens of a JSON text: structural characters, `S<hex of the decoded string>`, `R<hex of the bare literal>`
fn lex_json(s: &str) -> Option<Vec<String>> {
    let cs: Vec<char> = s.chars().collect();
    let mut out = vec![];
    let mut i = 0;
    while i < cs.len() {
        let c = cs[i];
        if c == ' ' || c == '\t' || c == '\n' || c == '\r' { i += 1; continue; }
        if "{}[],:".contains(c) { out.push(c.to_string()); i += 1; continue; }
        if c == '"' {
            let mut j = i + 1;
            loop {
                if j >= cs.len() { return None; }
                if cs[j] == '\\' { j += 2; continue; }
                if cs[j] == '"' { break; }
                j += 1;
            }
            let lit: String = cs[i..=j].iter().collect();
            let dec: String = serde_json::from_str(&lit).ok()?;
            out.push(format!("S{}", hex(&dec)));
            i = j + 1;
            continue;
        }
        let mut j = i;
        while j < cs.len() && !"{}[],: \t\n\r\"".contains(cs[j]) { j += 1; }
        out.push(format!("R{}", hex(&cs[i..j].iter().collect::<String>())));
        i = j;
    }
    Some(out)
}

/// replace what the exporter takes from its environment by the model's markers: the time of the automatic
/// `generated` and freshly generated identifiers (of the annotation, of its body)
fn canon_tokens(mut t: Vec<String>, auto_generated: bool, fresh_ids: bool, body_id_fresh: bool) -> String {
    if t.is_empty() { return "-".into(); }
    let key = |k: &str| format!("S{}", hex(k));
    let (mut depth, mut top): (i32, String) = (0, String::new());
    let mut i = 0;
    while i < t.len() {
        match t[i].as_str() {
            "{" | "[" => depth += 1,
            "}" | "]" => depth -= 1,
            _ => {
                let is_key = t[i].starts_with('S') && t.get(i + 1).map(|x| x == ":").unwrap_or(false);
                if is_key && depth == 1 { top = t[i].clone(); }
                if is_key && i + 2 < t.len() && t[i + 2].starts_with('S') {
                    if depth == 1 && t[i] == key("generated") && auto_generated { t[i + 2] = key("<now>"); }
                    if depth == 1 && t[i] == key("id") && fresh_ids { t[i + 2] = key("<nanoid>"); }
                    if depth == 2 && top == key("body") && t[i] == key("id") && fresh_ids && body_id_fresh { t[i + 2] = key("<nanoid>"); }
                }
            }
        }
        i += 1;
    }
    t.join(" ")
}

pub fn replay(lines: &[String]) {
    for l in lines {
        if let Some(rest) = l.strip_prefix("wa seed=") {
            let seed: u64 = rest.split_whitespace().next().and_then(|x| x.parse().ok()).unwrap_or(0);
            let cname = rest.split("config=").nth(1).and_then(|x| x.split_whitespace().next()).unwrap_or("default").to_string();
            let ai: usize = rest.split("annotation=").nth(1).and_then(|x| x.split_whitespace().next()).and_then(|x| x.parse().ok()).unwrap_or(0);
            let built = build(seed);
            let cfg = configs().into_iter().find(|c| c.0 == cname).map(|c| c.1).unwrap_or_default();
            if let Some(a) = built.store.annotations().nth(ai) {
                println!("  exported: {}", a.to_webannotation(&cfg));
            }
            let mut r = Report::new("replay", "");
            check_store(&mut r, seed);
            for f in r.failures.iter().filter(|f| f.case.first().map(|c| c.contains(&format!("config={} annotation={}", cname, ai))).unwrap_or(false)) {
                println!("  ORACLE: {} {} expected={} got={}", f.kind, f.signature, f.expected, f.got);
            }
        }
    }
}

pub fn run(opts: &Opts) -> Report {
    let mut rep = Report::new(
        "webanno",
        "stores from seeds: resource/dataset/annotation identifiers and keys drawn from plain, IRI, space, quote, backslash, control-character and non-BMP classes; values: 26 strings (every escape class, IRI-valued), null, booleans, integers incl. extremes, floats incl. 1e21/1e-7, datetimes, flat/nested/mixed/empty lists; targets: text (begin/end aligned), resource, dataset, annotation (with and without offset, with and without id), composite/multi/directional (adjacent fresh selections, mixed with resource selectors); 8 export configurations; \
         non-trivial = the annotation carries data; distinct = (store, configuration, annotation)",
    );
    let n = if opts.thorough() { 1500 } else { 150 };
    for i in 0..n {
        check_store(&mut rep, opts.seed.wrapping_mul(1000).wrapping_add(i as u64));
    }
    lexical_stream(&mut rep, opts.seed, if opts.thorough() { 5000 } else { 500 });
    rep
}

// ---------------------------------------------------------------------------------------------
// string/value layer vs. the Lean model (hooks verif_json_str / verif_value_to_json / verif_into_iri)
// ---------------------------------------------------------------------------------------------

fn spec_of(v: &DataValue, out: &mut Vec<String>) -> bool {
    match v {
        DataValue::Null => out.push("N".into()),
        DataValue::Bool(b) => out.push(if *b { "T".into() } else { "F".into() }),
        DataValue::Int(i) => out.push(format!("I{}", i)),
        DataValue::String(s) => out.push(format!("S{}", hex(s))),
        DataValue::Float(f) => { if !f.is_finite() { return false; } out.push(format!("X{}", hex(&format!("{}", f)))) }
        DataValue::Datetime(d) => out.push(format!("S{}", hex(&d.to_rfc3339()))),
        DataValue::List(l) => { out.push(format!("L{}", l.len())); for x in l { if !spec_of(x, out) { return false; } } }
    }
    true
}

pub fn exec_line(line: &str) -> String {
    let t: Vec<&str> = line.split_whitespace().collect();
    let un = |h: &str| crate::fam::store::unhex_s(h);
    match t.as_slice() {
        ["wj", "str", h] => hex(&stam::verif_hooks_webanno::verif_json_str(&un(h))),
        ["wj", "iri", h, p] => hex(&stam::verif_hooks_webanno::verif_into_iri(&un(h), &un(p))),
        _ => "bad-op".into(),
    }
}

fn random_string(rng: &mut Rng) -> String {
    let n = rng.below(8);
    (0..n).map(|_| match rng.below(12) {
        0 => '"', 1 => '\\', 2 => *rng.pick(&['\n', '\r', '\t', '\u{8}', '\u{c}']), 3 => char::from_u32(rng.below(0x20) as u32).unwrap(), 4 => '\u{7f}',
        5 => *rng.pick(&['\u{e9}', '\u{1F600}', '\u{2028}', '\u{fffd}', '\u{d7ff}', '\u{e000}']), 6 => '/', 7 => ':', 8 => ' ', _ => (b'a' + rng.below(26) as u8) as char,
    }).collect()
}

pub fn lexical_stream(rep: &mut Report, seed: u64, n: usize) {
    let mut rng = Rng::new(seed.wrapping_mul(13_000_003));
    let mut strs: Vec<String> = strings().into_iter().map(|s| s.to_string()).collect();
    strs.extend(IDS.iter().map(|s| s.to_string()));
    for c in 0u32..0x30 { strs.push(format!("x{}y", char::from_u32(c).unwrap())); }
    for _ in 0..n { strs.push(random_string(&mut rng)); }
    for s in &strs {
        let line = format!("wj str {}", hex(s));
        let a = exec_line(&line);
        // oracle: serde_json reads the literal back as the string
        let lit = crate::fam::store::unhex_s(&a);
        if serde_json::from_str::<String>(&lit).ok().as_deref() != Some(s.as_str()) {
            rep.fail("oracle", "C17/json-str-not-faithful", vec![line.clone()], s, &lit);
        }
        rep.count("lex:str");
        rep.case(Some(&line));
        rep.model_case(vec![line], vec![a], "lex-str");
        for p in ["", "_:", "http://ex.org/res/", "http://ex.org/set#", "http://ex.org/anno", "pre fix"] {
            let line = format!("wj iri {} {}", hex(s), hex(p));
            let a = exec_line(&line);
            rep.count("lex:iri");
            rep.model_case(vec![line], vec![a], "lex-iri");
        }
    }
    let mut values = value_menu();
    for _ in 0..n {
        // random nested lists
        fn rv(rng: &mut Rng, depth: usize) -> DataValue {
            match rng.below(if depth < 3 { 8 } else { 6 }) {
                0 => DataValue::Null, 1 => DataValue::Bool(rng.chance(50)), 2 => DataValue::Int(rng.range(-1000, 1000) as isize), 3 | 4 => DataValue::String(random_string(rng)),
                5 => DataValue::Float(rng.range(-40, 40) as f64 / 4.0),
                _ => { let k = rng.below(4); DataValue::List((0..k).map(|_| rv(rng, depth + 1)).collect()) }
            }
        }
        values.push(rv(&mut rng, 0));
    }
    for v in &values {
        let mut spec = vec![];
        if !spec_of(v, &mut spec) { continue; }
        let line = format!("wj val {}", spec.join(","));
        let out = stam::verif_hooks_webanno::verif_value_to_json(v);
        // oracle: the text is one JSON value of the same type and content
        match serde_json::from_str::<Value>(&out) {
            Ok(j) => if !value_matches(v, &j) && !matches!(v, DataValue::String(s) if is_iri(s)) { rep.fail("oracle", &format!("C17/value-to-json-not-faithful/{}", value_class(v)), vec![line.clone()], &format!("{:?}", v), &out); },
            Err(e) => rep.fail("oracle", &format!("C17/value-to-json-malformed/{}", value_class(v)), vec![line.clone()], "a JSON value", &format!("{}: {}", e, out)),
        }
        rep.count("lex:val");
        rep.case(Some(&line));
        rep.model_case(vec![line], vec![hex(&out)], "lex-val");
    }
}
