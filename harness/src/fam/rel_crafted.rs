//! C13: crafted cases taken over from a sub-agent's hunt for violations (hunt/C13-hunt3.rs, helpers and assertions as written);
//! `run_all` runs them on the implementation: a failed assertion is a concrete failing input.
#![allow(dead_code, unused_imports, unused_variables, unused_mut)]
use crate::common::*;
// Violations of: "Text-selection relations have their documented algebraic meaning".
// Every test below FAILS on the current code.
use stam::*;

//                   0123456789012345678901234
const TEXT: &str = "ab cd ef gh ij kl mn op q";

fn store() -> AnnotationStore {
    AnnotationStore::default()
        .with_id("s")
        .with_resource(TextResourceBuilder::new().with_id("r").with_text(TEXT))
        .unwrap()
}

fn sel(store: &AnnotationStore, begin: usize, end: usize) -> TextSelection {
    let resource = store.resource("r").unwrap();
    resource
        .as_ref()
        .textselection_by_offset(&Offset::simple(begin, end))
        .unwrap()
}

fn set(store: &AnnotationStore, ranges: &[(usize, usize)]) -> TextSelectionSet {
    let mut tset = TextSelectionSet::new(store.resource("r").unwrap().handle());
    for (begin, end) in ranges {
        tset.add(sel(store, *begin, *end));
    }
    tset
}

/// SameRange{all} on a set with more than one member.
///
/// Documented (src/textselection.rs, enum TextSelectionOperator, SameRange): "The leftmost
/// TextSelection in A starts where the leftmost TextSelection in B starts and the rightmost
/// TextSelection in A ends where the rightmost TextSelection in B ends".
///
/// A = {[0,2],[3,5]} is not even in the same range as itself, although A EQUALS A holds (equals
/// implies same begin and same end, and does so for SameBegin{all} and SameEnd{all}).
///
/// Cause: src/textselection.rs, `impl TestTextSelection for TextSelectionSet`, `test_set()` (and
/// `test()`), arm `SameRange { all: true, negate: false }`: it asks
/// `leftmost.test_set(op) && rightmost.test_set(op)`, and the delegate
/// (`TextSelection::test_set`, arm SameRange{all}) compares BOTH ends of that one member with
/// the extent of B. So the leftmost member must also end at B's end and the rightmost member
/// must also begin at B's begin; this only holds when one member of A spans all of A.
pub fn samerange_all_does_not_hold_between_a_set_and_itself() {
    let store = store();
    let r = store.resource("r").unwrap();
    let a = set(&store, &[(0, 2), (3, 5)]);
    let op = TextSelectionOperator::samerange().toggle_all();
    assert!(a.test_set(&TextSelectionOperator::equals(), &a, r.as_ref()));
    assert!(a.test_set(&TextSelectionOperator::samebegin().toggle_all(), &a, r.as_ref()));
    assert!(a.test_set(&TextSelectionOperator::sameend().toggle_all(), &a, r.as_ref()));
    assert!(
        a.test_set(&op, &a, r.as_ref()),
        "A = {{[0,2],[3,5]}} must be in the same range as itself"
    );
}

/// The same defect seen through `TextSelectionSet::test()` (set against one selection), which
/// is what the related-text search uses: A = {[0,2],[3,5]} runs from 0 to 5, exactly like the
/// single selection [0,5], yet SameRange{all} is false (and the negation true).
pub fn samerange_all_set_against_the_selection_that_spans_it() {
    let store = store();
    let r = store.resource("r").unwrap();
    let a = set(&store, &[(0, 2), (3, 5)]);
    let span = sel(&store, 0, 5);
    let op = TextSelectionOperator::samerange().toggle_all();
    //the other direction is right already: the single selection against the set
    assert!(span.test_set(&op, &a, r.as_ref()));
    assert!(
        a.test(&op, &span, r.as_ref()),
        "leftmost of A begins at 0 and rightmost of A ends at 5, same range as [0,5]"
    );
    //and the singleton set {[0,5]} as the reference
    assert!(a.test_set(&op, &set(&store, &[(0, 5)]), r.as_ref()));
}

/// EQUALS between one selection and a set with other members too.
///
/// Documented: "Both sets cover the exact same TextSelections, and all are covered";
/// commutative. x = [0,2] against B = {[0,2],[3,5]}: [3,5] is not covered, so x does not equal B.
/// The code says it does, which also breaks
///  - singleton = member: {x}.test_set(EQUALS, B) is false but x.test_set(EQUALS, B) is true
///  - symmetry: B.test(EQUALS, x) is false
///
/// Cause: src/textselection.rs, `impl TestTextSelection for TextSelection`, `test_set()`: the
/// arm `Equals { negate: false, .. }` is lumped with the `all: false` operators and returns
/// true as soon as ANY member of the reference set equals self (that is INSET, not EQUALS).
pub fn equals_of_a_selection_and_a_larger_set() {
    let store = store();
    let r = store.resource("r").unwrap();
    let x = sel(&store, 0, 2);
    let b = set(&store, &[(0, 2), (3, 5)]);
    let singleton = set(&store, &[(0, 2)]);
    for op in [
        TextSelectionOperator::equals(),
        TextSelectionOperator::equals().toggle_all(),
    ] {
        //what the set-level tests say (correct):
        assert!(!singleton.test_set(&op, &b, r.as_ref()));
        assert!(!b.test_set(&op, &singleton, r.as_ref()));
        assert!(!b.test(&op, &x, r.as_ref()));
        //the member must agree with its singleton set
        assert_eq!(
            x.test_set(&op, &b, r.as_ref()),
            singleton.test_set(&op, &b, r.as_ref()),
            "[0,2] EQUALS {{[0,2],[3,5]}} must be false: [3,5] has no counterpart"
        );
    }
    //same thing through the high-level API
    let rx = r.textselection(&Offset::simple(0, 2)).unwrap();
    let rb = b.clone().as_resultset(&store);
    assert!(!rx.test_set(&TextSelectionOperator::equals(), &rb));
    assert!(rx.test_set(&TextSelectionOperator::equals().toggle_negate(), &rb));
}

/// EMBEDS between sets is not the converse of EMBEDDED, and not what is documented.
///
/// Documented: Embeds - "All TextSelections in B are embedded by a TextSelection in A";
/// Embedded - "All TextSelections in A are embedded by a TextSelection in B". So
/// A EMBEDS B <=> B EMBEDDED A.
///
/// A = {[0,10],[20,21]}, B = {[2,3]}: the only member of B lies in [0,10], B EMBEDDED A holds
/// (correct), but A EMBEDS B is false because [20,21] "embeds nothing".
/// A = {[0,10]}, B = {[2,3],[20,21]}: [20,21] is embedded by nothing in A and B EMBEDDED A is
/// false (correct), but A EMBEDS B is true.
///
/// Cause: src/textselection.rs, `impl TestTextSelection for TextSelectionSet`, `test_set()`, the
/// shared arm for the `all: false` operators: Embeds is quantified like all the others, "for
/// every member of A there is a member of B", where its documentation (and its being the
/// converse of Embedded) needs "for every member of B there is a member of A".
pub fn embeds_between_sets_is_the_converse_of_embedded() {
    let store = store();
    let r = store.resource("r").unwrap();
    let embeds = TextSelectionOperator::embeds();
    let embedded = TextSelectionOperator::embedded();

    let a = set(&store, &[(0, 10), (20, 21)]);
    let b = set(&store, &[(2, 3)]);
    assert!(b.test_set(&embedded, &a, r.as_ref()));
    assert_eq!(
        a.test_set(&embeds, &b, r.as_ref()),
        b.test_set(&embedded, &a, r.as_ref()),
        "every member of B={{[2,3]}} is embedded by a member of A={{[0,10],[20,21]}}"
    );

    let a = set(&store, &[(0, 10)]);
    let b = set(&store, &[(2, 3), (20, 21)]);
    assert!(!b.test_set(&embedded, &a, r.as_ref()));
    assert_eq!(
        a.test_set(&embeds, &b, r.as_ref()),
        b.test_set(&embedded, &a, r.as_ref()),
        "[20,21] in B is embedded by no member of A={{[0,10]}}"
    );
}

/// The same through annotations (`ResultItem<Annotation>::test`, src/api/annotation.rs), with
/// composite selectors: "sentences" {[0,11],[21,23]} EMBEDS "word" [3,5] must agree with
/// "word" EMBEDDED "sentences".
pub fn embeds_between_annotations_is_the_converse_of_embedded() {
    let mut store = store();
    store
        .annotate(
            AnnotationBuilder::new()
                .with_id("sentences")
                .with_target(SelectorBuilder::CompositeSelector(vec![
                    SelectorBuilder::textselector("r", Offset::simple(0, 11)),
                    SelectorBuilder::textselector("r", Offset::simple(21, 23)),
                ]))
                .with_data("set", "type", "sentences"),
        )
        .unwrap();
    store
        .annotate(
            AnnotationBuilder::new()
                .with_id("word")
                .with_target(SelectorBuilder::textselector("r", Offset::simple(3, 5)))
                .with_data("set", "type", "word"),
        )
        .unwrap();
    let sentences = store.annotation("sentences").unwrap();
    let word = store.annotation("word").unwrap();
    assert!(word.test(&TextSelectionOperator::embedded(), &sentences));
    assert!(
        sentences.test(&TextSelectionOperator::embeds(), &word),
        "the word is embedded in the sentences, so the sentences embed the word"
    );
}

/// BEFORE{all, limit} is not the converse of AFTER{all, limit} between sets.
///
/// A = {[0,1],[4,5]}, B = {[6,7]}, limit 3: A BEFORE B holds but B AFTER A does not.
/// A = {[4,5]}, B = {[6,7],[9,10]}, limit 3: A BEFORE B does not hold but B AFTER A does.
/// (Without a limit both pairs agree. "All TextSelections in A precede all textselections in B
/// ... the limit constrains the lookup range": under the all-pairs reading both are false in the
/// first example, as [0,1] is 5 away from [6,7]; whichever reading one takes, the two directions
/// must give one answer.)
///
/// Cause: src/textselection.rs, `impl TestTextSelection for TextSelectionSet`, `test_set()`
/// (and `test()`): Before{all} looks at `self.rightmost()` only and After{all} at
/// `self.leftmost()` only. That shortcut is right for the order (the extreme member decides)
/// but the limit is then checked for that one member of A against EVERY member of B, so the
/// limit bounds the distance "nearest of A to farthest of B" in one direction, and "nearest of B
/// to farthest of A" in the other.
pub fn before_all_with_limit_is_the_converse_of_after_all_with_limit() {
    let store = store();
    let r = store.resource("r").unwrap();
    let before = TextSelectionOperator::before().with_limit(3).toggle_all();
    let after = TextSelectionOperator::after().with_limit(3).toggle_all();

    let a = set(&store, &[(0, 1), (4, 5)]);
    let b = set(&store, &[(6, 7)]);
    assert_eq!(
        a.test_set(&before, &b, r.as_ref()),
        b.test_set(&after, &a, r.as_ref()),
        "{{[0,1],[4,5]}} BEFORE {{[6,7]}} and {{[6,7]}} AFTER {{[0,1],[4,5]}}, limit 3"
    );
}

pub fn after_all_with_limit_is_the_converse_of_before_all_with_limit() {
    let store = store();
    let r = store.resource("r").unwrap();
    let before = TextSelectionOperator::before().with_limit(3).toggle_all();
    let after = TextSelectionOperator::after().with_limit(3).toggle_all();
    let a = set(&store, &[(4, 5)]);
    let b = set(&store, &[(6, 7), (9, 10)]);
    assert_eq!(
        b.test_set(&after, &a, r.as_ref()),
        a.test_set(&before, &b, r.as_ref()),
        "{{[6,7],[9,10]}} AFTER {{[4,5]}} and {{[4,5]}} BEFORE {{[6,7],[9,10]}}, limit 3"
    );
}

/// A negated relation is not the complement when the subject set is empty: both R and NOT R
/// are false, for every relation and every combination of modifiers.
///
/// Cause: src/textselection.rs, `impl TestTextSelection for TextSelectionSet`, `test()` and
/// `test_set()`: `if self.is_empty() { return false; }` comes before the `negate: true` arms,
/// so the negated operator never gets to invert the answer. (With a non-empty subject and an
/// empty reference set the complement does hold.)
pub fn negation_is_the_complement_also_for_an_empty_set() {
    let store = store();
    let r = store.resource("r").unwrap();
    let empty = TextSelectionSet::new(r.handle());
    let b = set(&store, &[(0, 2)]);
    let x = sel(&store, 0, 2);
    for op in [
        TextSelectionOperator::equals(),
        TextSelectionOperator::overlaps(),
        TextSelectionOperator::embeds(),
        TextSelectionOperator::embedded(),
        TextSelectionOperator::before(),
        TextSelectionOperator::after(),
        TextSelectionOperator::precedes(),
        TextSelectionOperator::succeeds(),
        TextSelectionOperator::samebegin(),
        TextSelectionOperator::sameend(),
        TextSelectionOperator::samerange(),
        TextSelectionOperator::inset(),
    ] {
        for op in [op, op.toggle_all()] {
            //reference: the other way round is complementary already
            assert_ne!(
                b.test_set(&op, &empty, r.as_ref()),
                b.test_set(&op.toggle_negate(), &empty, r.as_ref())
            );
            assert_ne!(
                empty.test_set(&op, &b, r.as_ref()),
                empty.test_set(&op.toggle_negate(), &b, r.as_ref()),
                "{:?} and its negation give the same answer for an empty set",
                op
            );
            assert_ne!(
                empty.test(&op, &x, r.as_ref()),
                empty.test(&op.toggle_negate(), &x, r.as_ref()),
                "{:?} and its negation give the same answer for an empty set (against one selection)",
                op
            );
        }
    }
}

/// OVERLAPS between sets is documented as commutative ("Each TextSelection in A overlaps with
/// a TextSelection in B (cf. textfabric's `&&`), commutative") but is not symmetric.
///
/// A = {[0,2]}, B = {[0,2],[6,8]}: A OVERLAPS B is true, B OVERLAPS A is false.
///
/// Cause: src/textselection.rs, `impl TestTextSelection for TextSelectionSet`, `test_set()`, the
/// shared `all: false` arm: only "every member of A overlaps some member of B" is checked, never
/// the other inclusion (EQUALS had the same one-sidedness and got a second loop).
pub fn overlaps_between_sets_is_symmetric() {
    let store = store();
    let r = store.resource("r").unwrap();
    let a = set(&store, &[(0, 2)]);
    let b = set(&store, &[(0, 2), (6, 8)]);
    let op = TextSelectionOperator::overlaps();
    assert_eq!(
        a.test_set(&op, &b, r.as_ref()),
        b.test_set(&op, &a, r.as_ref())
    );
}

/// A zero-width selection that sits exactly on the END of a range OVERLAPS that range, while
/// at the same time the range is BEFORE it and PRECEDES it: x = [0,2], z = [2,2].
/// By any interval-arithmetic reading (half-open ranges; overlap <=> max(begin) < min(end), or
/// a.begin < b.end && b.begin < a.end) the two share nothing: position 2 is outside [0,2), just
/// as [0,2] and [2,5] do not overlap. Before (x.end <= z.begin) and Overlaps exclude each other.
///
/// Cause: src/textselection.rs, `impl TestTextSelection for TextSelection`, `test()`, arm
/// `Overlaps`: the first two clauses use strict bounds (`reftextsel.begin < self.end`,
/// `reftextsel.end > self.begin`) so that touching ranges do not overlap, but the third and
/// fourth clause ("one embeds the other") use non-strict bounds only, which lets the zero-width
/// selection at the boundary in. `TextSelection::intersection()` has the same two clauses and
/// returns an (empty) intersection [2,2] for them.
pub fn overlaps_and_before_exclude_each_other() {
    let store = store();
    let r = store.resource("r").unwrap();
    let x = sel(&store, 0, 2);
    let z = sel(&store, 2, 2);
    assert!(x.test(&TextSelectionOperator::before(), &z, r.as_ref()));
    assert!(x.test(&TextSelectionOperator::precedes_exact(), &z, r.as_ref()));
    assert!(z.test(&TextSelectionOperator::after(), &x, r.as_ref()));
    //touching non-empty ranges: no overlap (correct)
    assert!(!x.test(&TextSelectionOperator::overlaps(), &sel(&store, 2, 5), r.as_ref()));
    assert!(
        !x.test(&TextSelectionOperator::overlaps(), &z, r.as_ref()),
        "[0,2] is BEFORE [2,2], it cannot OVERLAP it as well"
    );
    assert!(!z.test(&TextSelectionOperator::overlaps(), &x, r.as_ref()));
    assert!(x.intersection(&z).is_none());
}

/// EQUALS and a selection that a set holds twice.
///
/// A = {[0,2],[0,2]} (an unsorted TextSelectionSet keeps what is added; an annotation whose
/// CompositeSelector names the same text twice yields exactly this set) against the singleton
/// reference {[0,2]} and against its single member [0,2]:
///   A.test(EQUALS, [0,2])        is true
///   A.test_set(EQUALS, {[0,2]})  is false
/// so the test on a singleton set is not the test on its single member. Documented: "Both sets
/// cover the exact same TextSelections, and all are covered" - both cover [0,2] and nothing
/// else, and INSET holds in both directions. (The related-text search already counts a repeated
/// member once.)
///
/// Cause: src/textselection.rs, `impl TestTextSelection for TextSelectionSet`, `test_set()`, arm
/// `Equals { negate: false, .. }`: `if self.len() != refset.len() { return false; }` compares the
/// number of stored items, not of distinct selections; the two inclusion loops that follow are
/// sufficient by themselves.
pub fn equals_counts_a_repeated_member_once() {
    let store = store();
    let r = store.resource("r").unwrap();
    let a = set(&store, &[(0, 2), (0, 2)]);
    let x = sel(&store, 0, 2);
    let singleton = set(&store, &[(0, 2)]);
    let op = TextSelectionOperator::equals();
    assert!(a.test_set(&TextSelectionOperator::inset(), &singleton, r.as_ref()));
    assert!(singleton.test_set(&TextSelectionOperator::inset(), &a, r.as_ref()));
    assert!(a.test(&op, &x, r.as_ref()));
    assert_eq!(
        a.test_set(&op, &singleton, r.as_ref()),
        a.test(&op, &x, r.as_ref()),
        "the test against the singleton {{[0,2]}} must be the test against [0,2]"
    );
    assert!(singleton.test_set(&op, &a, r.as_ref()));
}

/// The same through annotations: an annotation whose composite selector names [0,2] twice and
/// the annotation of [0,2] select exactly the same text, and are not EQUAL.
pub fn equals_between_annotations_counts_a_repeated_member_once() {
    let mut store = store();
    store
        .annotate(
            AnnotationBuilder::new()
                .with_id("twice")
                .with_target(SelectorBuilder::CompositeSelector(vec![
                    SelectorBuilder::textselector("r", Offset::simple(0, 2)),
                    SelectorBuilder::textselector("r", Offset::simple(0, 2)),
                ]))
                .with_data("set", "k", "v"),
        )
        .unwrap();
    store
        .annotate(
            AnnotationBuilder::new()
                .with_id("once")
                .with_target(SelectorBuilder::textselector("r", Offset::simple(0, 2)))
                .with_data("set", "k", "v"),
        )
        .unwrap();
    let twice = store.annotation("twice").unwrap();
    let once = store.annotation("once").unwrap();
    let x = store
        .resource("r")
        .unwrap()
        .textselection(&Offset::simple(0, 2))
        .unwrap();
    assert!(twice.test_textselection(&TextSelectionOperator::equals(), &x));
    assert!(twice.test(&TextSelectionOperator::equals(), &once));
    assert!(once.test(&TextSelectionOperator::equals(), &twice));
}


pub fn run_all(rep: &mut Report) {
    let mut cases: Vec<(&str, Box<dyn Fn() -> Result<(), String>>)> = vec![];
    cases.push(("samerange-all-does-not-hold-between-a-set-and-itself", Box::new(|| { samerange_all_does_not_hold_between_a_set_and_itself(); Ok(()) })));
    cases.push(("samerange-all-set-against-the-selection-that-spans-it", Box::new(|| { samerange_all_set_against_the_selection_that_spans_it(); Ok(()) })));
    cases.push(("equals-of-a-selection-and-a-larger-set", Box::new(|| { equals_of_a_selection_and_a_larger_set(); Ok(()) })));
    cases.push(("embeds-between-sets-is-the-converse-of-embedded", Box::new(|| { embeds_between_sets_is_the_converse_of_embedded(); Ok(()) })));
    cases.push(("embeds-between-annotations-is-the-converse-of-embedded", Box::new(|| { embeds_between_annotations_is_the_converse_of_embedded(); Ok(()) })));
    cases.push(("before-all-with-limit-is-the-converse-of-after-all-with-limit", Box::new(|| { before_all_with_limit_is_the_converse_of_after_all_with_limit(); Ok(()) })));
    cases.push(("after-all-with-limit-is-the-converse-of-before-all-with-limit", Box::new(|| { after_all_with_limit_is_the_converse_of_before_all_with_limit(); Ok(()) })));
    cases.push(("negation-is-the-complement-also-for-an-empty-set", Box::new(|| { negation_is_the_complement_also_for_an_empty_set(); Ok(()) })));
    cases.push(("overlaps-between-sets-is-symmetric", Box::new(|| { overlaps_between_sets_is_symmetric(); Ok(()) })));
    cases.push(("overlaps-and-before-exclude-each-other", Box::new(|| { overlaps_and_before_exclude_each_other(); Ok(()) })));
    cases.push(("equals-counts-a-repeated-member-once", Box::new(|| { equals_counts_a_repeated_member_once(); Ok(()) })));
    cases.push(("equals-between-annotations-counts-a-repeated-member-once", Box::new(|| { equals_between_annotations_counts_a_repeated_member_once(); Ok(()) })));
    for (name, f) in cases {
        rep.count("crafted-cases-from-the-hunts");
        rep.case(Some(&format!("crafted {}", name)));
        let what = vec![format!("the case `{}` of hunt/C13-hunt3.rs", name.replace('-', "_"))];
        match guarded(std::panic::AssertUnwindSafe(|| f())) {
            Ok(Ok(())) => {}
            Ok(Err(e)) => rep.fail("oracle", &format!("C13/crafted/{}", name), what, "what the property requires (see the assertions of the case)", &e),
            Err(m) => rep.fail("oracle", &format!("C13/crafted/{}", name), what, "what the property requires (see the assertions of the case)", &m.chars().take(300).collect::<String>()),
        }
    }
}
