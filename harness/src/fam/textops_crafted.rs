//! C07: crafted cases taken over from a sub-agent's hunt for violations (hunt/C07-hunt3.rs, helpers and assertions as written);
//! `run_all` runs them on the implementation: a failed assertion is a concrete failing input.
#![allow(dead_code, unused_imports, unused_variables, unused_mut)]
use crate::common::*;
// Confirmed violations of the property "text search and partition operations agree with plain
// string operations". Every test below FAILS on the current code.

use stam::*;

fn store_with(text: &str) -> AnnotationStore {
    AnnotationStore::default()
        .with_id("test")
        .with_resource(TextResourceBuilder::new().with_id("r").with_text(text))
        .unwrap()
}

fn show<'a>(it: impl Iterator<Item = ResultTextSelection<'a>>) -> Vec<(usize, usize, String)> {
    it.map(|t| (t.begin(), t.end(), t.text().to_string()))
        .collect()
}

/// Case-insensitive search in a text that holds a character whose lower-case form has another
/// length in UTF-8 bytes (or in codepoints) than the character itself.
///
/// Cause: `FindNoCaseTextIter::next` (src/api/text.rs, the `text.to_lowercase()` / `text.find()`
/// block, see the "MAYBE TODO" there) searches a lower-cased COPY of the text and then uses the
/// byte positions found in that copy (`foundbytepos`, `foundbytepos + self.fragment.len()`) as byte
/// positions in the ORIGINAL text. As soon as a character before (or inside) the match changes
/// its byte length when lower-cased, these positions are wrong: either they land on another
/// character (a selection with the wrong text is returned), or they land inside a character or
/// past the end and `utf8byte_to_charpos(..).expect(..)` panics.
///
/// The same happens for a search inside a sub-selection, for `AnnotationStore::find_text_nocase`
/// and for `find_text_sequence(.., case_sensitive = false)`, which all run this iterator.
pub fn nocase_search_with_a_character_whose_lowercase_has_another_byte_length() {
    // U+212A KELVIN SIGN is 3 bytes, its lower-case form 'k' is 1 byte.
    // Lower-cased copy: "kabc", 'c' at byte 3; byte 3 of the original is 'a'.
    let store = store_with("\u{212A}abc");
    let res = store.resource("r").unwrap();
    let got = show(res.find_text_nocase("c"));
    // the code returns [(1, 2, "a"), (3, 4, "c")]: a selection whose text is not the needle in any case
    assert_eq!(got, vec![(3, 4, "c".to_string())]);

    // the needle itself, in the other case: "k" must find the Kelvin sign (the code panics:
    // the end byte 0+1 lies inside the 3-byte character)
    let got = show(res.find_text_nocase("k"));
    assert_eq!(got, vec![(0, 1, "\u{212A}".to_string())]);

    // U+0130 (2 bytes) lower-cases to "i\u{307}" (3 bytes): positions past the end, the code panics
    let store = store_with("\u{130}x");
    let res = store.resource("r").unwrap();
    let got = show(res.find_text_nocase("X"));
    assert_eq!(got, vec![(1, 2, "x".to_string())]);

    // inside a sub-selection: U+023A (2 bytes) lower-cases to U+2C65 (3 bytes)
    let store = store_with("ab\u{23A}xab");
    let res = store.resource("r").unwrap();
    let sub = res.textselection(&Offset::simple(2, 6)).unwrap();
    let got = show(sub.find_text_nocase("AB"));
    assert_eq!(got, vec![(4, 6, "ab".to_string())]);
}

/// Case-insensitive search for a sigma does not find a capital sigma at the end of a word, and a
/// needle that ends in a capital sigma does not find its own lower-case spelling.
///
/// Cause: `FindNoCaseTextIter::next` lower-cases the searched text with `str::to_lowercase`, and
/// the three `find_text_nocase` constructors (src/api/text.rs, on `ResultItem<TextResource>`,
/// `ResultItem<TextSelection>`, `ResultTextSelection`, and `AnnotationStore::find_text_nocase`)
/// lower-case the needle with `str::to_lowercase`. That function is context sensitive: a 'Σ' at
/// the end of a word becomes the final form 'ς' (U+03C2) and everywhere else 'σ' (U+03C3). Text
/// and needle are lower-cased each in their own context (and the text per searched slice), so the
/// same letter gets two different lower-case forms and the comparison fails. A case-insensitive
/// comparison has to fold character by character (`char::to_lowercase`), where 'Σ' is always 'σ'.
pub fn nocase_search_for_sigma_finds_every_capital_sigma() {
    // both 'Σ' of the text equal the needle 'σ' but for case; each is at the end of a word
    let store = store_with("ΑΣ ΑΣΑ Σ");
    let res = store.resource("r").unwrap();
    let got = show(res.find_text_nocase("σ"));
    // the code finds only the 'Σ' in the middle of the second word and the lone one: [(4, 5), (7, 8)]
    assert_eq!(
        got,
        vec![
            (1, 2, "Σ".to_string()),
            (4, 5, "Σ".to_string()),
            (7, 8, "Σ".to_string())
        ]
    );

    // the other way round: the needle "ΑΣ" is lower-cased to "ας", the text has "ασ": nothing is found
    let store = store_with("ασα");
    let res = store.resource("r").unwrap();
    let got = show(res.find_text_nocase("ΑΣ"));
    assert_eq!(got, vec![(0, 2, "ασ".to_string())]);
}


pub fn run_all(rep: &mut Report) {
    let mut cases: Vec<(&str, Box<dyn Fn() -> Result<(), String>>)> = vec![];
    cases.push(("nocase-search-with-a-character-whose-lowercase-has-another-byte-length", Box::new(|| { nocase_search_with_a_character_whose_lowercase_has_another_byte_length(); Ok(()) })));
    cases.push(("nocase-search-for-sigma-finds-every-capital-sigma", Box::new(|| { nocase_search_for_sigma_finds_every_capital_sigma(); Ok(()) })));
    for (name, f) in cases {
        rep.count("crafted-cases-from-the-hunts");
        rep.case(Some(&format!("crafted {}", name)));
        let what = vec![format!("the case `{}` of hunt/C07-hunt3.rs", name.replace('-', "_"))];
        match guarded(std::panic::AssertUnwindSafe(|| f())) {
            Ok(Ok(())) => {}
            Ok(Err(e)) => rep.fail("oracle", &format!("C07/crafted/{}", name), what, "what the property requires (see the assertions of the case)", &e),
            Err(m) => rep.fail("oracle", &format!("C07/crafted/{}", name), what, "what the property requires (see the assertions of the case)", &m.chars().take(300).collect::<String>()),
        }
    }
}
