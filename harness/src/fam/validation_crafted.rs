//! C18: crafted stores taken over from a sub-agent's hunt for violations (hunt/C18-hunt3.rs, helpers and assertions as written); `run_all` runs them on the implementation.
#![allow(dead_code, unused_imports, unused_variables)]
use crate::common::*;
// Violations of the property
// "Text validation accepts unchanged text and flags changed text":
// after `protect_text()` (any mode) every annotation that selects text validates, and keeps
// doing so across a save and reload; only annotations whose selected characters differ are
// reported as invalid.
//
// Every test below FAILS on the current code.

use stam::*;

const TEXT1: &str = "Hällo wörld, this is a tést";
const TEXT2: &str = "Second résource 日本語 text";

/// a directory of this test's own under target/
fn dir(name: &str) -> String {
    let d = format!("{}/target/hunt-h3c18/{}", env!("CARGO_MANIFEST_DIR"), name);
    let _ = std::fs::remove_dir_all(&d);
    std::fs::create_dir_all(&d).expect("creating test directory");
    d
}

/// (identifier, validation result, selected text) of every annotation, ordered by identifier
fn report(store: &AnnotationStore) -> Vec<(String, Option<bool>, String)> {
    let mut v: Vec<_> = store
        .annotations()
        .map(|a| {
            (
                a.id().unwrap_or("?").to_string(),
                a.validate_text(),
                a.text_join("|"),
            )
        })
        .collect();
    v.sort();
    v
}

/// VIOLATION 1: a store with a substore cannot be loaded any more after protect_text() + save().
///
/// Input: a root store that @includes a substore; the substore holds a resource and an annotation
/// on its text. protect_text(Text) on the root, save(), load the root again.
///
/// What happens: validation is fine in memory (1 valid), but the reload fails with
/// "IncompleteError ... id=Id("!D0") key=None ... current_set=https://w3id.org/stam/extensions/stam-textvalidation/".
/// The substore's own file cannot be loaded on its own any more either.
///
/// Cause: `AnnotationStore::protect_text` (src/textvalidation.rs) puts the validation data of *all*
/// annotations - also those that belong to a substore - in a dataset it inserts into the root
/// store (`self.insert(AnnotationDataSet::new(..).with_id(TEXTVALIDATION_SET))`), which is not
/// associated with the substore. On save the substore's file
/// (`Serialize for ResultItem<AnnotationSubStore>`, src/substore.rs) writes its annotations with
/// references `{"@id": "!D0", "set": ".../stam-textvalidation/"}` to a set that is defined only in
/// the root file, and the root file is read with "@include" (-> `add_substore`) *before*
/// "annotationsets" (`visit_map` in src/annotationstore.rs), so the reference cannot resolve.
pub fn protect_text_on_store_with_substore_survives_save_and_reload() -> Result<(), StamError> {
    let d = dir("v1_substore");
    let subfile = format!("{}/sub.store.stam.json", d);
    let rootfile = format!("{}/root.store.stam.json", d);

    let mut sub = AnnotationStore::default()
        .with_id("sub")
        .with_resource(TextResourceBuilder::new().with_id("r1").with_text(TEXT1))?
        .with_annotation(
            AnnotationBuilder::new()
                .with_id("a1")
                .with_target(SelectorBuilder::textselector("r1", Offset::simple(0, 5))),
        )?;
    sub.set_filename(&subfile);
    sub.save()?;

    let mut root = AnnotationStore::new(Config::default())
        .with_id("root")
        .with_filename(&rootfile);
    root.add_substore(&subfile)?;

    for mode in [
        TextValidationMode::Checksum,
        TextValidationMode::Text,
        TextValidationMode::Both,
        TextValidationMode::Auto,
    ] {
        root.protect_text(mode)?;
    }
    let result = root.validate_text(true);
    assert_eq!(
        (result.valid(), result.invalid(), result.missing()),
        (1, 0, 0),
        "in memory, right after protect_text()"
    );
    let before = report(&root);
    root.save()?;

    //the text did not change at all
    let reloaded = AnnotationStore::from_file(&rootfile, Config::default());
    assert!(
        reloaded.is_ok(),
        "a protected and saved store must load again, got: {}",
        reloaded.err().map(|e| e.to_string()).unwrap_or_default()
    );
    let reloaded = reloaded.unwrap();
    assert_eq!(before, report(&reloaded));
    let result = reloaded.validate_text(true);
    assert_eq!((result.valid(), result.invalid(), result.missing()), (1, 0, 0));
    Ok(())
}

/// VIOLATION 2: an annotation over unchanged text is reported as INVALID after save and reload.
///
/// Input: a root store with its own resource rA ("AAAA aaaa") that @includes a substore with a
/// resource rB ("BBBB bbbb"); one annotation (in the root) with a MultiSelector (the same happens
/// with a CompositeSelector) over rA[0:4] and rB[0:4]. protect_text(), save(), reload.
///
/// What happens: in memory the annotation's text is "AAAA"+"BBBB" and validates; after the reload
/// (no text was touched) the same annotation yields "BBBB"+"AAAA", so both the stored text and the
/// stored checksum mismatch and validate_text() returns Some(false).
///
/// Cause: `AnnotationStore::subselectors()` (src/annotationstore.rs) puts the sub-selectors of a
/// Multi/CompositeSelector that lie in different resources in the order of the *resource handles*
/// (`res.cmp(res2)`), and `ResultItem<Annotation>::text_join()` / `text_checksum()`
/// (src/api/annotation.rs, src/textvalidation.rs) join the text in that order. Resource handles are
/// not stable across save and reload: the root file is written with "@include" first, so on
/// reload the substore's resources get the lower handles. The validation text/checksum therefore
/// depends on an internal numbering instead of on the selected characters.
pub fn multiselector_over_root_and_substore_resource_stays_valid_after_reload() -> Result<(), StamError>
{
    for (name, mode) in [
        ("checksum", TextValidationMode::Checksum),
        ("text", TextValidationMode::Text),
        ("both", TextValidationMode::Both),
        ("auto", TextValidationMode::Auto),
    ] {
        let d = dir(&format!("v2_order_{}", name));
        let subfile = format!("{}/sub.store.stam.json", d);
        let rootfile = format!("{}/root.store.stam.json", d);

        let mut sub = AnnotationStore::default()
            .with_id("sub")
            .with_resource(
                TextResourceBuilder::new()
                    .with_id("rB")
                    .with_text("BBBB bbbb"),
            )?;
        sub.set_filename(&subfile);
        sub.save()?;

        let mut root = AnnotationStore::new(Config::default())
            .with_id("root")
            .with_filename(&rootfile);
        root.add_resource(
            TextResourceBuilder::new()
                .with_id("rA")
                .with_text("AAAA aaaa"),
        )?;
        root.add_substore(&subfile)?;
        root.annotate(
            AnnotationBuilder::new()
                .with_id("a1")
                .with_target(SelectorBuilder::multiselector(vec![
                    SelectorBuilder::textselector("rA", Offset::simple(0, 4)),
                    SelectorBuilder::textselector("rB", Offset::simple(0, 4)),
                ])),
        )?;
        root.protect_text(mode)?;
        assert_eq!(
            root.annotation("a1").or_fail()?.validate_text(),
            Some(true),
            "mode {}: in memory, right after protect_text()",
            name
        );
        root.save()?;

        //no text was changed
        let reloaded = AnnotationStore::from_file(&rootfile, Config::default())?;
        let a1 = reloaded.annotation("a1").or_fail()?;
        assert_eq!(
            a1.validate_text(),
            Some(true),
            "mode {}: after save and reload of unchanged text (text is now {:?})",
            name,
            a1.text_join("|")
        );
        let result = reloaded.validate_text(true);
        assert_eq!((result.valid(), result.invalid()), (1, 0), "mode {}", name);
    }
    Ok(())
}

/// VIOLATION 3: a store that was loaded from STAM CSV cannot be saved any more after protect_text().
///
/// Input: any store saved as CSV and loaded again (one resource, one annotation suffices);
/// protect_text(any mode); save().
///
/// What happens: save() returns
/// SerializationError("AnnotationDataSet must have a set filename for CSV serialization to work"),
/// so the validation information cannot be kept across a save and reload.
///
/// Cause: `AnnotationStore::protect_text` (src/textvalidation.rs) creates the validation dataset
/// with `AnnotationDataSet::new(self.new_config())` and no filename. In a store whose dataformat
/// is CSV every dataset needs a stand-off filename (`ToCsv for AnnotationStore`,
/// `CsvTable::StoreManifest` in src/csv.rs refuses one without); filenames are only handed out by
/// `set_dataformat()` when the format *changes* (src/annotationstore.rs), which is not the case here.
/// (Protecting first and switching to CSV afterwards works.)
pub fn protect_text_on_store_loaded_from_csv_can_be_saved_and_reloaded() -> Result<(), StamError> {
    for (name, mode) in [
        ("checksum", TextValidationMode::Checksum),
        ("text", TextValidationMode::Text),
        ("both", TextValidationMode::Both),
        ("auto", TextValidationMode::Auto),
    ] {
        let d = dir(&format!("v3_csv_{}", name));
        let file = format!("{}/x.store.stam.csv", d);
        let mut store = AnnotationStore::default()
            .with_id("test")
            .with_resource(TextResourceBuilder::new().with_id("r1").with_text(TEXT1))?
            .with_dataset(AnnotationDataSetBuilder::new().with_id("ds"))?
            .with_annotation(
                AnnotationBuilder::new()
                    .with_id("a1")
                    .with_target(SelectorBuilder::textselector("r1", Offset::simple(6, 11)))
                    .with_data("ds", "k", "v"),
            )?;
        store.set_filename(&file);
        store.save()?;

        let mut store = AnnotationStore::from_file(&file, Config::default())?;
        store.protect_text(mode)?;
        assert_eq!(
            store.annotation("a1").or_fail()?.validate_text(),
            Some(true)
        );
        let saved = store.save();
        assert!(
            saved.is_ok(),
            "mode {}: saving the protected store failed: {}",
            name,
            saved.err().map(|e| e.to_string()).unwrap_or_default()
        );
        let reloaded = AnnotationStore::from_file(&file, Config::default())?;
        assert_eq!(
            reloaded.annotation("a1").or_fail()?.validate_text(),
            Some(true),
            "mode {}: after save and reload",
            name
        );
    }
    Ok(())
}

/// VIOLATION 4: an annotation over unchanged text is reported as INVALID when its (protected,
/// saved) store is loaded into a store that holds validation information already.
///
/// Input: two independent stores, each with one resource and one annotation, each protected with
/// protect_text(Text) and saved as STAM JSON. Both are loaded into one store
/// (`AnnotationStore::from_file(a)?.with_file(b)`; the same happens when b is added to a protected
/// store with `add_substore()`, i.e. through "@include"). No text was changed.
///
/// What happens: a2 (from the second file) selects "Second" but validate_text() is Some(false):
/// its validation text is now "Hällo", the one of a1.
///
/// Cause: protect_text() creates validation data without public identifiers, so the files refer
/// to it by temporary identifier (`"@id": "!D0"`, written by `AnnotationDataRefSerializer` in
/// src/annotation.rs). Both files define the dataset
/// https://w3id.org/stam/extensions/stam-textvalidation/ with an item "!D0".
/// `AnnotationDataSet::merge()` (src/annotationdataset.rs) gives the items of the second file new
/// handles in the merged set (or shares an equal item under yet another handle), but the second
/// file's annotations still say "!D0", which `AnnotationDataSet::insert_data()`
/// (`self.get(&id)` -> temporary-id resolution of the IdMap) resolves against the *merged* set's
/// numbering, i.e. to the first file's item.
pub fn two_protected_stores_loaded_together_stay_valid() -> Result<(), StamError> {
    let d = dir("v4_merge");
    let afile = format!("{}/a.store.stam.json", d);
    let bfile = format!("{}/b.store.stam.json", d);

    let mut a = AnnotationStore::default()
        .with_id("a")
        .with_resource(TextResourceBuilder::new().with_id("r1").with_text(TEXT1))?
        .with_annotation(
            AnnotationBuilder::new()
                .with_id("a1")
                .with_target(SelectorBuilder::textselector("r1", Offset::simple(0, 5))),
        )?;
    a.protect_text(TextValidationMode::Text)?;
    assert_eq!(a.annotation("a1").or_fail()?.validate_text(), Some(true));
    a.set_filename(&afile);
    a.save()?;

    let mut b = AnnotationStore::default()
        .with_id("b")
        .with_resource(TextResourceBuilder::new().with_id("r2").with_text(TEXT2))?
        .with_annotation(
            AnnotationBuilder::new()
                .with_id("a2")
                .with_target(SelectorBuilder::textselector("r2", Offset::simple(0, 6))),
        )?;
    b.protect_text(TextValidationMode::Text)?;
    assert_eq!(b.annotation("a2").or_fail()?.validate_text(), Some(true));
    b.set_filename(&bfile);
    b.save()?;

    //each file on its own is fine
    for (file, id) in [(&afile, "a1"), (&bfile, "a2")] {
        let single = AnnotationStore::from_file(file, Config::default())?;
        assert_eq!(single.annotation(id).or_fail()?.validate_text(), Some(true));
    }

    //both together: no text was changed
    let merged = AnnotationStore::from_file(&afile, Config::default())?.with_file(&bfile)?;
    let a1 = merged.annotation("a1").or_fail()?;
    let a2 = merged.annotation("a2").or_fail()?;
    assert_eq!(a1.text_join(""), "Hällo");
    assert_eq!(a2.text_join(""), "Second");
    assert_eq!(a1.validate_text(), Some(true));
    assert_eq!(
        a2.validate_text(),
        Some(true),
        "a2 selects {:?}, unchanged, but is validated against {:?}",
        a2.text_join(""),
        a2.validation_text()
    );
    Ok(())
}


pub fn run_all(rep: &mut Report) {
    let cases: [(&str, &str, fn() -> Result<(), StamError>); 4] = [
        ("store-with-a-sub-store/protected-saved-cannot-be-loaded", "a root store that @includes a sub-store holding a resource and an annotation; protect_text on the root, save, from_file", protect_text_on_store_with_substore_survives_save_and_reload),
        ("multiselector-over-root-and-sub-store-resources/invalid-after-reload", "a root annotation with a MultiSelector over text of a root resource and of a sub-store resource; protected, saved, reloaded, no text changed", multiselector_over_root_and_substore_resource_stays_valid_after_reload),
        ("store-loaded-from-csv/protected-cannot-be-saved", "a store saved as STAM CSV and loaded again; protect_text, save", protect_text_on_store_loaded_from_csv_can_be_saved_and_reloaded),
        ("two-protected-stores-loaded-together/unchanged-text-reported-invalid", "two stores, each protected and saved; loaded into one store with from_file(a).with_file(b); no text changed", two_protected_stores_loaded_together_stay_valid),
    ];
    for (name, what, f) in cases {
        rep.count("crafted-cases-from-the-hunts");
        rep.case(Some(&format!("crafted {}", name)));
        match guarded(std::panic::AssertUnwindSafe(|| f())) {
            Ok(Ok(())) => {}
            Ok(Err(e)) => rep.fail("oracle", &format!("C18/crafted/{}", name), vec![what.to_string()], "what the property requires (see the assertions of the case)", &format!("error: {}", e)),
            Err(m) => rep.fail("oracle", &format!("C18/crafted/{}", name), vec![what.to_string()], "what the property requires (see the assertions of the case)", &m.chars().take(300).collect::<String>()),
        }
    }
}
