// Confirmed violations of:
//   "Related-text search returns exactly the selections in the relation"
// Every test below FAILS on the current code.
use stam::*;

/// A store with one resource "r" and one plain annotation per offset
fn build(text: &str, offsets: &[(usize, usize)]) -> AnnotationStore {
    let mut store = AnnotationStore::default()
        .with_id("test")
        .with_resource(TextResourceBuilder::new().with_id("r").with_text(text))
        .unwrap()
        .with_dataset(AnnotationDataSetBuilder::new().with_id("d"))
        .unwrap();
    for (i, (b, e)) in offsets.iter().enumerate() {
        store
            .annotate(
                AnnotationBuilder::new()
                    .with_id(format!("a{}", i))
                    .with_target(SelectorBuilder::textselector("r", Offset::simple(*b, *e)))
                    .with_data("d", "k", "v"),
            )
            .unwrap();
    }
    store
}

fn plain(store: &mut AnnotationStore, id: &str, resource: &str, begin: usize, end: usize) {
    store
        .annotate(
            AnnotationBuilder::new()
                .with_id(id.to_string())
                .with_target(SelectorBuilder::textselector(
                    resource.to_string(),
                    Offset::simple(begin, end),
                ))
                .with_data("d", "k", "v"),
        )
        .unwrap();
}

/// Two resources "r1" and "r2" of the same length. In r1 the selections (1,3) and (10,14) are known,
/// `inner_first` decides which of the two gets handle 0. In r2 (0,4) [handle 0] and (1,3) are known.
/// Annotation "X" selects r1:(0,4) and r2:(0,4) with a CompositeSelector.
fn two_resources(inner_first: bool) -> AnnotationStore {
    let mut store = AnnotationStore::default()
        .with_id("test")
        .with_resource(
            TextResourceBuilder::new()
                .with_id("r1")
                .with_text("aaaa bbbb cccc"),
        )
        .unwrap()
        .with_resource(
            TextResourceBuilder::new()
                .with_id("r2")
                .with_text("dddd eeee ffff"),
        )
        .unwrap()
        .with_dataset(AnnotationDataSetBuilder::new().with_id("d"))
        .unwrap();
    if inner_first {
        plain(&mut store, "inner", "r1", 1, 3);
        plain(&mut store, "pad", "r1", 10, 14);
    } else {
        plain(&mut store, "pad", "r1", 10, 14);
        plain(&mut store, "inner", "r1", 1, 3);
    }
    plain(&mut store, "r2a", "r2", 0, 4);
    plain(&mut store, "r2b", "r2", 1, 3);
    store
        .annotate(
            AnnotationBuilder::new()
                .with_id("X")
                .with_target(SelectorBuilder::CompositeSelector(vec![
                    SelectorBuilder::textselector("r1", Offset::simple(0, 4)),
                    SelectorBuilder::textselector("r2", Offset::simple(0, 4)),
                ]))
                .with_data("d", "k", "x"),
        )
        .unwrap();
    store
}

/// 1. BEFORE with a large limit.
///
/// `before().with_limit(usize::MAX)` ("no limit in practice") is a legal operator; the relation test
/// itself (`TextSelection::test`, src/textselection.rs, `Before {limit: Some(..)}` arm) copes with
/// it and is true for (3,5) and (6,8). The search however computes the scan range as
/// `refend + limit + 1` in `FindTextSelectionsIter::init_textseliters` (src/textselection.rs, arm
/// `TextSelectionOperator::Before`), which overflows: a panic in debug builds, and in release
/// builds the sum wraps around to `refend`, the range is empty and nothing is found at all.
/// (`saturating_add` is what the sibling `Embedded` arm does with `saturating_sub`.)
#[test]
fn before_with_huge_limit_overflows() {
    let store = build("hello world", &[(0, 2), (3, 5), (6, 8)]);
    let resource = store.resource("r").unwrap();
    let reference = resource.textselection(&Offset::simple(0, 2)).unwrap();
    let op = TextSelectionOperator::before().with_limit(usize::MAX);

    //the relation itself holds for both:
    let expected: Vec<(usize, usize)> = resource
        .textselections()
        .filter(|cand| cand.handle() != reference.handle() && reference.test(&op, cand))
        .map(|t| (t.begin(), t.end()))
        .collect();
    assert_eq!(expected, vec![(3, 5), (6, 8)]);

    let got = std::panic::catch_unwind(std::panic::AssertUnwindSafe(|| {
        reference
            .related_text(op)
            .map(|t| (t.begin(), t.end()))
            .collect::<Vec<_>>()
    }));
    assert_eq!(
        got.ok(),
        Some(expected),
        "related_text(BEFORE with limit usize::MAX) must return what the relation test selects"
    );
}

/// 2. A reference set that holds the same text selection twice.
///
/// An annotation may select the same text twice (here a DirectionalSelector a, b, a; the same
/// happens when a set is collected from several annotations on the same text).
/// `TextSelectionSet::add()` (src/textselection.rs) pushes blindly on an unsorted set, so the
/// reference set is [a, b, a]. The Equals shortcut in `FindTextSelectionsIter::next_textselection`
/// (src/textselection.rs) looks up every *member* of the reference set by offset and pushes each
/// hit on the buffer, so (0,2) is returned twice: "each once" is violated.
#[test]
fn equals_with_repeated_member_in_reference_set_returns_duplicates() {
    let mut store = build("hello world", &[(0, 2), (3, 5), (6, 8)]);
    store
        .annotate(
            AnnotationBuilder::new()
                .with_id("S")
                .with_target(SelectorBuilder::DirectionalSelector(vec![
                    SelectorBuilder::textselector("r", Offset::simple(0, 2)),
                    SelectorBuilder::textselector("r", Offset::simple(3, 5)),
                    SelectorBuilder::textselector("r", Offset::simple(0, 2)),
                ]))
                .with_data("d", "k", "s"),
        )
        .unwrap();
    let annotation = store.annotation("S").unwrap();
    let mut got: Vec<(usize, usize)> = annotation
        .related_text(TextSelectionOperator::equals())
        .map(|t| (t.begin(), t.end()))
        .collect();
    got.sort();
    assert_eq!(
        got,
        vec![(0, 2), (3, 5)],
        "every selection must be returned once"
    );
}

/// 2b. Same cause, the other way round: the reference set is [a, a] and the operator is
/// Equals with the `all` modifier. The relation test (`TextSelectionSet::test`, Equals arm: every
/// member of the set equals the candidate) is TRUE for a, and equality is the one relation that
/// returns the reference itself; but with two members the search does not take the Equals
/// shortcut, falls into the generic scan in `next_textselection`, and there
/// `!self.refset.has_handle(..)` throws the reference away: nothing is returned.
/// (Without `all` the very same reference set returns a twice.)
#[test]
fn equals_all_with_repeated_member_in_reference_set_returns_nothing() {
    let mut store = build("hello world", &[(0, 2), (3, 5), (6, 8)]);
    store
        .annotate(
            AnnotationBuilder::new()
                .with_id("S")
                .with_target(SelectorBuilder::DirectionalSelector(vec![
                    SelectorBuilder::textselector("r", Offset::simple(0, 2)),
                    SelectorBuilder::textselector("r", Offset::simple(0, 2)),
                ]))
                .with_data("d", "k", "s"),
        )
        .unwrap();
    let annotation = store.annotation("S").unwrap();
    let tset = annotation.textselectionset().unwrap();
    let op = TextSelectionOperator::equals().toggle_all();
    let resource = store.resource("r").unwrap();
    let expected: Vec<(usize, usize)> = resource
        .textselections()
        .filter(|cand| tset.test(&op, cand))
        .map(|t| (t.begin(), t.end()))
        .collect();
    assert_eq!(expected, vec![(0, 2)]); //the relation test
    let got: Vec<(usize, usize)> = annotation
        .related_text(op)
        .map(|t| (t.begin(), t.end()))
        .collect();
    assert_eq!(got, expected);
}

/// 3. Searching from an annotation whose text lies in two resources.
///
/// `ResultItem<Annotation>::related_text` (src/api/annotation.rs) collects *all* text selections of
/// the annotation into one `TextSelectionSet`; `FromIterator for TextSelectionSet`
/// (src/textselection.rs) labels the set with the resource of the first member only. The search
/// then runs on r1 alone and compares the r2 member against candidates of r1 as if the offsets and
/// the handle were r1's. Consequences, all visible here:
///  * `has_handle()` in `next_textselection` excludes the r1 selection that happens to carry the
///    same handle number as the r2 member: the result depends on the order in which unrelated
///    annotations were made;
///  * nothing of r2 is ever found.
/// The library's own relation test for annotations (`test_textselection`, which goes by resource via
/// `textselectionsets()`) says r1:(1,3) and r2:(1,3) are both embedded in X.
#[test]
fn annotation_over_two_resources_embeds() {
    let op = TextSelectionOperator::embeds();
    for inner_first in [true, false] {
        let store = two_resources(inner_first);
        let x = store.annotation("X").unwrap();
        let members: Vec<_> = x.textselections().collect();
        let mut expected: Vec<(String, usize, usize)> = Vec::new();
        for resource in store.resources() {
            for cand in resource.textselections() {
                if !members.contains(&cand) && x.test_textselection(&op, &cand) {
                    expected.push((resource.id().unwrap().to_string(), cand.begin(), cand.end()));
                }
            }
        }
        expected.sort();
        assert_eq!(
            expected,
            vec![("r1".to_string(), 1, 3), ("r2".to_string(), 1, 3)]
        );
        let mut got: Vec<(String, usize, usize)> = x
            .related_text(op)
            .map(|t| (t.resource().id().unwrap().to_string(), t.begin(), t.end()))
            .collect();
        got.sort();
        assert_eq!(
            got, expected,
            "(inner_first={}) related_text from the annotation must agree with the relation test",
            inner_first
        );
    }
}

/// 3b. Same cause, with equality: the r2 member (0,4) is looked up *by offset in r1*
/// (`known_textselection` in the Equals shortcut of `next_textselection`), where it hits r1:(0,4)
/// again. So r1:(0,4) is returned twice and r2:(0,4) never.
#[test]
fn annotation_over_two_resources_equals() {
    let store = two_resources(true);
    let x = store.annotation("X").unwrap();
    let mut got: Vec<(String, usize, usize)> = x
        .related_text(TextSelectionOperator::equals())
        .map(|t| (t.resource().id().unwrap().to_string(), t.begin(), t.end()))
        .collect();
    got.sort();
    assert_eq!(
        got,
        vec![("r1".to_string(), 0, 4), ("r2".to_string(), 0, 4)],
        "equality returns the reference selections themselves, each once"
    );
}

/// 4. Searching in one resource with a reference that belongs to another resource.
///
/// `ResultItem<TextResource>::related_text(operator, refset)` (src/api/resources.rs) accepts any
/// `TextSelectionSet`; the set knows its resource (`TextSelectionSet::resource()`), but neither this
/// function nor `TextResource::textselections_by_operator` / `FindTextSelectionsIter`
/// (src/textselection.rs) compares it with the resource that is searched. A selection of r2 is
/// thus matched against r1 by bare offsets (and r1's selection with the same handle number is
/// dropped as "the item itself"). The relation test of the library, `ResultTextSelection::test`,
/// is false for selections of different resources, so nothing may be returned.
#[test]
fn reference_from_another_resource() {
    let store = two_resources(true);
    let r1 = store.resource("r1").unwrap();
    let r2 = store.resource("r2").unwrap();
    let reference = r2.textselection(&Offset::simple(0, 4)).unwrap();
    for op in [
        TextSelectionOperator::equals(),
        TextSelectionOperator::overlaps(),
        TextSelectionOperator::embeds(),
        TextSelectionOperator::before(),
    ] {
        let expected: Vec<(usize, usize)> = r1
            .textselections()
            .filter(|cand| reference.test(&op, cand))
            .map(|t| (t.begin(), t.end()))
            .collect();
        assert!(expected.is_empty());
        let got: Vec<(usize, usize)> = r1
            .related_text(op, reference.clone())
            .map(|t| (t.begin(), t.end()))
            .collect();
        assert_eq!(got, expected, "operator {:?}", op);
    }
}

/// 5. Searching from a set of selections (an iterator) that spans two resources.
///
/// `TextSelectionIterator::related_text` (src/api/textselection.rs) gathers the results for every
/// selection of the iterator, sorts them with `ResultTextSelection::partial_cmp` and calls
/// `dedup()`. That order (src/textselection.rs, `PartialOrd for ResultTextSelection`) looks at begin
/// and end only, not at the resource, whereas equality does look at the resource: r1:(1,3),
/// r2:(1,3), r1:(1,3) compare as equal in the sort, stay in that order, and `dedup()` (which only
/// removes neighbours) lets r1:(1,3) through twice.
/// (`AnnotationIterator::related_text` in src/api/annotation.rs has the same flaw via `textual_order()`.)
#[test]
fn iterator_over_two_resources_returns_duplicates() {
    let store = two_resources(true);
    let r1 = store.resource("r1").unwrap();
    let r2 = store.resource("r2").unwrap();
    let references = vec![
        r1.textselection(&Offset::simple(0, 4)).unwrap(),
        r2.textselection(&Offset::simple(0, 4)).unwrap(),
        r1.textselection(&Offset::simple(0, 5)).unwrap(),
    ];
    let got: Vec<(String, usize, usize)> = references
        .into_iter()
        .related_text(TextSelectionOperator::embeds())
        .map(|t| (t.resource().id().unwrap().to_string(), t.begin(), t.end()))
        .collect();
    let mut unique = got.clone();
    unique.sort();
    unique.dedup();
    assert_eq!(
        got.len(),
        unique.len(),
        "every selection must be returned once, got {:?}",
        got
    );
}

/// 6. An unbound copy of a known selection as the reference.
///
/// `TextSelection::intersection()` (and `TextSelection::textselection_by_offset()`) hand out text
/// selections without a handle even when a selection with these very offsets is known. Used as the
/// reference, such a selection IS the known selection (3,5). But
///  * "do not include the item itself" in `next_textselection` goes by handle only
///    (`TextSelectionSet::has_handle`), so every relation returns the reference itself;
///  * the Equals test in `TextSelection::test` is `self == reftextsel` with the derived `PartialEq`,
///    which also compares the handle: the negated equality holds between (3,5) and (3,5).
/// So both EQUALS and NOT EQUALS return (3,5).
#[test]
fn unbound_copy_of_a_known_selection_as_reference() {
    let store = build("hello world", &[(0, 5), (3, 8), (3, 5)]);
    let resource = store.resource("r").unwrap();
    let a = resource.textselection(&Offset::simple(0, 5)).unwrap();
    let b = resource.textselection(&Offset::simple(3, 8)).unwrap();
    let (intersection, _, _) = a.inner().intersection(b.inner()).unwrap();
    assert_eq!((intersection.begin(), intersection.end()), (3, 5));
    let mut tset = TextSelectionSet::new(resource.handle());
    tset.add(intersection);

    let equal: Vec<(usize, usize)> = resource
        .related_text(TextSelectionOperator::equals(), tset.clone())
        .map(|t| (t.begin(), t.end()))
        .collect();
    assert_eq!(equal, vec![(3, 5)]);

    let not_equal: Vec<(usize, usize)> = resource
        .related_text(TextSelectionOperator::equals().toggle_negate(), tset.clone())
        .map(|t| (t.begin(), t.end()))
        .collect();
    assert!(
        !not_equal.contains(&(3, 5)),
        "(3,5) is returned as equal to the reference and as not equal to it: {:?}",
        not_equal
    );

    let overlapping: Vec<(usize, usize)> = resource
        .related_text(TextSelectionOperator::overlaps(), tset)
        .map(|t| (t.begin(), t.end()))
        .collect();
    assert!(
        !overlapping.contains(&(3, 5)),
        "only equality returns the reference selection itself: {:?}",
        overlapping
    );
}

/// 7. Searching from an annotation that has no text, in a store without a resource with handle 0.
///
/// `FromIterator for TextSelectionSet` (src/textselection.rs) puts the dummy resource handle 0 in an
/// empty set; `ResultItem<Annotation>::related_text` (src/api/annotation.rs) passes it on and
/// `ResultTextSelectionSet::resource()` (src/api/textselection.rs) does
/// `.expect("resource must exist")`. No selection is in any relation with nothing: the result has
/// to be empty, not a panic. (With a resource 0 present the answer is indeed empty.)
#[test]
fn annotation_without_text_in_store_without_resource_zero() {
    let mut store = AnnotationStore::default()
        .with_id("test")
        .with_dataset(AnnotationDataSetBuilder::new().with_id("d"))
        .unwrap();
    store
        .annotate(
            AnnotationBuilder::new()
                .with_id("meta")
                .with_target(SelectorBuilder::datasetselector("d"))
                .with_data("d", "k", "v"),
        )
        .unwrap();
    let annotation = store.annotation("meta").unwrap();
    let count = std::panic::catch_unwind(std::panic::AssertUnwindSafe(|| {
        annotation
            .related_text(TextSelectionOperator::overlaps())
            .count()
    }));
    assert_eq!(count.ok(), Some(0));
}
