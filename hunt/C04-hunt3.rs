// Violations of the property
//   "Offsets resolve to exactly the addressed codepoints, or are rejected; every offset the
//    library reports back is well-formed and re-resolves to the same absolute range"
// Each test FAILS on the current code and would pass on a correct implementation.

use stam::*;

const TEXT: &str = "a€😀éxyz hello";

fn sub(text: &str, b: usize, e: usize) -> String {
    text.chars().skip(b).take(e - b).collect()
}

fn annotate_text(store: &mut AnnotationStore, id: &str, resource: &str, b: usize, e: usize) {
    store
        .annotate(
            AnnotationBuilder::new()
                .with_id(id.to_string())
                .with_target(SelectorBuilder::textselector(
                    resource.to_string(),
                    Offset::simple(b, e),
                ))
                .with_data("s", "k", "v"),
        )
        .unwrap();
}

/// 1. `Text::absolute_offset()` (the provided trait method in src/text.rs, used by `TextResource`,
/// `ResultItem<TextResource>`, `ResultItem<TextSelection>` and by any generic code over `T: Text`)
/// accepts an inverted offset (end before begin) and reports back an inverted absolute offset,
/// which does not re-resolve to anything. The inherent `TextSelection::absolute_offset()` in
/// src/textselection.rs was given the `end < begin` check (commit 526511c); the trait's provided
/// method resolves the two cursors independently and never compares them.
#[test]
fn trait_absolute_offset_accepts_inverted_offset() {
    let mut store = AnnotationStore::default();
    store
        .add_resource(TextResourceBuilder::new().with_id("r").with_text(TEXT))
        .unwrap();
    annotate_text(&mut store, "P", "r", 1, 5);

    let resource = store.resource("r").unwrap();
    let p = store.annotation("P").unwrap();
    let rts = p.textselections().next().unwrap();
    let item = rts.as_resultitem().unwrap(); // ResultItem<TextSelection>

    let inverted = [
        Offset::simple(3, 1),
        Offset::new(Cursor::EndAligned(-1), Cursor::BeginAligned(1)),
        Offset::new(Cursor::BeginAligned(2), Cursor::EndAligned(-3)),
        Offset::new(Cursor::EndAligned(-1), Cursor::EndAligned(-2)),
    ];
    for offset in inverted.iter() {
        // sanity: the same offset is refused everywhere else
        assert!(resource.textselection(offset).is_err());
        assert!(item.textselection(offset).is_err());
        assert!(rts.absolute_offset(offset).is_err()); //inherent method: checked

        // the trait method on the resource
        let r = Text::absolute_offset(&resource, offset);
        assert!(
            r.is_err(),
            "ResultItem<TextResource>::absolute_offset({:?}) must be refused, got {:?}",
            offset,
            r
        );
        let r = Text::absolute_offset(resource.as_ref(), offset);
        assert!(
            r.is_err(),
            "TextResource::absolute_offset({:?}) must be refused, got {:?}",
            offset,
            r
        );
        // the trait method on a text selection (relative -> absolute)
        let r = item.absolute_offset(offset);
        assert!(
            r.is_err(),
            "ResultItem<TextSelection>::absolute_offset({:?}) must be refused, got {:?}",
            offset,
            r
        );
        let r = Text::absolute_offset(&rts, offset);
        assert!(
            r.is_err(),
            "<ResultTextSelection as Text>::absolute_offset({:?}) must be refused, got {:?}",
            offset,
            r
        );
    }
}

fn write_csv_store(dir: &str, rows: &str) -> String {
    std::fs::create_dir_all(dir).unwrap();
    std::fs::write(
        format!("{}/x.store.stam.csv", dir),
        "Type,Id,Filename\nAnnotationStore,x,x.annotations.stam.csv\nAnnotationDataSet,s,x.annotationset.stam.csv\nTextResource,r.txt,r.txt\n",
    )
    .unwrap();
    std::fs::write(
        format!("{}/x.annotationset.stam.csv", dir),
        "Id,Key,Value\n,k,\nD1,k,v\n",
    )
    .unwrap();
    std::fs::write(format!("{}/r.txt", dir), TEXT).unwrap();
    std::fs::write(
        format!("{}/x.annotations.stam.csv", dir),
        format!("Id,AnnotationData,AnnotationDataSet,SelectorType,TargetResource,TargetAnnotation,TargetDataSet,BeginOffset,EndOffset,TargetKey,TargetData\n{}", rows),
    )
    .unwrap();
    format!("{}/x.store.stam.csv", dir)
}

/// 2. An annotation-relative offset of which only one cursor is given in STAM CSV is not refused:
/// the row is loaded as an AnnotationSelector WITHOUT offset, so the annotation silently selects
/// no text at all. (A TextSelector row with one cursor missing is refused, and so is a
/// subselector of a complex selector that has a begin but no end.)
/// Cause: src/csv.rs, `TryInto<AnnotationBuilder> for CsvAnnotationRow`: the simple
/// `SelectorKind::AnnotationSelector` arm builds the offset only `if !begin.is_empty() &&
/// !end.is_empty()` and otherwise falls back to `None`; the arm for subselectors of a complex
/// selector only looks at the end cursor when the begin cursor is non-empty.
#[test]
fn csv_half_given_annotation_offset_is_silently_dropped() {
    let dir = "/tmp/wt-h3c04/target/h3c04-hunt-csv";
    let parent = "P,D1,s,TextSelector,r.txt,,,1,5,,\n";
    let cases = [
        // begin without end
        "B,D1,s,AnnotationSelector,,P,,1,,,\n",
        // end without begin
        "B,D1,s,AnnotationSelector,,P,,,2,,\n",
        // inside a complex selector: end without begin for the AnnotationSelector
        "B,D1,s,CompositeSelector;AnnotationSelector;TextSelector,;;r.txt,;P;,,;;0,;2;1,,\n",
    ];
    // sanity: the complete offset is accepted and resolves
    {
        let f = write_csv_store(
            dir,
            &format!("{}{}", parent, "B,D1,s,AnnotationSelector,,P,,1,2,,\n"),
        );
        let store = AnnotationStore::from_file(&f, Config::default()).unwrap();
        assert_eq!(store.annotation("B").unwrap().text_simple(), Some("😀"));
    }
    // sanity: the same mistake on a TextSelector is refused
    {
        let f = write_csv_store(dir, "P,D1,s,TextSelector,r.txt,,,1,,,\n");
        assert!(AnnotationStore::from_file(&f, Config::default()).is_err());
    }
    for rows in cases {
        let f = write_csv_store(dir, &format!("{}{}", parent, rows));
        match AnnotationStore::from_file(&f, Config::default()) {
            Err(_) => {} //refused: fine
            Ok(store) => {
                let b = store.annotation("B").unwrap();
                let offsets: Vec<Option<Offset>> = b
                    .as_ref()
                    .target()
                    .iter(&store, false)
                    .filter(|s| s.kind() == SelectorKind::AnnotationSelector)
                    .map(|s| s.offset(&store))
                    .collect();
                panic!(
                    "row {:?} carries half an offset but was accepted; the AnnotationSelector came out with offset {:?} and the annotation selects {:?}",
                    rows,
                    offsets,
                    b.text().collect::<Vec<_>>()
                );
            }
        }
    }
}

/// 3. After `remove_annotation()` + `reindex()`, an annotation-relative offset is reported against
/// (and serialised with) the WRONG parent annotation: B targets P with offset 1..2; X (which was
/// added before P) is removed and the store reindexed; P moves from handle 1 to handle 0, but the
/// `Selector::AnnotationSelector(AnnotationHandle(1), ..)` inside B is not remapped and now names
/// Q. `offset()` answers None (B's text is not inside Q) and the JSON serialisation of B says
/// `"annotation": "Q"` with the offset dropped.
/// Cause: src/annotationstore.rs `AnnotationStore::reindex()` / src/store.rs
/// `ReindexStore::reindex()`: only the handles of the items themselves and the reverse indices are
/// remapped; annotation handles held inside the selectors of other annotations
/// (AnnotationSelector, RangedAnnotationSelector) are left as they were.
#[test]
fn reindex_after_annotation_removal_breaks_relative_offsets() {
    let mut store = AnnotationStore::default();
    store
        .add_resource(TextResourceBuilder::new().with_id("r").with_text(TEXT))
        .unwrap();
    annotate_text(&mut store, "X", "r", 0, 1);
    annotate_text(&mut store, "P", "r", 1, 5);
    annotate_text(&mut store, "Q", "r", 8, 13);
    store
        .annotate(
            AnnotationBuilder::new()
                .with_id("B")
                .with_target(SelectorBuilder::annotationselector(
                    "P",
                    Some(Offset::simple(1, 2)),
                ))
                .with_data("s", "k", "v"),
        )
        .unwrap();
    {
        let b = store.annotation("B").unwrap();
        assert_eq!(b.text_simple(), Some("😀"));
        assert_eq!(
            b.as_ref().target().offset(&store),
            Some(Offset::simple(1, 2))
        );
    }

    store.remove_annotation("X").unwrap();
    let store = store.reindex();

    let b = store.annotation("B").unwrap();
    assert_eq!(b.text_simple(), Some("😀"));
    let p = store.annotation("P").unwrap();
    let parent_text = p.textselections().next().unwrap();
    for mode in [
        OffsetMode::BeginBegin,
        OffsetMode::BeginEnd,
        OffsetMode::EndBegin,
        OffsetMode::EndEnd,
    ] {
        let reported = b.as_ref().target().offset_with_mode(&store, Some(mode));
        assert!(
            reported.is_some(),
            "B targets P with an offset, but after reindex() no offset is reported ({:?})",
            mode
        );
        let resolved = parent_text.textselection(&reported.unwrap()).unwrap();
        assert_eq!((resolved.begin(), resolved.end()), (2, 3));
    }
    let json = b.as_ref().to_json_string(&store).unwrap();
    let compact: String = json.chars().filter(|c| !c.is_whitespace()).collect();
    assert!(
        compact.contains("\"annotation\":\"P\"") && compact.contains("\"offset\""),
        "B is serialised against the wrong annotation / without its offset after reindex():\n{}",
        json
    );
}

/// 4. After `remove_resource()` + `reindex()`, the text of an annotation is no longer the codepoints
/// its offset addressed: A selects 6..11 ("world") of r1; r0 is removed and the store reindexed;
/// r1 moves to handle 0 and r2 to handle 1, but `Selector::TextSelector(TextResourceHandle(1), ..)`
/// inside A is not remapped, so A now reads its text selection out of r2 ("HELLO"), and an
/// annotation on the last resource refers to a resource handle that no longer exists (panic).
/// Cause: as above, `AnnotationStore::reindex()` does not remap the resource handles held inside
/// the selectors of annotations (TextSelector, ResourceSelector, AnnotationSelector with offset,
/// RangedTextSelector).
#[test]
fn reindex_after_resource_removal_changes_annotation_text() {
    let mut store = AnnotationStore::default();
    for (id, text) in [("r0", "abc"), ("r1", "hello world"), ("r2", "HELLO WORLD")] {
        store
            .add_resource(TextResourceBuilder::new().with_id(id).with_text(text))
            .unwrap();
    }
    annotate_text(&mut store, "A", "r1", 6, 11);
    annotate_text(&mut store, "C", "r2", 0, 5);
    assert_eq!(store.annotation("A").unwrap().text_simple(), Some("world"));
    assert_eq!(store.annotation("C").unwrap().text_simple(), Some("HELLO"));

    store.remove_resource("r0").unwrap();
    assert_eq!(store.annotation("A").unwrap().text_simple(), Some("world"));
    let store = store.reindex();

    let a = store.annotation("A").unwrap();
    assert_eq!(
        a.text_simple(),
        Some("world"),
        "after reindex() annotation A (r1, 6..11) reads its text from another resource"
    );
    assert_eq!(a.resource().unwrap().id(), Some("r1"));
    let offset = a.as_ref().target().offset(&store).unwrap();
    assert_eq!(offset, Offset::simple(6, 11));
    assert_eq!(
        store.resource("r1").unwrap().text_by_offset(&offset).unwrap(),
        sub("hello world", 6, 11)
    );
    // (on the current code this one panics: resource handle 2 no longer exists)
    let c = std::panic::catch_unwind(std::panic::AssertUnwindSafe(|| {
        store
            .annotation("C")
            .unwrap()
            .text_simple()
            .map(|s| s.to_string())
    }));
    assert_eq!(c.ok().flatten(), Some("HELLO".to_string()));
}

/// 5. (option away from its default) With `Config::with_annotation_annotation_map(false)`, removing an
/// annotation leaves the annotations that target it with a relative offset in the store, and asking
/// such an annotation for its offset panics ("handle must be valid") instead of reporting a
/// well-formed offset or refusing with an error.
/// Cause: src/annotationstore.rs, `StoreCallbacks<Annotation>::preremove()` finds the dependent
/// annotations only through the optional `annotation_annotation_map`; src/selector.rs
/// `Selector::offset_with_mode()` then `expect()`s the dangling annotation handle.
#[test]
fn removal_without_annotation_map_leaves_unreportable_offset() {
    let mut store =
        AnnotationStore::new(Config::default().with_annotation_annotation_map(false));
    store
        .add_resource(TextResourceBuilder::new().with_id("r").with_text(TEXT))
        .unwrap();
    annotate_text(&mut store, "P", "r", 1, 5);
    store
        .annotate(
            AnnotationBuilder::new()
                .with_id("B")
                .with_target(SelectorBuilder::annotationselector(
                    "P",
                    Some(Offset::simple(1, 2)),
                ))
                .with_data("s", "k", "v"),
        )
        .unwrap();
    store.remove_annotation("P").unwrap();
    if let Some(b) = store.annotation("B") {
        // B survived the removal of the annotation its offset is relative to
        let reported = std::panic::catch_unwind(std::panic::AssertUnwindSafe(|| {
            b.as_ref().target().offset(&store)
        }));
        assert!(
            reported.is_ok(),
            "B was kept although its parent P is gone, and reporting its offset panics"
        );
    }
}
