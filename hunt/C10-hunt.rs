// Violations of the property
//   "Annotation data is a deduplicated vocabulary and data search equals a scan"
// Every test in this file FAILS on the current code and would pass on a correct implementation.
// No test writes files.

use stam::*;

/// (handle, key, value) of all data in `set` that a full scan selects for (key, operator)
fn scan(store: &AnnotationStore, set: &str, key: &str, op: &DataOperator) -> Vec<(usize, String, String)> {
    let ds = store.dataset(set).expect("dataset");
    ds.data()
        .filter(|d| d.key().as_str() == key && d.value().test(op))
        .map(|d| (d.handle().as_usize(), d.key().as_str().to_string(), format!("{:?}", d.value())))
        .collect()
}

const STORE_A: &str = r#"{"@type":"AnnotationStore","@id":"a","resources":[],"annotations":[],
  "annotationsets":[{"@type":"AnnotationDataSet","@id":"ds",
     "keys":[{"@type":"DataKey","@id":"pos"},{"@type":"DataKey","@id":"lemma"}],
     "data":[{"@type":"AnnotationData","@id":"D1","key":"pos","value":{"@type":"String","value":"noun"}}]}]}"#;

/// the same dataset, the same data identifier D1, but D1 now carries the key "lemma"
const STORE_B: &str = r#"{"@type":"AnnotationStore","@id":"b","resources":[],"annotations":[],
  "annotationsets":[{"@type":"AnnotationDataSet","@id":"ds",
     "keys":[{"@type":"DataKey","@id":"pos"},{"@type":"DataKey","@id":"lemma"}],
     "data":[{"@type":"AnnotationData","@id":"D1","key":"lemma","value":{"@type":"String","value":"x"}}]}]}"#;

/// WRONG: when a second store is merged into a first (AnnotationStore::with_file / merge_json_file /
/// merge_json_str) and both hold dataset "ds" with a data item "D1" whose key differs, the item in the
/// merged set gets the key and value of the second store, but the key->data index of the set is left
/// as it was: the old key still lists D1 and the new key does not. Asking the key "pos" for its data
/// returns an item that carries "lemma"; find_data("ds","lemma",..) finds nothing although a scan
/// finds D1.
///
/// CAUSE: src/store.rs StoreFor::insert(), branch `if self.config().merge { existing_item.merge(item) }`
/// calls AnnotationData::merge() (src/annotationdata.rs), which overwrites `key` and `value` in place;
/// nothing removes the (old key, handle) relation from AnnotationDataSet::key_data_map nor adds the
/// new one (the map is only maintained by the inserted()/preremove() callbacks in
/// src/annotationdataset.rs). Reached from AnnotationDataSet::merge() (src/annotationdataset.rs:176).
#[test]
fn merge_moves_data_to_other_key_but_key_index_is_stale() -> Result<(), StamError> {
    let mut store = AnnotationStore::from_str(STORE_A, Config::default())?;
    store.merge_json_str(STORE_B)?;

    let ds = store.dataset("ds").expect("dataset");
    // whatever the merge decided about D1, every key must list exactly the data that carries it
    for key in ds.keys() {
        let via_key: Vec<usize> = key.data().map(|d| d.handle().as_usize()).collect();
        let via_scan: Vec<usize> = ds
            .data()
            .filter(|d| d.key().as_str() == key.as_str())
            .map(|d| d.handle().as_usize())
            .collect();
        assert_eq!(via_key, via_scan, "data of key {:?}", key.as_str());
    }
    for key in ["pos", "lemma"] {
        let found: Vec<(usize, String, String)> = store
            .find_data("ds", key, DataOperator::Any)
            .map(|d| (d.handle().as_usize(), d.key().as_str().to_string(), format!("{:?}", d.value())))
            .collect();
        assert_eq!(found, scan(&store, "ds", key, &DataOperator::Any), "find_data(ds, {}, any)", key);
    }
    Ok(())
}

const STORE_IDLESS: &str = r#"{"@type":"AnnotationStore","@id":"a","resources":[],"annotations":[],
  "annotationsets":[{"@type":"AnnotationDataSet","@id":"ds",
     "keys":[{"@type":"DataKey","@id":"pos"}],
     "data":[{"@type":"AnnotationData","key":"pos","value":{"@type":"String","value":"noun"}}]}]}"#;

/// WRONG: merging a store that holds the same dataset with the same identifier-less data (pos = noun)
/// (e.g. loading the very same file a second time with with_file()) yields a second data item
/// pos = noun without identifier in the one dataset. The vocabulary is no longer deduplicated.
///
/// CAUSE: src/annotationdataset.rs AnnotationDataSet::merge(): data of the other set is added with
/// `self.insert(data.unbind())` (the raw StoreFor::insert), which never consults data_by_value();
/// only insert_data(.., safety=true) does the (key, value) lookup.
#[test]
fn merge_of_same_dataset_duplicates_data_without_id() -> Result<(), StamError> {
    let mut store = AnnotationStore::from_str(STORE_IDLESS, Config::default())?;
    store.merge_json_str(STORE_IDLESS)?;
    let ds = store.dataset("ds").expect("dataset");
    let items: Vec<String> = ds
        .find_data("pos", DataOperator::Equals("noun".into()))
        .map(|d| format!("{:?} id={:?}", d.handle(), d.id()))
        .collect();
    assert_eq!(items.len(), 1, "pos=noun without id exists {} times: {:?}", items.len(), items);
    Ok(())
}

/// WRONG: a dataset read from STAM JSON in which the same identifier-less (key, value) occurs twice
/// ends up with two data items for it.
///
/// CAUSE: src/annotationdataset.rs DataVisitor::visit_seq() calls
/// `build_insert_data(databuilder, false)`: the `safety` flag that makes insert_data() look the
/// (key, value) up with data_by_value() is switched off for all data that is read from JSON
/// (the CSV reader, src/csv.rs FromCsv for AnnotationDataSet, does the same).
#[test]
fn json_dataset_with_repeated_idless_data_is_not_deduplicated() -> Result<(), StamError> {
    let json = r#"{"@type":"AnnotationDataSet","@id":"ds",
        "keys":[{"@type":"DataKey","@id":"pos"}],
        "data":[{"@type":"AnnotationData","key":"pos","value":{"@type":"String","value":"noun"}},
                {"@type":"AnnotationData","key":"pos","value":{"@type":"String","value":"noun"}}]}"#;
    let ds = AnnotationDataSet::from_json_str(json, Config::default())?;
    assert_eq!(ds.data().count(), 1, "pos=noun (no id) must exist once");
    Ok(())
}

/// WRONG: the second annotation that names no dataset for its data fails with
/// DuplicateIdError("default-annotationset"); the (key, value) can therefore not be shared by two
/// annotations via the implicit dataset.
///
/// CAUSE: src/annotation.rs AnnotationStore::insert_data(): the dataset is looked up with
/// `self.get_mut(&dataitem.dataset)`; for BuildItem::None that never resolves, so the branch that
/// creates a dataset named "default-annotationset" is taken every time, also when that dataset
/// already exists, and StoreFor::insert() then refuses the duplicate identifier.
#[test]
fn second_annotation_with_data_in_the_implicit_default_set_fails() -> Result<(), StamError> {
    let mut store = AnnotationStore::default()
        .with_id("test")
        .with_resource(TextResourceBuilder::new().with_id("r").with_text("Hello world"))?;
    let a1 = store.annotate(
        AnnotationBuilder::new()
            .with_target(SelectorBuilder::textselector("r", Offset::simple(0, 5)))
            .with_data("", "k", "v"),
    )?;
    let a2 = store.annotate(
        AnnotationBuilder::new()
            .with_target(SelectorBuilder::textselector("r", Offset::simple(6, 11)))
            .with_data("", "k", "v"),
    )?; // <-- Err(BuildError(DuplicateIdError("default-annotationset", ..)))
    assert_eq!(store.datasets().count(), 1);
    assert_eq!(store.data().count(), 1);
    let d1 = store.annotation(a1).unwrap().data().next().map(|d| (d.set().handle(), d.handle())).unwrap();
    let d2 = store.annotation(a2).unwrap().data().next().map(|d| (d.set().handle(), d.handle())).unwrap();
    assert_eq!(d1, d2, "both annotations refer to the one data item");
    Ok(())
}

/// WRONG: testing a data item against a key that does not exist in its set panics
/// ("key must have handle") instead of answering false.
///
/// CAUSE: src/api/datakey.rs ResultItem<DataKey>::test():
/// `other.to_handle(self.store()).expect("key must have handle")`, called from
/// src/api/annotationdata.rs ResultItem<AnnotationData>::test(key, operator).
#[test]
fn testing_data_against_a_key_that_does_not_exist_panics() -> Result<(), StamError> {
    let store = AnnotationStore::default()
        .with_id("test")
        .with_dataset(AnnotationDataSetBuilder::new().with_id("ds").with_key_value("pos", "noun"))?;
    let ds = store.dataset("ds").expect("dataset");
    let data = ds.data().next().expect("data");
    assert!(data.test("pos", &DataOperator::Equals("noun".into())));
    assert!(!data.test("lemma", &DataOperator::Any)); // <-- panics
    Ok(())
}

/// WRONG (minor): a NaN value is never shared, every insertion of (key, NaN) without identifier
/// makes a new data item.
///
/// CAUSE: src/annotationdataset.rs data_by_value() compares with `data.value() == value`, the derived
/// PartialEq of DataValue, under which Float(NaN) != Float(NaN).
#[test]
fn nan_value_is_not_shared() -> Result<(), StamError> {
    let mut ds = AnnotationDataSet::new(Config::default()).with_id("ds");
    let h1 = ds.insert_data("", "k", f64::NAN, true)?;
    let h2 = ds.insert_data("", "k", f64::NAN, true)?;
    assert_eq!(h1, h2);
    assert_eq!(ds.data().count(), 1);
    Ok(())
}

/// WRONG (minor): data that is requested by a handle that does not (or no longer) resolve, together
/// with a key and value, is inserted as a new identifier-less item even though the same
/// identifier-less (key, value) exists: the result carries no explicit identifier, yet it is a duplicate.
///
/// CAUSE: src/annotationdataset.rs insert_data(): the deduplication is guarded by `id.is_none()`,
/// which is false for BuildItem::Handle/BuildItem::Ref, while `id.to_string()` yields no public id
/// for those variants.
#[test]
fn unresolved_handle_as_id_makes_an_idless_duplicate() -> Result<(), StamError> {
    let mut ds = AnnotationDataSet::new(Config::default()).with_id("ds");
    let h1 = ds.insert_data("", "k", "v", true)?;
    let h2 = ds.insert_data(BuildItem::Handle(AnnotationDataHandle::new(99)), "k", "v", true)?;
    assert_eq!(h1, h2, "k=v without identifier exists twice");
    Ok(())
}

/// WRONG (against the documentation of DataOperator): "GreaterThan: The datavalue must be numeric and
/// greater than the value with the operator" (likewise for the other ordering operators), but a Float
/// value never passes an integer ordering operator and an Int value never passes a float one, so
/// find_data(set, key, GreaterThan(3)) skips the item 3.5 that a scan with the documented semantics selects.
///
/// CAUSE: src/datavalue.rs DataValue::test(): only the pairs (Int, integer operator) and
/// (Float, float operator) are matched, (Float, GreaterThan(..)) and (Int, GreaterThanFloat(..)) etc.
/// fall through to `_ => false`.
#[test]
fn ordering_operators_do_not_compare_int_with_float() -> Result<(), StamError> {
    let store = AnnotationStore::default().with_id("test").with_dataset(
        AnnotationDataSetBuilder::new()
            .with_id("ds")
            .with_key_value("n", 3.5)
            .with_key_value("n", 5),
    )?;
    let found: Vec<String> = store
        .find_data("ds", "n", DataOperator::GreaterThan(3))
        .map(|d| format!("{:?}", d.value()))
        .collect();
    assert_eq!(found, vec!["Float(3.5)".to_string(), "Int(5)".to_string()]);
    let found: Vec<String> = store
        .find_data("ds", "n", DataOperator::LessThanFloat(5.5))
        .map(|d| format!("{:?}", d.value()))
        .collect();
    assert_eq!(found, vec!["Float(3.5)".to_string(), "Int(5)".to_string()]);
    Ok(())
}
