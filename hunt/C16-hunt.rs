// Confirmed violations of the property "Transposition preserves text"
// (each test fails on the current code and would pass on a correct implementation)
use stam::*;

const TRANSPOSE_NS: &str = "https://w3id.org/stam/extensions/stam-transpose/";

/// (resource id, begin, end, text) for every text selection of an annotation, in order
fn pieces(a: &ResultItem<Annotation>) -> Vec<(String, usize, usize, String)> {
    a.textselections()
        .map(|t| {
            (
                t.resource().id().unwrap().to_string(),
                t.begin(),
                t.end(),
                t.text().to_string(),
            )
        })
        .collect()
}

/// VIOLATION 1: transposing back over the transposition that transpose() itself returned fails
/// when its two sides lie in the same resource and overlap.
///
/// Input: resource "ABABAB"; simple transposition r[0,4) "ABAB" <-> r[2,6) "ABAB" (a legal
/// transposition: both sides have identical text). The annotation SRC on r[0,4) is transposed:
/// that succeeds and gives TGT on r[2,6) plus the new transposition T2 = (SRC, TGT).
/// Transposing TGT back over T2 must give r[0,4) again, but it is refused with
/// "Not all source fragments were found in the complex transposition T2".
///
/// Cause: src/api/transpose.rs, Transposable::transpose for ResultTextSelectionSet, the source
/// matching loop (lines ~158-255). With TranspositionSide::Auto the source side is fixed to the
/// first side that holds the *begin* of the selection (`source_side = Some(side_i)` in the
/// remainder branch, line ~200): r[2,6) intersects the fragment r[0,4) of side 0 in r[2,4) with
/// the remainder r[4,6), so side 0 is taken as the source side, the remainder is then looked for
/// in side 0 only and not found. Side 1, which holds the whole selection, is never tried.
/// (With `source_side: ByIndex(1)` the very same call succeeds.)
#[test]
fn transpose_back_over_own_result_fails_when_sides_overlap_in_one_resource() {
    let mut store = AnnotationStore::default()
        .with_id("hunt1")
        .with_resource(TextResourceBuilder::new().with_id("r").with_text("ABABAB"))
        .unwrap();
    store
        .annotate(
            AnnotationBuilder::new()
                .with_id("VIA")
                .with_data(TRANSPOSE_NS, "Transposition", DataValue::Null)
                .with_target(SelectorBuilder::DirectionalSelector(vec![
                    SelectorBuilder::textselector("r", Offset::simple(0, 4)),
                    SelectorBuilder::textselector("r", Offset::simple(2, 6)),
                ])),
        )
        .unwrap();
    store
        .annotate(
            AnnotationBuilder::new()
                .with_id("SRC")
                .with_data("ds", "k", "v")
                .with_target(SelectorBuilder::textselector("r", Offset::simple(0, 4))),
        )
        .unwrap();

    // forward: succeeds
    let builders = {
        let via = store.annotation("VIA").unwrap();
        let src = store.annotation("SRC").unwrap();
        src.transpose(
            &via,
            TransposeConfig {
                transposition_id: Some("T2".to_string()),
                target_side_ids: vec!["TGT".to_string()],
                ..Default::default()
            },
        )
        .expect("forward transposition must succeed")
    };
    store
        .annotate_from_iter(builders)
        .expect("adding the returned annotations must succeed");
    assert_eq!(
        pieces(&store.annotation("TGT").unwrap()),
        vec![("r".to_string(), 2, 6, "ABAB".to_string())]
    );

    // backward over the transposition we were handed
    let back = {
        let t2 = store.annotation("T2").unwrap();
        let tgt = store.annotation("TGT").unwrap();
        tgt.transpose(
            &t2,
            TransposeConfig {
                transposition_id: Some("T3".to_string()),
                target_side_ids: vec!["BACK".to_string()],
                ..Default::default()
            },
        )
    };
    let back = back.expect("transposing back over the returned transposition must succeed");
    store.annotate_from_iter(back).unwrap();
    assert_eq!(
        pieces(&store.annotation("BACK").unwrap()),
        vec![("r".to_string(), 0, 4, "ABAB".to_string())],
        "transposing back must return the original offsets"
    );
}

/// VIOLATION 2: transposing back does not return the original offsets when the source has
/// selections that overlap (share their begin): the pieces are needlessly cut up.
///
/// Input: r1 = "xxABCDEFyy", r2 = "ABCDEF....", simple transposition r1[2,8) <-> r2[0,6).
/// Source annotation SRC selects r1[2,3) "A" and r1[2,4) "AB" (DirectionalSelector, two
/// selections, legal). Transposing gives TGT = r2[0,1) "A", r2[0,2) "AB" and T2 = (SRC, TGT).
/// Transposing TGT back over T2 must return r1[2,3), r1[2,4); it returns three pieces
/// r1[2,3) "A", r1[2,3) "A", r1[3,4) "B" (and a resegmentation of TGT that nobody needed).
///
/// Cause: src/api/transpose.rs, Transposable::transpose for ResultTextSelectionSet, the fragment
/// loop `for (refseqnr, reftsel) in annotation.textselections()` (line ~175): it takes the *first*
/// fragment of the side that holds the begin of the selection, even when only part of the
/// selection fits in it, cuts the selection there (remainder buffer, `resegment = true`) and
/// breaks; a later fragment of the same side that holds the selection whole (here r2[0,2)) is
/// never considered.
#[test]
fn transpose_back_cuts_up_selection_that_a_later_fragment_holds_whole() {
    let mut store = AnnotationStore::default()
        .with_id("hunt2")
        .with_resource(TextResourceBuilder::new().with_id("r1").with_text("xxABCDEFyy"))
        .unwrap()
        .with_resource(TextResourceBuilder::new().with_id("r2").with_text("ABCDEF...."))
        .unwrap();
    store
        .annotate(
            AnnotationBuilder::new()
                .with_id("VIA")
                .with_data(TRANSPOSE_NS, "Transposition", DataValue::Null)
                .with_target(SelectorBuilder::DirectionalSelector(vec![
                    SelectorBuilder::textselector("r1", Offset::simple(2, 8)),
                    SelectorBuilder::textselector("r2", Offset::simple(0, 6)),
                ])),
        )
        .unwrap();
    store
        .annotate(
            AnnotationBuilder::new()
                .with_id("SRC")
                .with_data("ds", "k", "v")
                .with_target(SelectorBuilder::DirectionalSelector(vec![
                    SelectorBuilder::textselector("r1", Offset::simple(2, 3)),
                    SelectorBuilder::textselector("r1", Offset::simple(2, 4)),
                ])),
        )
        .unwrap();
    let original = pieces(&store.annotation("SRC").unwrap());
    assert_eq!(
        original,
        vec![
            ("r1".to_string(), 2, 3, "A".to_string()),
            ("r1".to_string(), 2, 4, "AB".to_string())
        ]
    );

    let builders = {
        let via = store.annotation("VIA").unwrap();
        let src = store.annotation("SRC").unwrap();
        src.transpose(
            &via,
            TransposeConfig {
                transposition_id: Some("T2".to_string()),
                target_side_ids: vec!["TGT".to_string()],
                ..Default::default()
            },
        )
        .expect("forward transposition must succeed")
    };
    store.annotate_from_iter(builders).unwrap();
    assert_eq!(
        pieces(&store.annotation("TGT").unwrap()),
        vec![
            ("r2".to_string(), 0, 1, "A".to_string()),
            ("r2".to_string(), 0, 2, "AB".to_string())
        ]
    );

    let back = {
        let t2 = store.annotation("T2").unwrap();
        let tgt = store.annotation("TGT").unwrap();
        tgt.transpose(
            &t2,
            TransposeConfig {
                transposition_id: Some("T3".to_string()),
                target_side_ids: vec!["BACK".to_string()],
                ..Default::default()
            },
        )
        .expect("transposing back must succeed")
    };
    store.annotate_from_iter(back).unwrap();
    assert_eq!(
        pieces(&store.annotation("BACK").unwrap()),
        original,
        "transposing back must return the original offsets"
    );
}

/// VIOLATION 3: a source that is NOT covered by the transposition is transposed all the same, to
/// text that differs, when the sides of the transposition are AnnotationSelectors with an offset.
///
/// Input: r1 = "hello world" (annotation A1 on all of it), r2 = "hello there" (A2 on all of it).
/// The transposition VIA links only the shared part: DirectionalSelector[AnnotationSelector(A1,
/// offset 0..5), AnnotationSelector(A2, offset 0..5)]; the library itself reports the text of VIA
/// as "hello" / "hello". The source r1[6,11) "world" lies outside of it, so transpose() must fail.
/// Instead it succeeds and returns r2[6,11) "there" and a new "transposition" world <-> there.
///
/// Cause: src/api/transpose.rs, Transposable::transpose for ResultTextSelectionSet: the sides are
/// taken from `via.annotations_in_targets(AnnotationDepth::One)` and matched against
/// `annotation.textselections()` of the *targeted annotation as a whole* (lines ~162-175 and
/// ~336-346); the offset that the AnnotationSelector of the transposition carries is dropped
/// (and `valid_transposition()`, line ~590, only checks that the selector is complex).
#[test]
fn transpose_ignores_offsets_of_annotationselectors_in_transposition() {
    let mut store = AnnotationStore::default()
        .with_id("hunt3")
        .with_resource(TextResourceBuilder::new().with_id("r1").with_text("hello world"))
        .unwrap()
        .with_resource(TextResourceBuilder::new().with_id("r2").with_text("hello there"))
        .unwrap();
    store
        .annotate(
            AnnotationBuilder::new()
                .with_id("A1")
                .with_target(SelectorBuilder::textselector("r1", Offset::whole())),
        )
        .unwrap();
    store
        .annotate(
            AnnotationBuilder::new()
                .with_id("A2")
                .with_target(SelectorBuilder::textselector("r2", Offset::whole())),
        )
        .unwrap();
    store
        .annotate(
            AnnotationBuilder::new()
                .with_id("VIA")
                .with_data(TRANSPOSE_NS, "Transposition", DataValue::Null)
                .with_target(SelectorBuilder::DirectionalSelector(vec![
                    SelectorBuilder::annotationselector("A1", Some(Offset::simple(0, 5))),
                    SelectorBuilder::annotationselector("A2", Some(Offset::simple(0, 5))),
                ])),
        )
        .unwrap();
    let via = store.annotation("VIA").unwrap();
    // the transposition links sides with identical text, and only those
    assert_eq!(
        pieces(&via),
        vec![
            ("r1".to_string(), 0, 5, "hello".to_string()),
            ("r2".to_string(), 0, 5, "hello".to_string())
        ]
    );

    let world: ResultTextSelectionSet = std::iter::once(
        store
            .resource("r1")
            .unwrap()
            .textselection(&Offset::simple(6, 11))
            .unwrap(),
    )
    .collect();
    let result = world.transpose(
        &via,
        TransposeConfig {
            transposition_id: Some("T2".to_string()),
            ..Default::default()
        },
    );
    if let Ok(builders) = &result {
        for b in builders {
            eprintln!("returned: {:?}", b.target());
        }
    }
    assert!(
        result.is_err(),
        "\"world\" is not covered by the transposition (hello <-> hello), transpose must fail; it returned r2[6,11) = \"there\""
    );
}
